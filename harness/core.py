"""Generic check runner: build + audit + correspondence + Spec oracle + failing-input search.

See DESIGN.md section 5.9.  Exit codes: 0 property held on everything explored, 1 violation
(VIOLATION line printed), 2 harness/tool failure (never a property verdict).
"""
import hashlib
import json
import os
import random
import sys
import time
import traceback

from . import bridge, canon, findings

VERIF = bridge.VERIF
EVID = os.path.join(VERIF, "evidence")
REPLAYS = os.path.join(EVID, "replays")

BASE_TRUSTED = [
    "Lean 4.33 kernel (lake build of lean/PybropsModel from committed sources)",
    "axioms allowed: propext, Classical.choice, Quot.sound (audited by #audit_module on every run)",
    "Mathlib v4.33 modules imported by the proof files",
    "correspondence harness (harness/*.py, lean/Driver.lean, JSON codec): differential testing, not proof",
    "numpy primitives as modelled in lean/PybropsModel/Np.lean; IEEE-754 abstracted as exact arithmetic + tolerance",
]


class Prop:
    """Base class of a property module (harness/props/cxx.py defines `PROP = <subclass>()`)."""
    PID = None
    MODULE = None           # Lean module holding the property theorems
    RULE = ""               # how cases are generated and what makes one non-trivial
    TRUSTED = []            # per-property additions to the trusted base
    ASSUMPTIONS = []
    CORRESPONDENCE = "functional"
    N_QUICK = 200
    N_THOROUGH = 5000
    EXTRA_BUILD = []        # further lake targets

    def pre_build(self):
        """regenerate Generated/* from /repo's source, if the property has any.  Returns
        (ok, message); ok=False means the translation itself failed (treated as broken obligation)."""
        return True, ""

    def corpus(self):
        return []

    def generate(self, rng, n, tier):
        raise NotImplementedError

    def run_impl(self, case):
        raise NotImplementedError

    def requests(self, case, obs):
        raise NotImplementedError

    def judge(self, case, obs, answers):
        """-> dict(corr=bool, spec=bool, detail=str, nontrivial=bool)"""
        raise NotImplementedError

    def signature(self, case, obs, verdict):
        """attributes of a failing case that KNOWN_FINDINGS matchers refer to"""
        return {"kind": case.get("kind")}

    def shrink(self, case):
        return []

    def mutants(self):
        """[(name, context-manager factory)] in-memory mutants for the self-test (thorough tier)"""
        return []

    def exhaustive(self, tier):
        """optional complete enumeration of a small finite input space: list of cases or None"""
        return None


def _key(case):
    return hashlib.sha1(json.dumps(case, sort_keys=True, separators=(",", ":")).encode()).hexdigest()


def _load_corpus(pid):
    d = os.path.join(VERIF, "corpus", pid)
    out = []
    if os.path.isdir(d):
        for fn in sorted(os.listdir(d)):
            if fn.endswith(".json"):
                c = json.load(open(os.path.join(d, fn)))
                c.setdefault("_corpus", fn)
                out.append(c)
    return out


class cpu_deadline:
    """context manager: raise TimeoutError once the PROCESS has consumed `seconds` of CPU time inside the block
    (ITIMER_PROF: user + system time of all threads), with a wall-clock backstop at `wall_factor` x seconds.
    A changed tree that loops forever on a valid input must end as a failing input with a replay, not hang the
    check - but a deadline measured on the wall clock turns machine load into false alarms (seen: quick checks of
    C06/C19 run next to twenty other jobs), so the budget is CPU time; the wall backstop only catches a blocked
    (sleeping) call.  Only armed in the main thread; nests (inner timers are restored on exit)."""

    def __init__(self, seconds, wall_factor=30, what="implementation"):
        self.seconds, self.wall, self.what = seconds, (seconds or 0) * wall_factor, what

    def __enter__(self):
        import signal
        import threading
        self.armed = bool(self.seconds) and threading.current_thread() is threading.main_thread()
        if not self.armed:
            return self

        def on_cpu(sig, frm):
            raise TimeoutError(f"{self.what} did not return within {self.seconds} s of CPU time")

        def on_wall(sig, frm):
            raise TimeoutError(f"{self.what} did not return within {self.wall} s (wall clock)")
        self.old_prof = signal.signal(signal.SIGPROF, on_cpu)
        self.old_alrm = signal.signal(signal.SIGALRM, on_wall)
        self.prev_prof = signal.setitimer(signal.ITIMER_PROF, self.seconds)
        self.prev_real = signal.setitimer(signal.ITIMER_REAL, self.wall)
        return self

    def __exit__(self, *a):
        import signal
        if self.armed:
            signal.setitimer(signal.ITIMER_PROF, 0)
            signal.setitimer(signal.ITIMER_REAL, 0)
            signal.signal(signal.SIGPROF, self.old_prof)
            signal.signal(signal.SIGALRM, self.old_alrm)
            # re-arm an enclosing deadline with what it had left (approximately: its remaining value at entry)
            if self.prev_prof[0] > 0:
                signal.setitimer(signal.ITIMER_PROF, self.prev_prof[0])
            if self.prev_real[0] > 0:
                signal.setitimer(signal.ITIMER_REAL, self.prev_real[0])
        return False


def _with_deadline(fn, arg, seconds):
    """call fn(arg) under the generous outer CPU-time deadline (property modules with their own, tighter watchdog
    - C06, C17, C19 - arm an inner one)."""
    with cpu_deadline(seconds):
        return fn(arg)


def evaluate(prop, cases):
    """run implementation and model on the cases; returns list of verdict dicts (same order)."""
    obs_list = []
    deadline = getattr(prop, "CASE_TIMEOUT", 600)
    inflight = os.environ.get("VERIF_INFLIGHT")
    crashed = {}
    if os.environ.get("VERIF_CRASHED") and os.path.exists(os.environ["VERIF_CRASHED"]):
        for r in json.load(open(os.environ["VERIF_CRASHED"])):
            crashed[_key(r["case"])] = r["signal"]
    crash_kinds = set()
    if crashed and os.environ.get("VERIF_CRASH_KINDS"):
        crash_kinds = {r["case"].get("kind") for r in json.load(open(os.environ["VERIF_CRASHED"]))}
    for c in cases:
        try:
            if crash_kinds and c.get("kind") in crash_kinds and _key(json.loads(json.dumps(c, default=str))) not in crashed:
                raise RuntimeError("not run: the implementation killed the interpreter on several inputs of this kind in this run")
            if crashed and _key(json.loads(json.dumps(c, default=str))) in crashed:
                # an earlier attempt of this run died inside the implementation on exactly this input (harness/main.py)
                raise RuntimeError(f"the implementation killed the interpreter ({crashed[_key(json.loads(json.dumps(c, default=str)))]}) on this input")
            if inflight:
                with open(inflight, "w") as f:
                    json.dump(c, f, default=str)
            obs_list.append(_with_deadline(prop.run_impl, c, deadline))
        except Exception as e:  # implementation raised on an input the generator considers valid
            obs_list.append({"__exception__": canon.exc_tag(e), "text": f"{type(e).__name__}: {e}"[:300],
                             "where": traceback.format_exc().strip().splitlines()[-3:]})
    reqs, spans = [], []
    for c, o in zip(cases, obs_list):
        if isinstance(o, dict) and "__exception__" in o:
            spans.append((len(reqs), len(reqs)))
            continue
        try:
            r = prop.requests(c, o)
        except Exception as e:
            # the observation no longer has the shape the adapter expects: a broken correspondence on this
            # case (never a harness error by itself: on the unchanged tree no case takes this path)
            o = {"__adapter_error__": f"requests raised {type(e).__name__}: {e}"[:300], "obs": o}
            obs_list[len(spans)] = o
            r = []
        spans.append((len(reqs), len(reqs) + len(r)))
        reqs.extend(r)
    answers = bridge.run_driver(reqs)
    verdicts = []
    for c, o, (a, b) in zip(cases, obs_list, spans):
        if isinstance(o, dict) and "__exception__" in o:
            v = {"corr": False, "spec": False, "detail": "implementation raised: " + o["text"],
                 "nontrivial": True, "exception": o["__exception__"]}
        elif isinstance(o, dict) and "__adapter_error__" in o:
            v = {"corr": False, "spec": True, "detail": "correspondence adapter: " + o["__adapter_error__"],
                 "nontrivial": False, "adapter_error": True}
        else:
            try:
                v = prop.judge(c, o, answers[a:b])
            except Exception as e:
                if os.environ.get("VERIF_STRICT_JUDGE"):
                    raise RuntimeError(f"judge failed on case {json.dumps(c)[:400]}: {e}\n{traceback.format_exc()}")
                # implementation output outside what the comparator understands: correspondence broken on this
                # case, Spec not decided (counted as not-false so that the failing-input search runs)
                v = {"corr": False, "spec": True, "nontrivial": False, "adapter_error": True,
                     "detail": f"correspondence comparator raised {type(e).__name__}: {e}"[:300]
                               + " | " + " / ".join(traceback.format_exc().strip().splitlines()[-4:])[:400]}
        v["obs"] = o
        v["answers"] = answers[a:b]
        verdicts.append(v)
    return verdicts


def _shrink(prop, case, budget=300):
    """greedy delta debugging preserving `spec false on the implementation`"""
    cur = case
    used = 0
    improved = True
    while improved and used < budget:
        improved = False
        cands = list(prop.shrink(cur))[:40]
        if not cands:
            break
        used += len(cands)
        try:
            vs = evaluate(prop, cands)
        except Exception:
            break
        for c, v in zip(cands, vs):
            if not v["spec"]:
                cur = c
                improved = True
                break
    return cur


def _write_replay(prop, seed, n, case, verdict, broken):
    os.makedirs(REPLAYS, exist_ok=True)
    path = os.path.join(REPLAYS, f"{prop.PID}-{seed}-{n}.json")
    body = {
        "property": prop.PID,
        "broken": broken,
        "case": case,
        "implementation_output": verdict.get("obs") if verdict else None,
        "model_answers": verdict.get("answers") if verdict else None,
        "detail": verdict.get("detail") if verdict else None,
        "replay_cmd": f"./check {prop.PID} --replay {os.path.relpath(path, VERIF)}",
    }
    with open(path, "w") as f:
        json.dump(body, f, indent=1, default=str)
    return os.path.relpath(path, VERIF)


def _theorem_kind(name):
    base = name.split(".")[-1]
    if base.endswith("_partial") or "_partial_" in base:
        return "partial"
    if "counterexample" in base:
        return "counterexample"
    if base.startswith("nonvacuous") or base.startswith("example"):
        return "non-vacuity"
    return "full"


def run(prop, tier="quick", seed=0, replay=None, selftest=None):
    t0 = time.time()
    pid = prop.PID
    os.makedirs(EVID, exist_ok=True)
    from . import compat
    compat.install()

    # ---- replay mode -------------------------------------------------------------------
    if replay is not None:
        body = json.load(open(replay if os.path.isabs(replay) else os.path.join(VERIF, replay)))
        case = body.get("case", body)
        ok, log = bridge.build(["PybropsModel.Drv.All"])
        if not ok:
            print(log)
            return 2
        if case is None:
            print(f"replay names a broken obligation only: {body.get('broken')}")
            return 1
        v = evaluate(prop, [case])[0]
        print(json.dumps({"corr": v["corr"], "spec": v["spec"], "detail": v["detail"]}, indent=1))
        print("implementation_output:", json.dumps(v["obs"], default=str)[:2000])
        return 0 if (v["corr"] and v["spec"]) else 1

    # ---- 1. proof obligations ------------------------------------------------------------
    broken = []           # names of theorems / correspondence ops that no longer check
    gen_ok, gen_msg = prop.pre_build()
    if not gen_ok:
        broken.append(f"translation:{gen_msg}")
    # arithmetic kernels re-translated from /repo's source (harness/py2lean.py): Generated/PyK_<pid>.lean is rewritten,
    # the committed Lemmas/PyKEq_<pid>.lean proves every kernel equal to the model definition the theorems are about
    from . import py2lean
    pyk_ok, pyk_msg, pyk_modules = py2lean.regen(pid, compat.REPO)      # takes the build lock itself while it writes
    if not pyk_ok:
        broken.append(f"translation:{pyk_msg}")
    drv_ok, drv_log = bridge.build(["PybropsModel.Drv.All", "AuditCmd"])
    if not drv_ok:
        print("driver/model build failed (harness error):\n" + drv_log)
        return 2
    thm_ok, thm_log = bridge.build([prop.MODULE, *prop.EXTRA_BUILD])
    theorems = []
    if thm_ok:
        theorems = bridge.audit(prop.MODULE)
        for m in prop.EXTRA_BUILD:
            theorems += bridge.audit(m)
    else:
        broken.append(f"build:{prop.MODULE}")
        print(f"[{pid}] lake build {prop.MODULE} failed:\n{thm_log[-3000:]}")
    pyk_failed = 0
    for m in pyk_modules:
        m_ok, m_log = bridge.build([m])
        if m_ok:
            theorems += bridge.audit(m)
        else:
            pyk_failed += 1
            broken.append(f"build:{m}")
            print(f"[{pid}] lake build {m} failed (a kernel translated from the source no longer equals the model):\n"
                  + "\n".join(l for l in m_log.splitlines() if not l.startswith("trace:"))[-3000:])
    bad_ax = [(n, [a for a in axs if a not in bridge.ALLOWED_AXIOMS]) for n, axs in theorems]
    bad_ax = [(n, a) for n, a in bad_ax if a]
    for n, a in bad_ax:
        broken.append(f"axioms:{n}:{','.join(a)}")
    tokens = bridge.forbidden_tokens()
    if tokens:
        print(f"[{pid}] forbidden tokens in Lean sources: {tokens}")
        return 2
    obligations = (len(theorems) if thm_ok else max(1, len(theorems))) + pyk_failed
    discharged = len(theorems) - len(bad_ax) if thm_ok else 0

    # ---- 2. correspondence + Spec on the implementation --------------------------------------
    rng = random.Random(seed * 7919 + 17)
    n = prop.N_THOROUGH if tier == "thorough" else prop.N_QUICK
    cases = _load_corpus(pid) + list(prop.corpus())
    ex = prop.exhaustive(tier)
    exhaustive = ex is not None
    if ex:
        cases += list(ex)
    def _generate(r, k):
        """a generator that consults the code under test (cross maps, shapes) can be broken BY a changed tree: on a tree
        that differs from the recorded baseline that is a broken correspondence (the corpus and the failing-input search
        still run), on the baseline tree it is a harness error"""
        try:
            return list(prop.generate(r, k, tier))
        except Exception as e:
            try:
                from . import srcwatch as _sw
                changed_tree = bool(_sw.changed(compat.REPO)[0])
            except Exception:
                changed_tree = False
            if not changed_tree:
                raise
            broken.append(f"generator:{type(e).__name__}: {e}"[:200])
            print(f"[{pid}] the case generator raised on the changed tree ({type(e).__name__}: {e}); continuing with the corpus")
            return []
    cases += _generate(rng, n)
    # source watch (DESIGN 5.6): a changed pybrops source never alarms by itself; it escalates the quick
    # exploration (further PRNG streams) so that an edit is always met with a deeper run
    watch = {"baseline": None, "changed_files": None, "escalated_cases": 0}
    try:
        from . import srcwatch
        diff, base_head = srcwatch.changed(compat.REPO)
        watch["baseline"] = base_head
        watch["changed_files"] = diff if diff is None else diff[:50]
        if diff and tier == "quick" and not os.environ.get("VERIF_NO_ESCALATE"):
            k = int(os.environ.get("VERIF_ESCALATE") or 3)
            n_before = len(cases)
            for j in range(1, k + 1):
                cases += _generate(random.Random(seed * 7919 + 17 + j * 1000003), n)
            watch["escalated_cases"] = len(cases) - n_before
            print(f"[{pid}] source watch: {len(diff)} source file(s) differ from baseline {str(base_head)[:8]} "
                  f"({', '.join(diff[:4])}{' ...' if len(diff) > 4 else ''}): exploring {watch['escalated_cases']} further cases")
    except Exception as e:      # the watch is an optimisation of the exploration, never a verdict
        watch["error"] = f"{type(e).__name__}: {e}"[:200]
    verdicts = evaluate(prop, cases)

    known = findings.load(pid)

    def _unmatched(pairs):
        return [(c, v) for c, v in pairs if findings.match(known, prop.signature(c, v["obs"], v)) is None]

    spec_fail = [(c, v) for c, v in zip(cases, verdicts) if not v["spec"]]
    corr_fail = [(c, v) for c, v in zip(cases, verdicts) if v["spec"] and not v["corr"]]
    search_cases = 0
    # the deeper search runs whenever something no longer checks and no failing input has been found yet that
    # is NOT already accounted for by a known finding (corpus cases of known findings are Spec-false by design)
    if (broken or corr_fail) and not _unmatched(spec_fail):
        # failing-input search: a deeper sample with the Spec oracle evaluated on the implementation
        rng2 = random.Random(seed * 104729 + 99991)
        extra = list(prop.generate(rng2, max(n, prop.N_THOROUGH // 2), "thorough"))
        search_cases = len(extra)
        ev = evaluate(prop, extra)
        spec_fail = spec_fail + [(c, v) for c, v in zip(extra, ev) if not v["spec"]]
        cases += extra
        verdicts += ev

    # ---- 3. findings matcher, replays, verdict lines --------------------------------------------
    printed = set()
    new_fail = []
    for c, v in spec_fail:
        f = findings.match(known, prop.signature(c, v["obs"], v))
        if f is None:
            new_fail.append((c, v))
        elif f["id"] not in printed:
            printed.add(f["id"])
            print(f"KNOWN-FINDING: property={pid} {f['id']} {f['text']}")
    violations = 0
    nrep = 0
    if new_fail:
        c, v = new_fail[0]
        small = _shrink(prop, c)
        if small is not c:
            v2 = evaluate(prop, [small])[0]
            if not v2["spec"]:
                c, v = small, v2
        path = _write_replay(prop, seed, nrep, c, v, broken or ["spec:" + v.get("detail", "")[:200]])
        print(f"[{pid}] Spec false on the implementation: {v['detail'][:500]}")
        print(f"VIOLATION property={pid} replay={path}")
        violations = len(new_fail)
    elif broken or corr_fail:
        what = list(broken)
        c = v = None
        if corr_fail:
            c, v = corr_fail[0]
            what.append("correspondence:" + v.get("detail", "")[:300])
        path = _write_replay(prop, seed, nrep, c, v, what)
        print(f"[{pid}] no longer checks: {what}")
        print(f"VIOLATION property={pid} replay={path} no-failing-input-found")
        violations = 1

    # ---- 4. self-test (thorough tier, or on request) ----------------------------------------------
    kills = None
    if (tier == "thorough" or selftest) and not violations:
        kills = {}
        base = _load_corpus(pid) + list(prop.corpus()) + list(prop.generate(random.Random(seed + 5), prop.N_QUICK, "quick"))
        # only cases that pass on the unmutated code can witness a kill (known-finding cases never do)
        base_ok = [x["spec"] and x["corr"] for x in evaluate(prop, base)]
        for name, ctx in prop.mutants():
            try:
                with ctx():
                    vs = evaluate(prop, base)
                kills[name] = any(ok and ((not x["spec"]) or (not x["corr"])) for ok, x in zip(base_ok, vs))
            except Exception as e:
                kills[name] = f"error: {type(e).__name__}: {e}"[:200]
        missed = [k for k, r in kills.items() if r is not True]
        if missed:
            print(f"[{pid}] self-test: mutants not killed: {missed}")

    # ---- 5. evidence ------------------------------------------------------------------------
    seen = set()
    distinct_nontrivial = 0
    for c, v in zip(cases, verdicts):
        k = _key({kk: vv for kk, vv in c.items() if not kk.startswith("_")})
        if k not in seen:
            seen.add(k)
            if v.get("nontrivial"):
                distinct_nontrivial += 1
    dist = {}
    for c in cases:
        dist[c.get("kind", "?")] = dist.get(c.get("kind", "?"), 0) + 1
    samples = []
    step = max(1, len(cases) // 3)
    for c, v in list(zip(cases, verdicts))[::step][:3]:
        samples.append({"case": json.loads(json.dumps(c, default=str)[:3000]) if len(json.dumps(c, default=str)) < 3000
                        else json.dumps(c, default=str)[:3000],
                        "verdict": {"corr": v["corr"], "spec": v["spec"], "detail": v["detail"][:300]}})
    ev = {
        "property_id": pid,
        "tier": tier,
        "seed": seed,
        "level": "proof",
        "coverage": {
            "obligations": obligations,
            "discharged": discharged,
            "checker_cmd": f"cd lean && lake build {prop.MODULE} && lake env lean .lake/audit/{prop.MODULE.replace('.', '_')}.lean",
            "trusted_base": BASE_TRUSTED + list(prop.TRUSTED),
            "theorems": [{"name": nme, "kind": _theorem_kind(nme), "axioms": axs} for nme, axs in theorems],
            "broken_obligations": broken,
            "correspondence": prop.CORRESPONDENCE,
            "evaluations": len(cases),
            "distinct_nontrivial": distinct_nontrivial,
            "rule": prop.RULE,
            "traces_validated_against_impl": sum(1 for v in verdicts if v["corr"]),
            "spec_evaluated_on_impl": len(verdicts),
            "spec_false_on_impl": len(spec_fail),
            "known_findings_hit": sorted(printed),
            "failing_input_search_cases": search_cases,
            "input_distribution": dist,
            "samples": samples,
            "exhaustive": bool(exhaustive),
            "selftest_kills": kills,
            "srcwatch": watch,
        },
        "assumptions": list(prop.ASSUMPTIONS),
        "wall_s": round(time.time() - t0, 2),
        "violations": violations,
    }
    if tier == "thorough" and thm_ok:
        ok, log = bridge.leanchecker(prop.MODULE)
        ev["coverage"]["leanchecker"] = "ok" if ok else log[-500:]
    with open(os.path.join(EVID, f"{pid}.json"), "w") as f:
        json.dump(ev, f, indent=1, default=str)
    print(f"[{pid}] tier={tier} seed={seed} theorems={discharged}/{obligations} cases={len(cases)} "
          f"nontrivial={distinct_nontrivial} corr_ok={ev['coverage']['traces_validated_against_impl']} "
          f"spec_false={len(spec_fail)} known={sorted(printed)} wall={ev['wall_s']}s")
    return 1 if violations else 0
