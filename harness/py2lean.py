"""Python -> Lean *kernel translator* (pure `ast`; never imports pybrops).

For every property with arithmetic kernels, `regen(pid, repo_root)` re-reads the anchored Python functions
from the pybrops working tree, translates them to Lean 4 definitions and writes
`lean/PybropsModel/Generated/PyK_<pid>.lean` (namespace `PyK.<pid>`).  The hand-written, committed module
`lean/PybropsModel/Lemmas/PyKEq_<pid>.lean` proves every generated definition equal to the model definition
the property theorems are about, so a semantic edit of the source changes the generated term and the
equality proof stops checking (a *broken obligation* of that property), while a harmless rewrite
(reassociation, renamed local, `2.0*d` <-> `d+d`) still proves.

Supported subset (anything else is a translation failure of that kernel -- never a guess):
  statements   assignment to a local name / to `self.attr`, augmented assignment, `return`, `raise` (the
               function then returns `Option`), `if/elif/else` (branches that end in return/raise, or that
               assign names), `a, b = divmod(x, y)` on naturals, boolean-mask assignment `x[m] = e`
               (elementwise: `x := if m then e else x`; `y[m]` inside `e` is `y`; `e = numpy.nan` makes `x`
               an `Option`), docstrings, and -- only when listed by the kernel -- ignored `if` blocks
               (dtype conversion) and ignored call statements (`check_*`).
  expressions  int literals, float literals read as the decimal rational written in the source
               (0.5 -> (1 / 2), 2.0 -> 2), names, dotted names declared as parameters (`self.u_a`,
               `gmat.ploidy`), + - * / unary minus, `**` with a literal natural exponent (repeated
               multiplication) or a Nat-valued variable (`powN`), `//` `%` on naturals, comparisons,
               `and/or/not` `& | ~`, `a if c else b`, numpy.exp/log/tanh/arctanh/sqrt (model classes
               HasExp/...), abs/numpy.abs/absolute, min/max/numpy.minimum/maximum (two arguments),
               numpy.where(c, a, b), float()/numpy.float64()/.copy()/.ravel()/.flatten()/`x[:, None]`
               (identity: shape only), a boolean used as a number (`(if b then 1 else 0)`), `numpy.inf`
               against a natural (decided statically), calls of other kernels of the same property.
  vectors      parameters of kind V are `List α`: + - * / are `List.map` / `List.zipWith`, `.sum()` /
               `numpy.sum` -> `Np.sum`, `.dot` / `numpy.dot` -> `Np.dot`; in ROW kernels `numpy.outer(s, v)`
               is `s * v` and `numpy.linalg.norm(v, axis=1)` is `sqrt (v . v)` for ONE row of the matrix.
  elementwise application is implicit: a numpy ufunc expression on arrays is translated as the scalar function
  of one element (stated in every generated header).

Slice kernels translate a *selected* list of statements of a larger function: the statements of ONE block -- the
outermost block that assigns the kernel's `result` name (or `block_of`), or the body of the `if` named by `block_if` --
whose assigned name is in `targets` (optionally from the first assignment of `start`, up to the first assignment of
`stop`, only the first assignment of the result with `result_first`, only statements of the ast types `stmt_types`).
Every other name read must be a declared parameter; a statement of the block that re-binds a parameter is out of scope
(its right-hand side is recorded in the generated header) and the parameter stands for the NEW value: the translation
fails when translated statements read the parameter both before and after.  Sub-expressions listed in `opaque` (matched
on their exact `ast.unparse` text, e.g. `mat.max(0)`, `self.afreq()`, `format == 'kinship'`) are parameters as well.
`summand_of`: the right-hand side `(<e>).sum(...)` of that name is translated as its summand `<e>`.  `cell_targets`:
`name[<index>] = e` is the assignment of one cell.  `fix`: a parameter is partially evaluated at `numpy.inf` (decides
`k < numpy.inf`, `inf + 1`, `inf == 0` statically) -- the `_inf` variant of a kernel.

Registry: `KERNELS[pid]` (built by harness/py2lean_kernels.py).  `regen(pid, repo_root) -> (ok, msg, modules)`.
CLI: `python -m harness.py2lean --all` (rewrite every Generated/PyK_<pid>.lean), `--check` (one line per kernel),
`[pid ...]`, `--repo <root>`.
"""
import ast
import dataclasses
import re
import hashlib
import os
import sys
from fractions import Fraction

try:
    from . import bridge, compat
    LEAN = bridge.LEAN
    DEFAULT_REPO = compat.REPO
except Exception:                                      # pragma: no cover (stand-alone use)
    bridge = None
    LEAN = os.path.join(os.path.dirname(os.path.dirname(os.path.abspath(__file__))), "lean")
    DEFAULT_REPO = os.environ.get("PYBROPS_REPO", "/repo")

GEN_DIR = os.path.join(LEAN, "PybropsModel", "Generated")


class Untranslatable(Exception):
    pass


# ====================================================================================== registry types
@dataclasses.dataclass
class Kernel:
    path: str                      # relative to the pybrops source root
    qualname: str                  # "func" or "Class.method"
    lean_name: str
    params: list                   # [(python name | dotted name, kind)], kinds: S B N Z V
    model: str = ""                # model counterpart (documentation)
    notes: str = ""
    result: object = None          # slice mode: name (or tuple of names) whose final value is returned
    targets: tuple = ()            # slice mode: names whose assignments are translated
    opaque: dict = dataclasses.field(default_factory=dict)     # unparse text -> (lean name, kind)
    opaque_targets: tuple = ()     # names (re)bound by out-of-scope statements inside the slice
    skip_if: tuple = ()            # unparse text of `if` tests whose whole statement is ignored
    skip_calls: tuple = ()         # prefixes of call statements ignored (e.g. "check_")
    fix: dict = dataclasses.field(default_factory=dict)        # name -> "inf" | number  (partial evaluation)
    calls: dict = dataclasses.field(default_factory=dict)      # python function name -> lean kernel name
    rename: dict = dataclasses.field(default_factory=dict)     # python name -> lean identifier
    row: bool = False              # ROW kernel (see module docstring)
    summand_of: tuple = ()         # names whose right-hand side `(<e>).sum(...)` is translated as the summand <e>
    result_first: bool = False     # slice ends with the first statement that assigns the result name
    start: str = ""                # slice starts at the first statement that assigns this name
    block_if: str = ""             # slice block = body of the `if`/`elif` with this test (unparse text)
    skip_assign: tuple = ()        # whole-function mode: assignments to these names are ignored
    block_of: str = ""             # slice block = the block that assigns this name (default: the result name)
    stop: str = ""                 # slice ends before the first statement that assigns this name
    stmt_types: tuple = ()         # only statements of these ast types are selected (e.g. ("AugAssign",))
    pre: str = ""                  # precondition on the (Lean-named) parameters under which the reading is exact
    cell_targets: tuple = ()       # `name[<index>] = e` is read as the assignment of ONE cell: `name := e`
    sqrt_class: str = "Coancestry.HasSqrt"


FN_CLASS = {"exp": ("GMap.HasExp", "PybropsModel.Model.GMap"),
            "log": ("GMap.HasLog", "PybropsModel.Model.GMap"),
            "tanh": ("GMap.HasTanh", "PybropsModel.Model.GMap"),
            "arctanh": ("GMap.HasArtanh", "PybropsModel.Model.GMap")}
SQRT_MODULE = {"Coancestry.HasSqrt": "PybropsModel.Model.Coancestry", "Selection.HasSqrt": "PybropsModel.Model.Selection"}
FN_FIELD = {"exp": "exp", "log": "log", "tanh": "tanh", "arctanh": "artanh", "sqrt": "sqrt"}

LEAN_KEYWORDS = {"at", "from", "fun", "let", "in", "end", "open", "then", "else", "if", "do", "have", "show", "by",
                 "match", "with", "where", "prefix", "instance", "def", "theorem", "import", "namespace", "section",
                 "variable", "universe", "Type", "Prop", "Sort", "class", "structure", "inductive", "mutual", "private",
                 "protected", "macro", "syntax", "notation", "infix", "deriving", "export", "local", "set_option",
                 "for", "return", "mut", "try", "catch", "finally", "unless", "break", "continue", "using", "calc",
                 "nomatch", "exact", "this", "suffices", "obtain", "abbrev", "example", "lemma", "attribute", "extends",
                 "α", "some", "none", "true", "false", "powN", "Np", "List", "Nat", "Int", "Bool", "Option", "decide"}

TYPE_OF = {"S": "α", "B": "Bool", "N": "Nat", "Z": "Int", "V": "List α", "O": "Option α", "G": "GMap.GDist α"}


# ====================================================================================== values
@dataclasses.dataclass
class Val:
    kind: str                 # S B N Z V O L INF
    code: str = ""
    const: object = None      # Fraction for L, bool for a statically known B
    isfloat: bool = False
    atomic: bool = False


def _ident(name):
    base = name.split(".")[-1].lstrip("_") or "x"
    if base in LEAN_KEYWORDS:
        base += "_"
    return base


class Ctx:
    def __init__(self, kernel, done):
        self.k = kernel
        self.done = done            # lean_name -> info of kernels already translated for this pid
        self.feat = set()           # binder features
        self.lits = set()           # natural literals used at α
        self.need_pown = False
        self.opaque_used = {}
        self.partial = False
        self.notes = []

    # ---- literals
    def lit(self, q, kind):
        """Lean code of the rational literal q at kind S / N / Z"""
        if kind == "S":
            if q < 0:
                self.feat.add("Neg")
                return "(-" + self.lit(-q, kind) + ")"
            if q.denominator == 1:
                self.lits.add(q.numerator)
                return str(q.numerator)
            self.feat.add("Div")
            self.lits.add(q.numerator)
            self.lits.add(q.denominator)
            return f"({q.numerator} / {q.denominator})"
        if q.denominator != 1:
            raise Untranslatable(f"non-integer literal {q} in integer arithmetic")
        if kind == "N":
            if q < 0:
                raise Untranslatable(f"negative literal {q} in natural-number arithmetic")
            return str(q.numerator)
        if kind == "Z":
            return str(q.numerator) if q >= 0 else f"({q.numerator})"
        raise Untranslatable(f"literal at kind {kind}")


def _txt(node):
    return ast.unparse(node)


def fresh(n, *codes):
    """n lambda-variable names that do not occur (as identifiers) in the given Lean code fragments"""
    used = set()
    for c in codes:
        used |= set(re.findall(r"[A-Za-z_][A-Za-z0-9_']*", c))
    out = []
    for cand in ["x", "y", "z", "w"] + [f"x{i}" for i in range(1, 50)]:
        if cand not in used and cand not in out:
            out.append(cand)
            if len(out) == n:
                return out
    raise Untranslatable("no fresh variable name")


def _dotted(node):
    """`a.b.c` -> "a.b.c" for a pure Name/Attribute chain, else None"""
    parts = []
    while isinstance(node, ast.Attribute):
        parts.append(node.attr)
        node = node.value
    if isinstance(node, ast.Name):
        parts.append(node.id)
        return ".".join(reversed(parts))
    return None


NUMPY = ("numpy", "np")


def _np_func(node):
    """numpy.<f> / np.<f> / numpy.linalg.<f> -> name, else None"""
    d = _dotted(node)
    if d is None:
        return None
    for p in NUMPY:
        if d.startswith(p + "."):
            return d[len(p) + 1:]
    return None


# ====================================================================================== expressions
class Tr:
    """translator of one kernel"""

    def __init__(self, ctx):
        self.c = ctx
        self.k = ctx.k

    # -------------------------------------------------------------- coercions
    def to_kind(self, v, kind):
        """coerce literal / bool to the numeric kind `kind`"""
        c = self.c
        if v.kind == "L":
            if kind in ("N", "Z") and v.isfloat:
                raise Untranslatable("float literal in integer arithmetic")
            return Val(kind, c.lit(v.const, kind), atomic=True)
        if v.kind == kind:
            return v
        if v.kind == "B" and kind == "S":
            c.lits.update((0, 1))
            if v.const is not None:
                return Val("S", "1" if v.const else "0", atomic=True)
            return Val("S", f"(if {self.as_cond(v)} then 1 else 0)")
        raise Untranslatable(f"cannot use a value of kind {v.kind} as {kind}")

    def as_cond(self, v):
        if v.kind != "B":
            raise Untranslatable(f"value of kind {v.kind} used as a condition")
        if v.const is not None:
            return "True" if v.const else "False"
        return v.code

    def num_kind(self, a, b):
        ks = {a.kind, b.kind} - {"L", "B"}
        if not ks:
            return "S" if (a.kind == "B" or b.kind == "B") else "L"
        if len(ks) > 1:
            if ks <= {"S", "V"}:
                return "V"
            raise Untranslatable(f"mixed kinds {sorted(ks)} in one arithmetic expression (declare the parameter as S)")
        return ks.pop()

    # -------------------------------------------------------------- arithmetic
    OPS = {ast.Add: ("+", "Add"), ast.Sub: ("-", "Sub"), ast.Mult: ("*", "Mul"), ast.Div: ("/", "Div")}

    def binop(self, op, a, b):
        c = self.c
        if a.kind == "INF" or b.kind == "INF":
            other = b if a.kind == "INF" else a
            if isinstance(op, (ast.Add, ast.Sub)) and other.kind in ("L", "N") and not (isinstance(op, ast.Sub) and b.kind == "INF"):
                return Val("INF")
            raise Untranslatable("arithmetic on numpy.inf")
        if isinstance(op, ast.Pow):
            return self.power(a, b)
        if isinstance(op, (ast.FloorDiv, ast.Mod)):
            k = self.num_kind(a, b)
            if k == "L":
                q = (a.const // b.const) if isinstance(op, ast.FloorDiv) else (a.const % b.const)
                return Val("L", const=Fraction(q), isfloat=a.isfloat or b.isfloat)
            if k != "N":
                raise Untranslatable("// and % are supported on naturals only")
            a, b = self.to_kind(a, "N"), self.to_kind(b, "N")
            return Val("N", f"({a.code} {'/' if isinstance(op, ast.FloorDiv) else '%'} {b.code})")
        if type(op) not in self.OPS:
            raise Untranslatable(f"operator {type(op).__name__}")
        sym, feat = self.OPS[type(op)]
        k = self.num_kind(a, b)
        if k == "L":
            x, y = a.const, b.const
            if isinstance(op, ast.Div) and y == 0:
                raise Untranslatable("literal division by zero")
            q = {"+": x + y, "-": x - y, "*": x * y, "/": x / y if y else None}[sym]
            return Val("L", const=Fraction(q), isfloat=a.isfloat or b.isfloat or isinstance(op, ast.Div))
        if k in ("N", "Z"):
            if isinstance(op, ast.Div):
                raise Untranslatable("true division of integers (declare the parameters as S)")
            a, b = self.to_kind(a, k), self.to_kind(b, k)
            return Val(k, f"({a.code} {sym} {b.code})")
        c.feat.add(feat)
        if k == "S":
            a, b = self.to_kind(a, "S"), self.to_kind(b, "S")
            return Val("S", f"({a.code} {sym} {b.code})")
        if k == "V":
            if a.kind == "V" and b.kind == "V":
                x, y = fresh(2, a.code, b.code)
                return Val("V", f"(List.zipWith (fun {x} {y} => {x} {sym} {y}) {a.code} {b.code})")
            if a.kind == "V":
                b = self.to_kind(b, "S")
                x, = fresh(1, a.code, b.code)
                return Val("V", f"(List.map (fun {x} => {x} {sym} {b.code}) {a.code})")
            a = self.to_kind(a, "S")
            y, = fresh(1, a.code, b.code)
            return Val("V", f"(List.map (fun {y} => {a.code} {sym} {y}) {b.code})")
        raise Untranslatable(f"arithmetic at kind {k}")

    def power(self, a, b):
        c = self.c
        if b.kind == "L":
            if b.const.denominator != 1 or b.const < 0:
                raise Untranslatable(f"exponent {b.const} is not a literal natural")
            n = b.const.numerator
            if a.kind == "L":
                return Val("L", const=a.const ** n, isfloat=a.isfloat or b.isfloat)
            if a.kind == "V":
                x, = fresh(1, a.code)
                inner = self.power(Val("S", x, atomic=True), b)
                return Val("V", f"(List.map (fun {x} => {inner.code}) {a.code})")
            if a.kind not in ("S", "N", "Z"):
                raise Untranslatable(f"power of a value of kind {a.kind}")
            if a.kind == "S":
                c.feat.add("Mul")
            if n == 0:
                c.lits.add(1)
                return Val(a.kind, "1", atomic=True)
            if n == 1:
                return a
            if a.atomic:
                return Val(a.kind, "(" + " * ".join([a.code] * n) + ")")
            t = "pw_" if not re.search(r"\bpw_\b", a.code) else "pw_" + str(len(a.code))
            return Val(a.kind, f"(let {t} := {a.code}; " + " * ".join([t] * n) + ")")
        if b.kind == "N":
            a = self.to_kind(a, "S") if a.kind in ("L", "B") else a
            if a.kind != "S":
                raise Untranslatable(f"power of a value of kind {a.kind} with a variable exponent")
            c.need_pown = True
            c.feat.add("Mul")
            c.lits.add(1)
            return Val("S", f"(powN {a.code} {b.code})")
        raise Untranslatable(f"exponent of kind {b.kind} (only literal naturals and Nat parameters)")

    def neg(self, a):
        if a.kind == "L":
            return Val("L", const=-a.const, isfloat=a.isfloat)
        if a.kind == "S":
            self.c.feat.add("Neg")
            return Val("S", f"(-{a.code})")
        if a.kind == "V":
            self.c.feat.add("Neg")
            x, = fresh(1, a.code)
            return Val("V", f"(List.map (fun {x} => -{x}) {a.code})")
        if a.kind == "Z":
            return Val("Z", f"(-{a.code})")
        raise Untranslatable(f"unary minus at kind {a.kind}")

    # -------------------------------------------------------------- comparisons
    def compare(self, op, a, b):
        c = self.c
        # numpy.inf against a natural / literal: decided statically
        if a.kind == "INF" or b.kind == "INF":
            fin = ("L", "N")
            if a.kind == "INF" and b.kind == "INF":
                r = {ast.Lt: False, ast.Gt: False, ast.LtE: True, ast.GtE: True, ast.Eq: True, ast.NotEq: False}
            elif b.kind == "INF" and a.kind in fin:
                r = {ast.Lt: True, ast.Gt: False, ast.LtE: True, ast.GtE: False, ast.Eq: False, ast.NotEq: True}
            elif a.kind == "INF" and b.kind in fin:
                r = {ast.Lt: False, ast.Gt: True, ast.LtE: False, ast.GtE: True, ast.Eq: False, ast.NotEq: True}
            else:
                raise Untranslatable("comparison of a non-integer value with numpy.inf")
            if type(op) not in r:
                raise Untranslatable(f"comparison {type(op).__name__} with numpy.inf")
            return Val("B", const=r[type(op)])
        k = self.num_kind(a, b)
        if k == "L":
            x, y = a.const, b.const
            r = {ast.Lt: x < y, ast.Gt: x > y, ast.LtE: x <= y, ast.GtE: x >= y, ast.Eq: x == y, ast.NotEq: x != y}
            return Val("B", const=r[type(op)])
        if k == "V":
            raise Untranslatable("comparison of vectors")
        a, b = self.to_kind(a, k), self.to_kind(b, k)
        sym = {ast.Lt: "<", ast.Gt: ">", ast.LtE: "≤", ast.GtE: "≥", ast.Eq: "=", ast.NotEq: "≠"}.get(type(op))
        if sym is None:
            raise Untranslatable(f"comparison {type(op).__name__}")
        if k == "S":
            c.feat.add({"<": "LT", ">": "LT", "≤": "LE", "≥": "LE", "=": "DecEq", "≠": "DecEq"}[sym])
        return Val("B", f"({a.code} {sym} {b.code})")

    # -------------------------------------------------------------- expression walk
    def expr(self, node, env, mask=None):
        c, k = self.c, self.k
        t = _txt(node)
        if t in k.opaque:
            nm, kind = k.opaque[t]
            c.opaque_used[t] = (nm, kind)
            return Val(kind, nm, atomic=True)
        if isinstance(node, ast.Constant):
            v = node.value
            if isinstance(v, bool):
                return Val("B", const=v)
            if isinstance(v, int):
                return Val("L", const=Fraction(v))
            if isinstance(v, float):
                return Val("L", const=Fraction(repr(v)), isfloat=True)
            raise Untranslatable(f"constant {v!r}")
        d = _dotted(node)
        if d is not None:
            if d in env:
                return env[d]
            if _np_func(node) == "inf":
                return Val("INF")
            raise Untranslatable(f"name `{d}` is neither a declared parameter nor assigned in the kernel")
        if isinstance(node, ast.UnaryOp):
            if isinstance(node.op, ast.USub):
                return self.neg(self.expr(node.operand, env, mask))
            if isinstance(node.op, ast.UAdd):
                return self.expr(node.operand, env, mask)
            if isinstance(node.op, (ast.Not, ast.Invert)):
                a = self.expr(node.operand, env, mask)
                if a.kind != "B":
                    raise Untranslatable("`not`/`~` of a non-boolean")
                if a.const is not None:
                    return Val("B", const=not a.const)
                return Val("B", f"(¬ {a.code})")
        if isinstance(node, ast.BinOp):
            if isinstance(node.op, (ast.BitAnd, ast.BitOr)):
                return self.boolop(isinstance(node.op, ast.BitAnd),
                                   [self.expr(node.left, env, mask), self.expr(node.right, env, mask)])
            return self.binop(node.op, self.expr(node.left, env, mask), self.expr(node.right, env, mask))
        if isinstance(node, ast.BoolOp):
            return self.boolop(isinstance(node.op, ast.And), [self.expr(v, env, mask) for v in node.values])
        if isinstance(node, ast.Compare):
            vals = [self.expr(x, env, mask) for x in [node.left] + node.comparators]
            parts = [self.compare(op, a, b) for op, a, b in zip(node.ops, vals, vals[1:])]
            return parts[0] if len(parts) == 1 else self.boolop(True, parts)
        if isinstance(node, ast.IfExp):
            cnd = self.expr(node.test, env, mask)
            if cnd.kind != "B":
                raise Untranslatable("non-boolean test of a conditional expression")
            a, b = self.expr(node.body, env, mask), self.expr(node.orelse, env, mask)
            return self.ite(cnd, a, b)
        if isinstance(node, ast.Subscript):
            return self.subscript(node, env, mask)
        if isinstance(node, ast.Call):
            return self.call(node, env, mask)
        raise Untranslatable(f"expression `{t[:80]}` ({type(node).__name__})")

    def boolop(self, is_and, vals):
        for v in vals:
            if v.kind != "B":
                raise Untranslatable("and/or of a non-boolean")
        out = []
        for v in vals:
            if v.const is not None:
                if v.const != is_and:          # False in an `and`, True in an `or`
                    return Val("B", const=v.const)
                continue
            out.append(v.code)
        if not out:
            return Val("B", const=is_and)
        if len(out) == 1:
            return Val("B", out[0])
        return Val("B", "(" + (" ∧ " if is_and else " ∨ ").join(out) + ")")

    def ite(self, cnd, a, b):
        if cnd.const is not None:
            return a if cnd.const else b
        if a.kind == "B" and b.kind == "B":
            return Val("B", f"(if {cnd.code} then {self.as_cond(a)} else {self.as_cond(b)})")
        kk = self.num_kind(a, b)
        if kk == "L":
            kk = "S"
        if kk == "V":
            raise Untranslatable("conditional between vectors")
        a, b = self.to_kind(a, kk), self.to_kind(b, kk)
        return Val(kk, f"(if {cnd.code} then {a.code} else {b.code})")

    def subscript(self, node, env, mask):
        sl = node.slice
        # reshape-only subscripts `x[:, None]`, `x[None, :]`, `x[:]`
        elts = sl.elts if isinstance(sl, ast.Tuple) else [sl]

        def shape_only(e):
            return (isinstance(e, ast.Constant) and e.value is None) or \
                   (isinstance(e, ast.Slice) and e.lower is None and e.upper is None and e.step is None)
        if all(shape_only(e) for e in elts):
            return self.expr(node.value, env, mask)
        if mask is not None and _txt(sl) == mask:      # `y[mask]` on the right of `x[mask] = ...`
            return self.expr(node.value, env, mask)
        raise Untranslatable(f"subscript `{_txt(node)[:60]}`")

    def unary_fn(self, name, a):
        c = self.c
        if a.kind == "V":
            x, = fresh(1, a.code)
            inner = self.unary_fn(name, Val("S", x, atomic=True))
            return Val("V", f"(List.map (fun {x} => {inner.code}) {a.code})")
        a = self.to_kind(a, "S")
        if name == "sqrt":
            cls = self.k.sqrt_class
        else:
            cls = FN_CLASS[name][0]
        c.feat.add("fn:" + name)
        return Val("S", f"({cls}.{FN_FIELD[name]} {a.code})")

    def absval(self, a):
        c = self.c
        if a.kind == "L":
            return Val("L", const=abs(a.const), isfloat=a.isfloat)
        if a.kind == "V":
            x, = fresh(1, a.code)
            inner = self.absval(Val("S", x, atomic=True))
            return Val("V", f"(List.map (fun {x} => {inner.code}) {a.code})")
        if a.kind != "S":
            raise Untranslatable(f"abs at kind {a.kind}")
        c.feat.update(("LT", "Neg"))
        c.lits.add(0)
        if a.atomic:
            return Val("S", f"(if {a.code} < 0 then -{a.code} else {a.code})")
        return Val("S", f"(let ab_ := {a.code}; if ab_ < 0 then -ab_ else ab_)")

    def minmax(self, is_max, a, b):
        """Python `max(a, b)` / numpy.maximum(a, b): b if a < b else a;  `min`: b if b < a else a"""
        kk = self.num_kind(a, b)
        if kk == "L":
            return Val("L", const=(max if is_max else min)(a.const, b.const), isfloat=a.isfloat or b.isfloat)
        if kk not in ("S", "N", "Z"):
            raise Untranslatable(f"min/max at kind {kk}")
        a, b = self.to_kind(a, kk), self.to_kind(b, kk)
        if kk == "S":
            self.c.feat.add("LT")
        if is_max:
            return Val(kk, f"(if {a.code} < {b.code} then {b.code} else {a.code})")
        return Val(kk, f"(if {b.code} < {a.code} then {b.code} else {a.code})")

    def reduce_sum(self, a):
        if a.kind != "V":
            raise Untranslatable("sum of a non-vector (a reduction over an array axis is not a scalar kernel)")
        self.c.feat.add("Add")
        self.c.lits.add(0)
        return Val("S", f"(Np.sum {a.code})")

    def reduce_dot(self, a, b):
        if a.kind != "V" or b.kind != "V":
            raise Untranslatable("dot of non-vectors")
        self.c.feat.update(("Add", "Mul"))
        self.c.lits.add(0)
        return Val("S", f"(Np.dot {a.code} {b.code})")

    def call(self, node, env, mask):
        k = self.k
        if node.keywords and not (len(node.keywords) == 1 and node.keywords[0].arg in ("axis", "keepdims")):
            raise Untranslatable(f"keyword arguments in `{_txt(node)[:60]}`")
        f = node.func
        args = node.args
        npf = _np_func(f)
        fname = f.id if isinstance(f, ast.Name) else None
        if npf in ("exp", "log", "tanh", "arctanh", "sqrt") and len(args) == 1 and not node.keywords:
            return self.unary_fn(npf, self.expr(args[0], env, mask))
        if (npf in ("abs", "absolute") or fname == "abs") and len(args) == 1 and not node.keywords:
            return self.absval(self.expr(args[0], env, mask))
        if (npf in ("minimum", "maximum") or fname in ("min", "max")) and len(args) == 2 and not node.keywords:
            is_max = (npf == "maximum") or (fname == "max")
            return self.minmax(is_max, self.expr(args[0], env, mask), self.expr(args[1], env, mask))
        if npf == "where" and len(args) == 3 and not node.keywords:
            cnd = self.expr(args[0], env, mask)
            if cnd.kind != "B":
                raise Untranslatable("numpy.where with a non-boolean condition")
            return self.ite(cnd, self.expr(args[1], env, mask), self.expr(args[2], env, mask))
        if (fname == "float" or npf == "float64") and len(args) == 1 and not node.keywords:
            v = self.expr(args[0], env, mask)
            if v.kind == "L":
                return Val("L", const=v.const, isfloat=True)
            if v.kind in ("N", "Z"):
                raise Untranslatable("float() of an integer-kind value (declare the parameter as S)")
            return v
        if npf in ("logical_and", "logical_or") and len(args) == 2 and not node.keywords:
            return self.boolop(npf == "logical_and", [self.expr(a, env, mask) for a in args])
        if npf == "logical_not" and len(args) == 1:
            a = self.expr(args[0], env, mask)
            if a.kind != "B":
                raise Untranslatable("logical_not of a non-boolean")
            return Val("B", const=not a.const) if a.const is not None else Val("B", f"(¬ {a.code})")
        row_axis = (k.row and len(node.keywords) == 1 and node.keywords[0].arg == "axis"
                    and isinstance(node.keywords[0].value, ast.Constant) and node.keywords[0].value.value == 1)
        if npf in ("all", "any") and len(args) == 1 and (not node.keywords or row_axis) and isinstance(args[0], ast.Compare) \
                and len(args[0].ops) == 1:
            a, b = self.expr(args[0].left, env, mask), self.expr(args[0].comparators[0], env, mask)
            if a.kind != "V" or b.kind != "V":
                raise Untranslatable("numpy.all/any of a non-vector comparison")
            used = set(re.findall(r"[A-Za-z_][A-Za-z0-9_']*", a.code + " " + b.code))
            ab = next(c for c in ["ab", "pq"] + [f"ab{i}" for i in range(1, 50)] if c not in used)
            inner = self.compare(args[0].ops[0], Val("S", f"{ab}.1", atomic=True), Val("S", f"{ab}.2", atomic=True))
            return Val("B", f"((List.zip {a.code} {b.code}).{npf} (fun {ab} => decide {inner.code}) = true)")
        if npf == "sum" and len(args) == 1 and not node.keywords:
            return self.reduce_sum(self.expr(args[0], env, mask))
        if npf == "dot" and len(args) == 2 and not node.keywords:
            return self.reduce_dot(self.expr(args[0], env, mask), self.expr(args[1], env, mask))
        if npf == "outer" and len(args) == 2 and k.row and not node.keywords:
            a, b = self.expr(args[0], env, mask), self.expr(args[1], env, mask)
            if a.kind != "S" or b.kind != "V":
                raise Untranslatable("numpy.outer in a ROW kernel needs (row scalar, vector)")
            return self.binop(ast.Mult(), a, b)
        if npf == "linalg.norm" and len(args) == 1 and k.row and len(node.keywords) == 1 \
                and isinstance(node.keywords[0].value, ast.Constant) and node.keywords[0].value.value == 1:
            a = self.expr(args[0], env, mask)
            return self.unary_fn("sqrt", self.reduce_dot(a, a))
        # methods
        if isinstance(f, ast.Attribute):
            if f.attr in ("copy", "ravel", "flatten") and not args and not node.keywords:
                return self.expr(f.value, env, mask)
            if f.attr == "sum":
                ax = args[0].value if (len(args) == 1 and isinstance(args[0], ast.Constant)) else None
                kd = node.keywords[0] if node.keywords else None
                keep = kd is not None and kd.arg == "keepdims" and isinstance(kd.value, ast.Constant) and kd.value.value is True
                if (not args or ax == (1 if k.row else 0)) and len(args) <= 1 and (kd is None or keep):
                    r = self.reduce_sum(self.expr(f.value, env, mask))
                    return Val("V", f"[{r.code}]") if keep else r
            if f.attr == "dot" and len(args) == 1 and not node.keywords:
                a, b = self.expr(f.value, env, mask), self.expr(args[0], env, mask)
                return self.reduce_dot(a, b)
        # other kernels of the same property
        if fname in k.calls and not node.keywords:
            return self.kernel_call(k.calls[fname], [self.expr(a, env, mask) for a in args])
        raise Untranslatable(f"call `{_txt(node)[:80]}`")

    def kernel_call(self, lean_name, vals):
        c = self.c
        info = c.done.get(lean_name)
        if info is None or not info["ok"]:
            raise Untranslatable(f"callee kernel {lean_name} was not translated")
        kinds = info["param_kinds"]
        if len(vals) != len(kinds):
            raise Untranslatable(f"call of {lean_name} with {len(vals)} arguments, {len(kinds)} expected")
        out, name = [], lean_name
        for v, kd in zip(vals, kinds):
            if v.kind == "INF":
                if kd != "N" or name != lean_name:
                    raise Untranslatable(f"numpy.inf passed to {lean_name} at a parameter of kind {kd}")
                name = lean_name + "_inf"
                continue
            out.append(self.to_kind(v, kd).code)
        if name != lean_name:
            info = c.done.get(name)
            if info is None or not info["ok"]:
                raise Untranslatable(f"callee kernel {name} was not translated")
        if info["partial"]:
            raise Untranslatable(f"callee kernel {name} is partial (Option)")
        c.feat |= info["feat"]
        c.lits |= info["lits"]
        return Val(info["kind"], "(" + " ".join([name] + out) + ")")

    # ================================================================================== statements
    def target_name(self, t):
        d = _dotted(t)
        if d is None:
            raise Untranslatable(f"assignment target `{_txt(t)[:60]}`")
        return d

    def lean_var(self, name):
        return self.k.rename.get(name) or _ident(name)

    def bind(self, name, v, env, lines, ind):
        """emit `let name := v` and update env"""
        if v.kind == "INF":
            env[name] = v
            return
        if v.kind == "L":
            # a local bound to a literal stays a literal (its use decides the type)
            env[name] = v
            return
        if v.kind == "B" and v.const is not None:
            env[name] = v
            return
        lv = self.lean_var(name)
        if v.kind == "B":
            if v.code != f"({lv} = true)":
                lines.append(f"{ind}let {lv} : Bool := decide {v.code}")
            env[name] = Val("B", f"({lv} = true)", atomic=True)
        else:
            if v.code != lv:
                lines.append(f"{ind}let {lv} := {v.code}")
            env[name] = Val(v.kind, lv, atomic=True)

    def terminates(self, stmts):
        if not stmts:
            return False
        s = stmts[-1]
        if isinstance(s, (ast.Return, ast.Raise)):
            return True
        if isinstance(s, ast.If):
            return bool(s.orelse) and self.terminates(s.body) and self.terminates(s.orelse)
        return False

    def assigned(self, stmts):
        out = []
        for s in stmts:
            if isinstance(s, ast.Assign):
                for t in s.targets:
                    if isinstance(t, ast.Tuple):
                        out += [self.target_name(e) for e in t.elts]
                    elif isinstance(t, ast.Subscript):
                        out.append(self.target_name(t.value))
                    else:
                        out.append(self.target_name(t))
            elif isinstance(s, (ast.AugAssign, ast.AnnAssign)):
                t = s.target
                out.append(self.target_name(t.value if isinstance(t, ast.Subscript) else t))
            elif isinstance(s, ast.If):
                out += self.assigned(s.body) + self.assigned(s.orelse)
        seen, res = set(), []
        for n in out:
            if n not in seen:
                seen.add(n)
                res.append(n)
        return res

    def ignorable(self, s):
        k = self.k
        if isinstance(s, ast.Expr) and isinstance(s.value, ast.Constant) and isinstance(s.value.value, str):
            return True
        if isinstance(s, ast.Pass):
            return True
        if isinstance(s, ast.Expr) and isinstance(s.value, ast.Call):
            d = _dotted(s.value.func) or ""
            if any(d.startswith(p) for p in k.skip_calls):
                return True
        if isinstance(s, ast.If) and _txt(s.test) in k.skip_if:
            return True
        if k.skip_assign and isinstance(s, ast.Assign) and all((_dotted(t) in k.skip_assign) for t in s.targets):
            return True
        return False

    def wrap_result(self, v):
        """final value of a block -> Lean code (kind stays in v.kind)"""
        if v.kind == "L":
            v = self.to_kind(v, "S")
        if v.kind == "B":
            cnd = self.as_cond(v)
            code = cnd[1:-len(" = true)")] if (v.atomic and cnd.endswith(" = true)")) else f"decide {cnd}"
        elif v.kind == "INF":
            raise Untranslatable("the kernel returns numpy.inf")
        else:
            code = v.code
        return v.kind, code

    def block(self, stmts, env, ind, final):
        """-> (lines, kind).  `final(env)` gives the value when the statements run out (slice mode)."""
        lines = []
        i = 0
        while i < len(stmts):
            s = stmts[i]
            rest = stmts[i + 1:]
            if self.ignorable(s):
                i += 1
                continue
            if isinstance(s, ast.Return):
                if any(not self.ignorable(r) for r in rest):
                    raise Untranslatable("statements after return")
                if s.value is None:
                    raise Untranslatable("bare return")
                if isinstance(s.value, ast.Tuple):
                    parts = [self.wrap_result(self.expr(e, env)) for e in s.value.elts]
                    kind = "(" + ",".join(p[0] for p in parts) + ")"
                    code = "(" + ", ".join(p[1] for p in parts) + ")"
                else:
                    kind, code = self.wrap_result(self.expr(s.value, env))
                lines.append(f"{ind}{'some (' + code + ')' if self.c.partial else code}")
                return lines, kind
            if isinstance(s, ast.Raise):
                lines.append(f"{ind}none")
                return lines, "RAISE"
            if isinstance(s, ast.Assign):
                if len(s.targets) != 1:
                    raise Untranslatable("chained assignment")
                t = s.targets[0]
                if isinstance(t, ast.Tuple):
                    self.tuple_assign(t, s.value, env, lines, ind)
                elif isinstance(t, ast.Subscript):
                    self.mask_assign(t, s.value, env, lines, ind)
                else:
                    rhs = s.value
                    if self.target_name(t) in self.k.summand_of:
                        if not (isinstance(rhs, ast.Call) and isinstance(rhs.func, ast.Attribute) and rhs.func.attr == "sum"):
                            raise Untranslatable(f"`{self.target_name(t)}` is declared a reduction but is not `(...).sum(...)`")
                        rhs = rhs.func.value
                    self.bind(self.target_name(t), self.expr(rhs, env), env, lines, ind)
                i += 1
                continue
            if isinstance(s, ast.AnnAssign) and s.value is not None:
                self.bind(self.target_name(s.target), self.expr(s.value, env), env, lines, ind)
                i += 1
                continue
            if isinstance(s, ast.AugAssign):
                if isinstance(s.target, ast.Subscript):
                    raise Untranslatable("augmented assignment to a subscript")
                name = self.target_name(s.target)
                if name not in env:
                    raise Untranslatable(f"augmented assignment to unknown name {name}")
                self.bind(name, self.binop(s.op, env[name], self.expr(s.value, env)), env, lines, ind)
                i += 1
                continue
            if isinstance(s, ast.If):
                cnd = self.expr(s.test, env)
                if cnd.kind != "B":
                    raise Untranslatable("non-boolean `if` test")
                if cnd.const is not None:                       # decided statically (numpy.inf, fixed parameters)
                    chosen = s.body if cnd.const else s.orelse
                    stmts = list(chosen) + list(rest)
                    i = 0
                    continue
                tb, te = self.terminates(s.body), self.terminates(s.orelse)
                if tb or te:
                    b1 = list(s.body) + ([] if tb else list(rest))
                    b2 = list(s.orelse) + ([] if te else list(rest))
                    l1, k1 = self.block(b1, dict(env), ind + "  ", final)
                    l2, k2 = self.block(b2, dict(env), ind + "  ", final)
                    kind = self.join_kinds(k1, k2)
                    lines.append(f"{ind}if {cnd.code} then")
                    lines += l1
                    lines.append(f"{ind}else")
                    lines += l2
                    return lines, kind
                # neither branch terminates: both assign names, merged afterwards
                names = self.assigned(list(s.body) + list(s.orelse))
                if not names:
                    raise Untranslatable("`if` without effect on local names")
                # a name assigned in one branch only and not defined before the `if` is local to that branch
                names = [n for n in names if n in env or (n in self.assigned(s.body) and n in self.assigned(s.orelse))]
                if not names:
                    raise Untranslatable("`if` without effect on names that are defined afterwards")

                def branch(body):
                    e2 = dict(env)
                    ls, kd = self.block(list(body), e2, ind + "    ", lambda e: None)
                    if kd is not None:
                        raise Untranslatable("branch both assigns and returns")
                    return ls, e2
                l1, e1 = branch(s.body)
                l2, e2 = branch(s.orelse)
                vals1, vals2 = [e1[n] for n in names], [e2[n] for n in names]
                kinds = []
                for n, a, b in zip(names, vals1, vals2):
                    if a.kind == "L" and b.kind == "L":
                        kinds.append("S")
                    elif a.kind in ("L", "B") and b.kind not in ("L", "B"):
                        kinds.append(b.kind)
                    elif a.kind == "B" and b.kind == "B":
                        kinds.append("B")
                    else:
                        kinds.append(a.kind)
                    if "INF" in (a.kind, b.kind):
                        raise Untranslatable("numpy.inf assigned under a run-time condition")

                def tup(vals):
                    cs = []
                    for v, kd in zip(vals, kinds):
                        if kd == "B":
                            cs.append("decide " + self.as_cond(v))
                        else:
                            cs.append(self.to_kind(v, kd).code)
                    return cs[0] if len(cs) == 1 else "(" + ", ".join(cs) + ")"
                tmp = self.lean_var(names[0]) if len(names) == 1 else "t_" + "_".join(self.lean_var(n) for n in names)
                ann = " : Bool" if (len(names) == 1 and kinds[0] == "B") else ""
                lines.append(f"{ind}let {tmp}{ann} :=")
                lines.append(f"{ind}  if {cnd.code} then")
                lines += l1
                lines.append(f"{ind}    {tup(vals1)}")
                lines.append(f"{ind}  else")
                lines += l2
                lines.append(f"{ind}    {tup(vals2)}")
                if len(names) == 1:
                    env[names[0]] = Val(kinds[0], f"({tmp} = true)" if kinds[0] == "B" else tmp, atomic=True)
                else:
                    nn = len(names)
                    for j, (n, kd) in enumerate(zip(names, kinds)):
                        lv = self.lean_var(n)
                        proj = tmp + ".2" * j + (".1" if j < nn - 1 else "")
                        lines.append(f"{ind}let {lv} := {proj}")
                        env[n] = Val(kd, f"({lv} = true)" if kd == "B" else lv, atomic=True)
                i += 1
                continue
            raise Untranslatable(f"statement `{_txt(s).splitlines()[0][:80]}` ({type(s).__name__})")
        v = final(env)
        if v is None:
            return lines, None
        if isinstance(v, Val) and v.kind == "NONE":
            lines.append(f"{ind}none")
            return lines, "RAISE"
        if isinstance(v, list):
            parts = [self.wrap_result(x) for x in v]
            kind = "(" + ",".join(p[0] for p in parts) + ")"
            code = "(" + ", ".join(p[1] for p in parts) + ")"
        else:
            kind, code = self.wrap_result(v)
        lines.append(f"{ind}{'some (' + code + ')' if self.c.partial else code}")
        return lines, kind

    def join_kinds(self, k1, k2):
        if k1 == "RAISE":
            return k2
        if k2 == "RAISE":
            return k1
        if k1 != k2:
            raise Untranslatable(f"branches return different kinds ({k1} / {k2})")
        return k1

    def tuple_assign(self, t, value, env, lines, ind):
        if isinstance(value, ast.Call) and isinstance(value.func, ast.Name) and value.func.id == "divmod" \
                and len(value.args) == 2 and len(t.elts) == 2:
            a, b = self.expr(value.args[0], env), self.expr(value.args[1], env)
            self.bind(self.target_name(t.elts[0]), self.binop(ast.FloorDiv(), a, b), env, lines, ind)
            self.bind(self.target_name(t.elts[1]), self.binop(ast.Mod(), a, b), env, lines, ind)
            return
        if isinstance(value, ast.Tuple) and len(value.elts) == len(t.elts):
            vals = [self.expr(e, env) for e in value.elts]
            for e, v in zip(t.elts, vals):
                if not v.atomic and v.kind != "L":
                    raise Untranslatable("tuple assignment of compound values")
            for e, v in zip(t.elts, vals):
                self.bind(self.target_name(e), v, env, lines, ind)
            return
        raise Untranslatable(f"tuple assignment `{_txt(t)} = {_txt(value)[:40]}`")

    def mask_assign(self, t, value, env, lines, ind):
        name = self.target_name(t.value)
        if name in self.k.cell_targets:
            self.bind(name, self.expr(value, env), env, lines, ind)
            return
        if name not in env:
            raise Untranslatable(f"masked assignment to unknown name {name}")
        cur = env[name]
        # `x[:] = e` is a plain elementwise assignment
        if isinstance(t.slice, ast.Slice) and t.slice.lower is None and t.slice.upper is None and t.slice.step is None:
            self.bind(name, self.expr(value, env), env, lines, ind)
            return
        m = self.expr(t.slice, env)
        if m.kind != "B":
            raise Untranslatable(f"subscripted assignment `{_txt(t)}` whose index is not a boolean mask")
        if cur.kind not in ("S", "N", "Z"):
            raise Untranslatable(f"masked assignment to a value of kind {cur.kind}")
        if _np_func(value) == "nan":
            if cur.kind != "S":
                raise Untranslatable("NaN assigned to a non-scalar")
            if m.const is not None:
                raise Untranslatable("constant mask")
            lines.append(f"{ind}let {self.lean_var(name)} : Option α := if {m.code} then none else some {cur.code}")
            env[name] = Val("O", self.lean_var(name), atomic=True)
            return
        if _np_func(value) == "inf":
            # a float array that may hold +inf: the model's `GMap.GDist` (fin / inf / nan)
            if cur.kind != "S" or m.const is not None:
                raise Untranslatable("numpy.inf assigned to a non-scalar / under a constant mask")
            self.c.feat.add("mod:PybropsModel.Model.GMap")
            lines.append(f"{ind}let {self.lean_var(name)} : GMap.GDist α := if {m.code} then GMap.GDist.inf "
                         f"else GMap.GDist.fin {cur.code}")
            env[name] = Val("G", self.lean_var(name), atomic=True)
            return
        v = self.to_kind(self.expr(value, env, mask=_txt(t.slice)), cur.kind)
        if m.const is not None:
            self.bind(name, v if m.const else cur, env, lines, ind)
            return
        self.bind(name, Val(cur.kind, f"(if {m.code} then {v.code} else {cur.code})"), env, lines, ind)


# ====================================================================================== source access
def _read(path):
    with open(path, encoding="utf-8", newline=None) as f:       # universal newlines: CRLF -> LF
        return f.read()


def find_function(tree, qualname):
    parts = qualname.split(".")
    body = tree.body
    node = None
    for j, p in enumerate(parts):
        cands = [n for n in body if isinstance(n, (ast.FunctionDef, ast.ClassDef)) and n.name == p]
        if not cands:
            raise Untranslatable(f"{qualname}: `{p}` not found")
        # property getter/setter pairs share a name: take the last plain one unless a getter is wanted
        node = cands[0] if len(cands) == 1 else cands[0]
        body = node.body
    if not isinstance(node, ast.FunctionDef):
        raise Untranslatable(f"{qualname} is not a function")
    return node


def fn_sha(fn):
    body = list(fn.body)
    if body and isinstance(body[0], ast.Expr) and isinstance(body[0].value, ast.Constant) and isinstance(body[0].value.value, str):
        body = body[1:]
    text = "\n".join(ast.unparse(s) for s in body)
    return hashlib.sha1((fn.name + "(" + ast.unparse(fn.args) + ")\n" + text).encode()).hexdigest()[:16]


def _blocks(fn):
    """every statement list of the function (recursively)"""
    out = []

    def walk(stmts):
        out.append(stmts)
        for s in stmts:
            for fld in ("body", "orelse", "finalbody"):
                sub = getattr(s, fld, None)
                if isinstance(sub, list) and sub and isinstance(sub[0], ast.stmt) and not isinstance(s, (ast.FunctionDef, ast.ClassDef)):
                    walk(sub)
            if isinstance(s, ast.Try):
                for h in s.handlers:
                    walk(h.body)
    walk(fn.body)
    return out


def _direct_targets(s):
    out = []
    if isinstance(s, ast.Assign):
        for t in s.targets:
            if isinstance(t, ast.Tuple):
                out += [_dotted(e) for e in t.elts]
            elif isinstance(t, ast.Subscript):
                out.append(_dotted(t.value))
            else:
                out.append(_dotted(t))
    elif isinstance(s, (ast.AugAssign, ast.AnnAssign)):
        t = s.target
        out.append(_dotted(t.value if isinstance(t, ast.Subscript) else t))
    return [o for o in out if o]


def _all_targets(s):
    out = list(_direct_targets(s))
    for fld in ("body", "orelse"):
        for x in getattr(s, fld, []) or []:
            if isinstance(x, ast.stmt):
                out += _all_targets(x)
    return out


def _reads(node):
    return {(_dotted(n) or "") for n in ast.walk(node) if isinstance(n, (ast.Name, ast.Attribute))} - {""}


def select_statements(fn, k, tr):
    """slice mode: -> ([(tag, stmt)], result names); tag = "stmt" (translated) | "opaque" (re-binds a parameter)"""
    res_names = [k.result] if isinstance(k.result, str) else list(k.result)
    anchor = k.block_of or res_names[0]
    if k.block_if:
        ifs = [n for n in ast.walk(fn) if isinstance(n, ast.If) and _txt(n.test) == k.block_if]
        if len(ifs) != 1:
            raise Untranslatable(f"{len(ifs)} `if {k.block_if}` statements in {k.qualname} (exactly one expected)")
        blockstmts = ifs[0].body
    else:
        cands = [b for b in _blocks(fn) if any(anchor in _direct_targets(s) for s in b)]
        if not cands:
            raise Untranslatable(f"slice anchor `{anchor}` is not assigned in {k.qualname}")
        outer = cands[0]                         # _blocks lists a block before the blocks nested in it
        inside = {id(n) for st in outer for n in ast.walk(st)}
        for other in cands[1:]:
            if not all(id(st) in inside for st in other):
                raise Untranslatable(f"slice anchor `{anchor}` is assigned in several unrelated blocks of {k.qualname}")
        blockstmts = outer
    anchor = res_names[0]
    targets = set(k.targets) | set(res_names)
    params = {p for p, _ in k.params}
    sel = []
    started = not k.start
    for s in blockstmts:
        if tr.ignorable(s):
            continue
        names = set(_all_targets(s))
        if not started:
            if k.start in names:
                started = True
            else:
                continue
        if k.stop and k.stop in names:
            break
        if k.stmt_types and type(s).__name__ not in k.stmt_types:
            if names & (set(k.opaque_targets) | params):
                sel.append(("opaque", s))
            continue
        if names & targets:
            if names & set(k.opaque_targets):
                raise Untranslatable(f"statement assigns both kernel targets and opaque names: `{_txt(s)[:60]}`")
            if isinstance(s, (ast.For, ast.While, ast.With, ast.Try)):
                raise Untranslatable(f"a kernel target is assigned inside a `{type(s).__name__}` statement")
            sel.append(("stmt", s))
            if k.result_first and anchor in names:
                break
        elif names & (set(k.opaque_targets) | params):
            # an out-of-scope statement re-binds a declared parameter: the parameter stands for the NEW value
            sel.append(("opaque", s))
    if not started:
        raise Untranslatable(f"slice start `{k.start}` is not assigned in the block")
    # a parameter stands for ONE value: it must not be read both before and after an out-of-scope statement re-binds it
    read, closed = set(), set()
    for tag, s in sel:
        if tag == "stmt":
            r = _reads(s)
            if r & closed:
                raise Untranslatable(f"parameter(s) {sorted(r & closed)} are read before and after an out-of-scope "
                                     f"statement of the slice re-binds them")
            read |= r
        else:
            closed |= (set(_all_targets(s)) & params) & read
    return sel, res_names


# ====================================================================================== one kernel
def translate_kernel(k, repo_root, done):
    """-> dict(ok, text (Lean def or a comment), msg, sha, ...)"""
    info = {"ok": False, "lean_name": k.lean_name, "feat": set(), "lits": set(), "partial": False, "kind": None,
            "param_kinds": [kd for _, kd in k.params if _ not in k.fix], "sha": "?", "header": [], "imports": set()}
    ctx = Ctx(k, done)
    tr = Tr(ctx)
    try:
        src = _read(os.path.join(repo_root, k.path))
        tree = ast.parse(src)
        fn = find_function(tree, k.qualname)
        info["sha"] = fn_sha(fn)
        env = {}
        lean_params = []
        used_idents = set()
        for name, kind in k.params:
            if name in k.fix:
                fx = k.fix[name]
                env[name] = Val("INF") if fx == "inf" else Val("L", const=Fraction(fx))
                continue
            lv = tr.lean_var(name)
            if lv in used_idents:
                raise Untranslatable(f"two parameters map to the Lean identifier {lv}")
            used_idents.add(lv)
            env[name] = Val(kind, f"({lv} = true)" if kind == "B" else lv, atomic=True)
            lean_params.append((lv, kind))
        for t, (nm, kind) in k.opaque.items():
            if nm in used_idents:
                raise Untranslatable(f"opaque parameter {nm} clashes with a parameter")
        if k.result is None:
            stmts = list(fn.body)
            declared = {a.arg for a in fn.args.args + fn.args.kwonlyargs}
            for name, _ in k.params:
                if "." not in name and name not in declared:
                    raise Untranslatable(f"parameter `{name}` is not a parameter of {k.qualname}")
            live = [x for x in stmts if not tr.ignorable(x)]
            ctx.partial = any(isinstance(n, ast.Raise) for x in stmts for n in ast.walk(x)) or not tr.terminates(live)

            def final(e):
                return Val("NONE")          # Python returns None when control reaches the end
            lines, kind = tr.block(stmts, env, "  ", final)
        else:
            sel, res_names = select_statements(fn, k, tr)
            stmts = [s for tag, s in sel if tag == "stmt"]
            opq_txt = [_txt(s).splitlines()[0][:100] for tag, s in sel if tag == "opaque"]
            info["header"] += [f"out of scope (parameter): {t}" for t in opq_txt]
            ctx.partial = any(isinstance(n, ast.Raise) for s in stmts for n in ast.walk(s))

            def final(e):
                miss = [n for n in res_names if n not in e]
                if miss:
                    raise Untranslatable(f"result name(s) {miss} not assigned by the selected statements")
                vals = [e[n] for n in res_names]
                return vals[0] if isinstance(k.result, str) else vals
            lines, kind = tr.block(stmts, env, "  ", final)
        # parameters from opaque expressions actually used (in first-use order), declared ones first
        for t, (nm, kd) in k.opaque.items():
            if t not in ctx.opaque_used or any(nm == x for x, _ in lean_params):
                continue
            lean_params.append((nm, kd))
            info["header"].append(f"out of scope (parameter {nm}): `{t}`")
        unused = [t for t in k.opaque if t not in ctx.opaque_used]
        if unused:
            raise Untranslatable(f"declared opaque expression(s) not found in the source: {unused}")
        if kind == "RAISE" or kind is None:
            raise Untranslatable("the kernel has no value")
        info.update(ok=True, kind=kind, partial=ctx.partial, feat=set(ctx.feat), lits=set(ctx.lits),
                    param_kinds=[kd for _, kd in lean_params], need_pown=ctx.need_pown)
        info["text"] = render_def(k, lean_params, kind, ctx, lines)
        info["msg"] = ""
    except (Untranslatable, SyntaxError, OSError, RecursionError) as e:
        info["msg"] = f"{k.lean_name} ({k.path}:{k.qualname}): {type(e).__name__}: {e}"
        info["text"] = "-- NOT TRANSLATED: " + info["msg"].replace("\n", " ")[:400]
    for f in info["feat"]:
        if f.startswith("fn:"):
            nm = f[3:]
            info["imports"].add(SQRT_MODULE[k.sqrt_class] if nm == "sqrt" else FN_CLASS[nm][1])
        if f.startswith("mod:"):
            info["imports"].add(f[4:])
    return info


def type_of(kind):
    if kind.startswith("("):
        return "(" + " × ".join(TYPE_OF[x] for x in kind[1:-1].split(",")) + ")"
    return TYPE_OF[kind]


BINDER = {"Add": "[Add α]", "Sub": "[Sub α]", "Mul": "[Mul α]", "Div": "[Div α]", "Neg": "[Neg α]",
          "LT": "[LT α] [DecidableLT α]", "LE": "[LE α] [DecidableLE α]", "DecEq": "[DecidableEq α]"}


def binders(feat, lits, k):
    out = ["{α : Type}"]
    for f in ("Add", "Sub", "Mul", "Div", "Neg"):
        if f in feat:
            out.append(BINDER[f])
    for n in sorted(lits):
        out.append(f"[OfNat α {n}]")
    for f in ("LT", "LE", "DecEq"):
        if f in feat:
            out.append(BINDER[f])
    for f in sorted(feat):
        if f.startswith("fn:"):
            nm = f[3:]
            out.append(f"[{k.sqrt_class if nm == 'sqrt' else FN_CLASS[nm][0]} α]")
    return " ".join(out)


def render_def(k, lean_params, kind, ctx, lines):
    ps = " ".join(f"({n} : {TYPE_OF[kd]})" for n, kd in lean_params)
    ty = type_of(kind)
    if ctx.partial:
        ty = f"Option {ty if ' ' not in ty else '(' + ty + ')'}"
    uses_alpha = "α" in ty or any(TYPE_OF[kd].find("α") >= 0 for _, kd in lean_params)
    b = binders(ctx.feat, ctx.lits, k) if uses_alpha else ""
    head = f"def {k.lean_name} {b} {ps} : {ty} :=".replace("  ", " ")
    return "\n".join([head] + lines)


POWN = """/-- `x ** k` for a natural exponent held in a variable -/
def powN {α : Type} [Mul α] [OfNat α 1] (x : α) : Nat → α
  | 0 => 1
  | n + 1 => powN x n * x
"""


# ====================================================================================== one property
def render_file(pid, kernels, infos):
    imports = {"PybropsModel.Np"}
    for inf in infos:
        imports |= inf["imports"]
    lines = ["/-",
             f"REGENERATED on every run by harness/py2lean.py (regen) from the pybrops sources -- do not edit.",
             f"Property {pid}: arithmetic kernels translated from Python (module `ast`) to Lean, proved equal to the",
             f"model definitions in PybropsModel/Lemmas/PyKEq_{pid}.lean.",
             "Reading: float literals are the decimal rationals written in the source; a numpy ufunc expression on",
             "arrays is translated as the scalar function of ONE element (elementwise application is implicit);",
             "shape-only operations (`x[:, None]`, `.copy()`, `float()`) are the identity; `x[m] = e` with a boolean",
             "mask is `if m then e else x`; a raised exception is `none`.",
             ""]
    for k, inf in zip(kernels, infos):
        lines.append(f"kernel {k.lean_name}: {k.path} :: {k.qualname}  sha={inf['sha']}  "
                     f"{'ok' if inf['ok'] else 'FAILED'}")
        if k.result is not None:
            lines.append(f"    slice: targets {sorted(set(k.targets) | set([k.result] if isinstance(k.result, str) else k.result))}"
                         f" -> {k.result}")
        if k.fix:
            lines.append(f"    partial evaluation: {k.fix}")
        for h in inf["header"]:
            lines.append("    " + h.replace("-/", "- /"))
        if not inf["ok"]:
            lines.append("    " + inf["msg"].replace("-/", "- /")[:300])
    lines += ["-/"] + [f"import {m}" for m in sorted(imports)] + ["", f"namespace PyK.{pid}", ""]
    if any(inf.get("need_pown") for inf in infos):
        lines += [POWN]
    for k, inf in zip(kernels, infos):
        if k.model or k.notes:
            lines.append(f"/-- {k.path} :: {k.qualname}" + (f"; model counterpart: {k.model}" if k.model else "")
                         + (f".  {k.notes}" if k.notes else "") + " -/")
        lines.append(inf["text"])
        lines.append("")
    lines += [f"end PyK.{pid}", ""]
    return "\n".join(lines)


def gen_path(pid):
    return os.path.join(GEN_DIR, f"PyK_{pid}.lean")


def eq_module(pid):
    return f"PybropsModel.Lemmas.PyKEq_{pid}"


def translate_pid(pid, repo_root):
    ks = KERNELS.get(pid, [])
    done, infos = {}, []
    for k in ks:
        inf = translate_kernel(k, repo_root, done)
        done[k.lean_name] = inf
        infos.append(inf)
    return ks, infos


def regen(pid, repo_root=None):
    """-> (ok, msg, modules): rewrite Generated/PyK_<pid>.lean (only when changed) and name the proof modules to
    build and audit.  A kernel that cannot be translated is left out of the file, so the equality module fails
    to build, and ok=False carries the reason."""
    repo_root = repo_root or DEFAULT_REPO
    ks, infos = translate_pid(pid, repo_root)
    if not ks:
        return True, "", []
    body = render_file(pid, ks, infos)
    path = gen_path(pid)
    os.makedirs(GEN_DIR, exist_ok=True)
    old = open(path, encoding="utf-8").read() if os.path.exists(path) else None
    if old != body:
        if bridge is not None:
            with bridge.Lock():
                with open(path, "w", encoding="utf-8") as f:
                    f.write(body)
        else:
            with open(path, "w", encoding="utf-8") as f:
                f.write(body)
    bad = [inf["msg"] for inf in infos if not inf["ok"]]
    return (not bad), "; ".join(bad)[:600], [eq_module(pid)]


# ====================================================================================== registry
def K(path, qualname, lean_name, params, **kw):
    return Kernel(path=path, qualname=qualname, lean_name=lean_name, params=list(params), **kw)


KERNELS = {}


def _register():
    from . import py2lean_kernels
    KERNELS.update(py2lean_kernels.build(K))


try:
    _register()
except ImportError:                                     # pragma: no cover
    pass


def main(argv):
    repo = DEFAULT_REPO
    if "--repo" in argv:
        repo = argv[argv.index("--repo") + 1]
    pids = sorted(KERNELS)
    sel = [a for a in argv if a in KERNELS]
    if sel:
        pids = sel
    if "--check" in argv:
        bad = 0
        for pid in pids:
            ks, infos = translate_pid(pid, repo)
            for k, inf in zip(ks, infos):
                print(f"{pid} {k.lean_name:28s} {'ok    ' if inf['ok'] else 'FAILED'} sha={inf['sha']} "
                      f"{k.path}::{k.qualname}" + ("" if inf["ok"] else "  -- " + inf["msg"]))
                bad += not inf["ok"]
        return 1 if bad else 0
    rc = 0
    for pid in pids:
        ok, msg, mods = regen(pid, repo)
        print(f"{pid}: {'ok' if ok else 'FAILED ' + msg}  -> {os.path.relpath(gen_path(pid), LEAN)}  build: {' '.join(mods)}")
        rc |= (not ok)
    return rc


if __name__ == "__main__":
    sys.exit(main(sys.argv[1:]))
