"""Registry of the arithmetic kernels translated by harness/py2lean.py (one list per property).

Each entry: source file (relative to the pybrops root), qualified name, Lean name (in namespace `PyK.<pid>`),
parameters with kinds (S scalar, B bool, N natural, Z integer, V vector), and -- for a slice of a larger
function -- the names whose assignments are translated (`targets`), the result name, and everything that is
out of scope (`opaque`, `opaque_targets`, `skip_if`, `skip_calls`).
"""

DTYPE_IF = ("dtype is not None",)
GM = "pybrops/popgen/gmap/"
VU = "pybrops/model/vmat/util.py"
ALG = "pybrops/model/gmod/DenseAdditiveLinearGenomicModel.py"
GMAT = "pybrops/popgen/gmat/DenseGenotypeMatrix.py"
PGMAT = "pybrops/popgen/gmat/DensePhasedGenotypeMatrix.py"


def build(K):
    R = {}

    # ------------------------------------------------------------------------------------------ C11
    R["C11"] = [
        K(GM + "HaldaneMapFunction.py", "HaldaneMapFunction.mapfn", "haldane_mapfn", [("d", "S")], model="GMap.haldane"),
        K(GM + "HaldaneMapFunction.py", "HaldaneMapFunction.invmapfn", "haldane_invmapfn", [("r", "S")], model="GMap.invHaldane",
          pre="r < 0.5"),
        K(GM + "KosambiMapFunction.py", "KosambiMapFunction.mapfn", "kosambi_mapfn", [("d", "S")], model="GMap.kosambi"),
        K(GM + "KosambiMapFunction.py", "KosambiMapFunction.invmapfn", "kosambi_invmapfn", [("r", "S")], model="GMap.invKosambi",
          pre="-0.5 < r < 0.5"),
        K(GM + "StandardGeneticMap.py", "StandardGeneticMap.gdist2g", "gdist2g_cell",
          [("gi", "S"), ("gj", "S"), ("mi", "Z"), ("mj", "Z")], result="out", model="GMap.pairDist (on non-NaN positions)"),
        K(GM + "ExtendedGeneticMap.py", "ExtendedGeneticMap.gdist2g", "gdist2g_cell_ext",
          [("gi", "S"), ("gj", "S"), ("mi", "Z"), ("mj", "Z")], result="out", model="GMap.pairDist (on non-NaN positions)"),
    ]

    # ------------------------------------------------------------------------------------------ C12
    R["C12"] = [
        K(VU, "rprob_filial", "rprob_filial", [("r", "S"), ("k", "N")], model="Variance.rprobFilial r (some k)"),
        K(VU, "rprob_filial", "rprob_filial_inf", [("r", "S"), ("k", "N")], fix={"k": "inf"},
          model="Variance.rprobFilial r none", notes="k = numpy.inf (partial evaluation)"),
        K(VU, "cov_D1s", "cov_D1s", [("r", "S"), ("nself", "N")], calls={"rprob_filial": "rprob_filial"},
          model="Variance.covD1s r (some nself)"),
        K(VU, "cov_D1s", "cov_D1s_inf", [("r", "S"), ("nself", "N")], fix={"nself": "inf"},
          calls={"rprob_filial": "rprob_filial"}, model="Variance.covD1s r none"),
        K(VU, "cov_D2s", "cov_D2s", [("r", "S"), ("nself", "N")], calls={"rprob_filial": "rprob_filial"},
          model="Variance.covD2s r (some nself)"),
        K(VU, "cov_D2s", "cov_D2s_inf", [("r", "S"), ("nself", "N")], fix={"nself": "inf"},
          calls={"rprob_filial": "rprob_filial"}, model="Variance.covD2s r none"),
        K(VU, "cov_D1st", "cov_D1st", [("r", "S"), ("nself", "N"), ("t", "N")], calls={"rprob_filial": "rprob_filial"},
          model="Variance.covD1st r (some nself) t"),
        K(VU, "cov_D2st", "cov_D2st", [("r", "S"), ("nself", "N"), ("t", "N")], calls={"rprob_filial": "rprob_filial"},
          model="Variance.covD2st r (some nself) t"),
    ]
    # three-way variance: the combination of the three quadratic forms, the final quarter, the chunk step
    V3 = "pybrops/model/vmat/DenseThreeWayDHAdditiveGeneticVarianceMatrix.py"
    V3Q = "DenseThreeWayDHAdditiveGeneticVarianceMatrix.from_algmod"
    V2 = "pybrops/model/vmat/DenseTwoWayDHAdditiveGeneticVarianceMatrix.py"
    V2G = "pybrops/model/vmat/DenseTwoWayDHAdditiveGenicVarianceMatrix.py"
    R["C12"] += [
        K(V2, "DenseTwoWayDHAdditiveGeneticVarianceMatrix.from_algmod", "chunk_step", [("lsp", "N"), ("lst", "N"), ("mem", "N")],
          result="step", opaque={"mem is None": ("mem_none", "B")},
          model="mem.getD (c.2 - c.1) in Variance.accum", notes="natural subtraction: lst <= lsp for group bounds", pre="lst <= lsp"),
        K(V3, V3Q, "threeway_part", [("varA_part21", "S"), ("varA_part31", "S"), ("varA_part23", "S")],
          result="varA_part", model="summand of Variance.Setup.threeWay (2(q21+q31)+q23)"),
        K(V3, V3Q, "threeway_quarter", [("varA_mat", "S")], result="varA_mat", stmt_types=("AugAssign",),
          model="the factor 1/4 of Variance.Setup.threeWay"),
        K(V2G, "DenseTwoWayDHAdditiveGenicVarianceMatrix.from_algmod", "genic_varcoef", [("ploidy", "S"), ("u", "S")],
          result="varcoef", model="(ploidy u)^2"),
        K(V2G, "DenseTwoWayDHAdditiveGenicVarianceMatrix.from_algmod", "genic_term", [("varcoef", "S"), ("p", "S")],
          result="v", summand_of=("v",), model="summand of the genic variance (ploidy u)^2 p (1-p)"),
    ]

    # ------------------------------------------------------------------------------------------ C09
    def stat(path, cls, extra=()):
        return [
            K(path, cls + ".afixed", cls_l(cls) + "afixed", [("afreq", "S")], result="out",
              skip_if=DTYPE_IF, model="Genotype.afixedOf"),
            K(path, cls + ".maf", cls_l(cls) + "maf", [], result="out", targets=("mask",),
              opaque={"self.afreq(dtype)": ("afreq", "S")}, model="Genotype.mafOf"),
        ]

    def cls_l(cls):
        return "p" if "Phased" in cls else ""
    R["C09"] = [
        K(GMAT, "DenseGenotypeMatrix.tafreq", "tafreq", [("self._mat", "S"), ("self.ploidy", "S")], result="out",
          skip_if=DTYPE_IF, rename={"self._mat": "g"}, model="Genotype.tafreqAt"),
        K(GMAT, "DenseGenotypeMatrix.afreq", "afreq", [("self.ploidy", "S"), ("self.ntaxa", "S")], result="out",
          targets=("denom",), opaque={"self._mat.sum(self.taxa_axis)": ("acount", "S")}, skip_if=DTYPE_IF,
          model="Genotype.afreqAt"),
        K(GMAT, "DenseGenotypeMatrix.apoly", "apoly", [("afreq", "S")], result="out",
          skip_if=DTYPE_IF, model="Genotype.apolyOf"),
        K(GMAT, "DenseGenotypeMatrix.meh", "meh", [("self.ploidy", "S"), ("self.nvrnt", "S")], result="out",
          targets=("p", "rnphase"), opaque={"self.afreq()": ("afreq", "V")}, skip_if=DTYPE_IF, model="Genotype.mehOf"),
        K(GMAT, "DenseGenotypeMatrix.gtfreq", "gtfreq", [("self.ntaxa", "S")], result="out", targets=("recip",),
          opaque={"self.gtcount()": ("gtcount", "S")}, skip_if=DTYPE_IF, model="Genotype.gtfreqAt"),
    ] + stat(GMAT, "DenseGenotypeMatrix") + [
        K(PGMAT, "DensePhasedGenotypeMatrix.tafreq", "ptafreq", [("self.ploidy", "S")], result="out",
          opaque={"self._mat.sum(self.phase_axis)": ("dosage", "S")}, skip_if=DTYPE_IF, model="Genotype.tafreqAt (on psum)"),
        K(PGMAT, "DensePhasedGenotypeMatrix.afreq", "pafreq", [("self.ploidy", "S"), ("self.ntaxa", "S")], result="out",
          targets=("denom",), opaque={"self._mat.sum((self.phase_axis, self.taxa_axis))": ("acount", "S")},
          skip_if=DTYPE_IF, model="Genotype.pafreqAt"),
        K(PGMAT, "DensePhasedGenotypeMatrix.maf", "pmaf", [], result="out", targets=("mask",),
          opaque={"self.afreq(dtype)": ("afreq", "S")}, model="Genotype.mafOf"),
        K(PGMAT, "DensePhasedGenotypeMatrix.meh", "pmeh", [("self.ploidy", "S"), ("self.nvrnt", "S")], result="out",
          targets=("p",), opaque={"self.afreq()": ("afreq", "V")}, skip_if=DTYPE_IF, model="Genotype.mehOf"),
    ]

    # ------------------------------------------------------------------------------------------ C10
    ALGC = "DenseAdditiveLinearGenomicModel."
    R["C10"] = [
        K(ALG, ALGC + "usl_numpy", "usl_term", [("ploidy", "S"), ("self.u_a", "S"), ("p", "S")], result="out",
          targets=("p", "uslgeno"), summand_of=("out",), result_first=True, model="SelLimit.uslTerm"),
        K(ALG, ALGC + "lsl_numpy", "lsl_term", [("ploidy", "S"), ("self.u_a", "S"), ("p", "S")], result="out",
          targets=("p", "lslgeno"), summand_of=("out",), result_first=True, model="SelLimit.lslTerm"),
        K(ALG, ALGC + "usl_numpy", "usl_geno", [("self.u_a", "S"), ("p", "S")], result="uslgeno", targets=("p",),
          model="SelLimit.uslGeno"),
        K(ALG, ALGC + "lsl_numpy", "lsl_geno", [("self.u_a", "S"), ("p", "S")], result="lslgeno", targets=("p",),
          model="SelLimit.lslGeno"),
    ]

    # ------------------------------------------------------------------------------------------ C04
    R["C04"] = [
        K(ALG, ALGC + "bulmer_numpy", "bulmer_ratio", [("sigma_A", "S"), ("sigma_a", "S")], result="out",
          targets=("mask", "denom"), model="GenomicModel bulmer ratio (none = NaN)"),
        K(ALG, ALGC + "var_a_numpy", "var_a", [("ploidy", "S"), ("self.u_a", "V"), ("p", "V")], result="out", targets=("p",),
          model="GenomicModel var_a"),
        K(ALG, ALGC + "facount", "facount", [("self.u_a", "S"), ("acount", "Z"), ("maxfav", "Z")], result="out",
          targets=("mask",), model="GMod.faCell"),
        K(ALG, ALGC + "fafreq", "fafreq", [("gmat.ploidy", "S"), ("gmat.ntaxa", "S")], result="out",
          opaque={"self.facount(gmat)": ("facount", "S")}, skip_if=("out.dtype != dtype", "dtype is None"),
          skip_calls=("check_",), rename={"gmat.ploidy": "ploidy", "gmat.ntaxa": "ntaxa"}, model="GenomicModel fafreq cell"),
    ]

    ADG = "pybrops/model/gmod/DenseAdditiveDominanceLinearGenomicModel.py"
    R["C04"] += [
        K(ADG, "DenseAdditiveDominanceLinearGenomicModel.gegv", "dom_design_gm", [("A", "Z"), ("gtobj.ploidy", "Z")],
          result="D", block_if="isinstance(gtobj, GenotypeMatrix)", rename={"A": "a", "gtobj.ploidy": "ploidy"},
          model="cell of GMod.hetGM: (A != 0) & (A != ploidy)"),
        K(ADG, "DenseAdditiveDominanceLinearGenomicModel.gegv", "dom_design_raw", [("gtobj", "Z")],
          result="D", block_if="isinstance(gtobj, numpy.ndarray)", rename={"gtobj": "a"},
          model="cell of GMod.hetRaw: gtobj == 1"),
    ]

    # ------------------------------------------------------------------------------------------ C13
    CM = "pybrops/popgen/cmat/"
    KIN = {"format == 'kinship'": ("kinship", "B")}
    R["C13"] = [
        K(CM + "DenseCoancestryMatrix.py", "DenseCoancestryMatrix.mat_asformat", "mat_asformat", [("self._mat", "S")],
          opaque={"format == 'coancestry'": ("coancestry", "B"), **KIN}, skip_calls=("check_",), skip_assign=("format",),
          rename={"self._mat": "g"}, model="Coancestry kinship = half * coancestry"),
        K(CM + "DenseCoancestryMatrix.py", "DenseCoancestryMatrix.kinship", "kinship_cell", [],
          opaque={"self._mat[args]": ("g", "S")}, model="Coancestry kinship cell"),
        K(CM + "DenseCoancestryMatrix.py", "DenseCoancestryMatrix.max_inbreeding", "max_inbreeding", [], result="out",
          opaque={"self.mat.diagonal().max()": ("dmax", "S"), **KIN}, model="Coancestry maxInbreeding"),
        K(CM + "DenseCoancestryMatrix.py", "DenseCoancestryMatrix.min_inbreeding", "min_inbreeding", [], result="out",
          opaque={"Ginv.sum()": ("ginvsum", "S"), **KIN}, model="Coancestry minInbreeding = 1 / sum(inv G)"),
        K(CM + "DenseMolecularCoancestryMatrix.py", "DenseMolecularCoancestryMatrix.from_gmat", "molecular_cell_diploid",
          [("rnvrnt", "S")], result="mat", block_if="ploidy == 2", opaque={"X @ X.T": ("xx", "S")},
          model="Coancestry molecular diploid cell 1 + xx/m"),
        K(CM + "DenseMolecularCoancestryMatrix.py", "DenseMolecularCoancestryMatrix.from_gmat", "molecular_cell_haploid",
          [("rnvrnt", "S")], result="mat", block_if="ploidy == 1", opaque={"X @ X.T + Y @ Y.T": ("xxyy", "S")},
          model="Coancestry molecular haploid cell (2/m)(xx+yy)"),
        K(CM + "DenseMolecularCoancestryMatrix.py", "DenseMolecularCoancestryMatrix.from_gmat", "molecular_rnvrnt",
          [("gmat.nvrnt", "S")], result="rnvrnt", rename={"gmat.nvrnt": "nvrnt"}, model="1/m"),
        K(CM + "DenseMolecularCoancestryMatrix.py", "DenseMolecularCoancestryMatrix.from_gmat", "molecular_center",
          [("X", "S")], result="X", block_if="ploidy == 2", model="X - 1 ({0,1,2} -> {-1,0,1})"),
        K(CM + "DenseVanRadenCoancestryMatrix.py", "DenseVanRadenCoancestryMatrix.from_gmat", "vanraden_center",
          [("p_anc", "S"), ("gmat.ploidy", "S"), ("X", "S")], result="Z", targets=("M",), rename={"gmat.ploidy": "ploidy"},
          model="Z = X - ploidy p"),
        K(CM + "DenseVanRadenCoancestryMatrix.py", "DenseVanRadenCoancestryMatrix.from_gmat", "vanraden_scale",
          [("p_anc", "V"), ("gmat.ploidy", "S")], result="G_scale", rename={"gmat.ploidy": "ploidy"},
          model="1 / (ploidy * sum p (1-p))"),
        K(CM + "DenseVanRadenCoancestryMatrix.py", "DenseVanRadenCoancestryMatrix.from_gmat", "vanraden_cell",
          [("G_scale", "S")], result="G", opaque={"Z.dot(Z.T)": ("zz", "S")}, model="G = G_scale * zz"),
        K(CM + "DenseYangCoancestryMatrix.py", "DenseYangCoancestryMatrix.from_gmat", "yang_z",
          [("p_anc", "S"), ("gmat.ploidy", "S"), ("X", "S")], result="Z", targets=("M", "Z_scale"),
          rename={"gmat.ploidy": "ploidy"}, pre="0 < p_anc < 1 and ploidy > 0", model="(X - ploidy p) / sqrt(ploidy p (1-p))"),
        K(CM + "DenseYangCoancestryMatrix.py", "DenseYangCoancestryMatrix.from_gmat", "yang_cell",
          [("gmat.nvrnt", "S")], result="G", targets=("G_scale",), opaque={"Z.dot(Z.T)": ("zz", "S")},
          rename={"gmat.nvrnt": "nvrnt"}, model="G = zz / m"),
    ]

    # ------------------------------------------------------------------------------------------ C14
    PT = "pybrops/breed/prot/pt/G_E_Phenotyping.py"
    R["C14"] = [
        K(PT, "G_E_Phenotyping.set_h2", "var_err_h2", [("h2", "S"), ("var_A", "S")], result="self.var_err",
          skip_calls=("check_",), model="Pheno varErrOfH2"),
        K(PT, "G_E_Phenotyping.set_H2", "var_err_H2", [("H2", "S"), ("var_G", "S")], result="self.var_err",
          skip_calls=("check_",), rename={"H2": "h2"}, model="Pheno varErrOfH2"),
    ]

    # ------------------------------------------------------------------------------------------ C15
    SM = "pybrops/core/mat/DenseScaledMatrix.py"
    BV = "pybrops/popgen/bvmat/DenseBreedingValueMatrix.py"
    LS = [("self.location", "S"), ("self.scale", "S")]
    LS_ = [("self._location", "S"), ("self._scale", "S")]
    R["C15"] = [
        K(SM, "DenseScaledMatrix.transform", "transform", [("mat", "S"), ("copy", "B")] + LS, skip_calls=("check_",),
          model="BVMat transform (x - loc) * (1/scale)"),
        K(SM, "DenseScaledMatrix.untransform", "untransform", [("mat", "S"), ("copy", "B")] + LS, skip_calls=("check_",),
          model="BVMat untransform x*scale + loc"),
        K(SM, "DenseScaledMatrix.unscale", "sm_unscale", [("self.mat", "S"), ("inplace", "B")] + LS, result="out",
          skip_calls=("check_",), model="BVMat unscale cell"),
        K(SM, "DenseScaledMatrix.rescale", "sm_rescale", [("self.mat", "S"), ("inplace", "B")] + LS,
          result=("out", "new_location", "new_scale"), skip_calls=("check_",),
          opaque={"numpy.nanmean(out, axis=axes)": ("nmean", "S"), "numpy.nanstd(out, axis=axes)": ("nstd", "S"),
                  "out.size > 0": ("nonempty", "B"),
                  "numpy.fmin.reduce(out.reshape(-1, out.shape[-1]), axis=0)": ("lo", "S"),
                  "numpy.fmax.reduce(out.reshape(-1, out.shape[-1]), axis=0)": ("hi", "S")},
          targets=("lo", "hi", "const"), rename={"lo": "lo_", "hi": "hi_"},
          model="BVMat rescale cell: zero-std guard and constant-trait guard (fitLoc / fitScale)"),
        K(BV, "DenseBreedingValueMatrix.unscale", "bv_unscale", [("self._mat", "S")] + LS_, rename={"self._mat": "x"},
          model="BVMat unscale cell"),
        K(BV, "DenseBreedingValueMatrix.from_numpy", "bv_from_numpy", [("mat", "S")], result=("mat", "location", "scale"),
          skip_calls=("check_",),
          opaque={"numpy.nanmean(mat, axis=0)": ("nmean", "S"), "numpy.nanstd(mat, axis=0)": ("nstd", "S"),
                  "mat.shape[0] > 0": ("nonempty", "B"),
                  "numpy.fmin.reduce(mat, axis=0)": ("lo", "S"), "numpy.fmax.reduce(mat, axis=0)": ("hi", "S")},
          targets=("lo", "hi", "const"), rename={"lo": "lo_", "hi": "hi_"},
          model="BVMat fromNumpy cell: (x - loc') * (1/scale'), loc'/scale' = BVMat.fitLoc / fitScale"),
        K(BV, "DenseBreedingValueMatrix.tmax", "bv_tmax", [("unscale", "B")] + LS_, result="out",
          opaque={"self._mat.max(axis=self.taxa_axis)": ("m", "S")}, model="BVMat tmax"),
        K(BV, "DenseBreedingValueMatrix.tmin", "bv_tmin", [("unscale", "B")] + LS_, result="out",
          opaque={"self._mat.min(axis=self.taxa_axis)": ("m", "S")}, model="BVMat tmin"),
        K(BV, "DenseBreedingValueMatrix.trange", "bv_trange", [("unscale", "B"), ("self._scale", "S")], result="out",
          opaque={"numpy.ptp(self._mat, axis=self.taxa_axis)": ("m", "S")}, model="BVMat trange"),
        K(BV, "DenseBreedingValueMatrix.tmean", "bv_tmean", [("unscale", "B"), ("self._location", "S")], result="out",
          opaque={"self._mat.mean(axis=self.taxa_axis)": ("m", "S")}, model="BVMat tmean"),
        K(BV, "DenseBreedingValueMatrix.tstd", "bv_tstd", [("unscale", "B"), ("self._scale", "S")],
          opaque={"numpy.nanstd(self._mat, axis=self.taxa_axis)": ("nstd", "S"),
                  "self._mat.std(axis=self.taxa_axis)": ("std", "S")}, model="BVMat tstd"),
        K(BV, "DenseBreedingValueMatrix.tvar", "bv_tvar", [("unscale", "B"), ("self._scale", "S")],
          opaque={"numpy.nanvar(self._mat, axis=self.taxa_axis)": ("nvar", "S"),
                  "self._mat.var(axis=self.taxa_axis)": ("var", "S")}, model="BVMat tvar"),
    ]

    # ------------------------------------------------------------------------------------------ C17
    SP = "pybrops/core/random/sampling.py"
    R["C17"] = [
        K(SP, "stochastic_universal_sampling", "sus_pointer", [("tot_fit", "S"), ("k", "S"), ("offset", "S")], result="ptrs",
          targets=("ptr_dist",), opaque={"numpy.arange(k)": ("i", "S")}, pre="k != 0", model="Sampling pointer offset + i * tot/k"),
        K(SP, "stochastic_universal_sampling", "sus_lo", [("tot_fit", "S"), ("k", "S"), ("offset", "S")], result="lo",
          targets=("ptr_dist",), pre="k != 0", model="Sampling lo = offset < ptr_dist/2"),
        K(SP, "tiled_choice", "tiled_qu_re", [("nsample", "N"), ("noption", "N")], result=("qu", "re"),
          model="Sampling tiles: divmod(nsample, noption)"),
    ]

    # ------------------------------------------------------------------------------------------ C18
    HP = "pybrops/core/util/haplo.py"
    OHV = "pybrops/breed/prot/sel/prob/OptimalHaploidValueSelectionProblem.py"
    R["C18"] = [
        K(HP, "nhaploblk_chrom", "ideal_blocks", [("nhaploblk", "S"), ("genlen", "S")], result="nhaploblk_ideal",
          opaque={"genlen.sum()": ("total", "S")}, model="Haplo ideal = nhaploblk / total * genlen"),
        K(HP, "nhaploblk_chrom", "apportion_diff", [("nhaploblk_chrom", "S"), ("nhaploblk_ideal", "S")], result="diff",
          result_first=True, rename={"nhaploblk_chrom": "cur", "nhaploblk_ideal": "ideal"},
          model="Haplo diff = assigned - ideal (first assignment; the `where(full, inf, diff)` of fix 53ce2603 is out of scope)"),
        K(HP, "nhaploblk_chrom", "apportion_full", [("nhaploblk_chrom", "N"), ("chrgrp_len", "N")], result="full",
          rename={"nhaploblk_chrom": "cur", "chrgrp_len": "len_"},
          model="a chromosome is full when it already has as many blocks as markers (fix 53ce2603)"),
        K(HP, "haplobin", "bin_member", [("chrmap", "S")], result="mask", targets=("lmask", "umask"),
          opaque={"hbound[j]": ("lo", "S"), "hbound[j + 1]": ("hi", "S")}, model="Haplo inBin lo <= x <= hi"),
        K(OHV, "OptimalHaploidValueSelectionProblemMixin._calc_ohvmat", "ohv_cell", [("ploidy", "S")], result="out",
          cell_targets=("out",), block_of="xconfig", opaque={"haplomat[:, xconfig, :, :].max((0, 2)).sum(1)": ("best", "S")},
          model="Haplo ohv = ploidy * sum of block maxima"),
        K(OHV, "OptimalHaploidValueRealSelectionProblem.latentfn", "ohv_latent_w", [("x", "V"), ("self._ohvmat", "V")],
          rename={"self._ohvmat": "col"}, model="Haplo.ohvLatentW"),
        K(OHV, "OptimalHaploidValueIntegerSelectionProblem.latentfn", "ohv_latent_w_int", [("x", "V"), ("self._ohvmat", "V")],
          rename={"self._ohvmat": "col"}, model="Haplo.ohvLatentW"),
        K(OHV, "OptimalHaploidValueBinarySelectionProblem.latentfn", "ohv_latent_w_bin", [("x", "V"), ("self._ohvmat", "V")],
          rename={"self._ohvmat": "col"}, model="Haplo.ohvLatentW"),
        K(OHV, "OptimalHaploidValueSubsetSelectionProblem.latentfn", "ohv_latent", [],
          opaque={"len(x)": ("n", "S"), "self._ohvmat[x, :].sum(0)": ("s", "S")}, model="Haplo.ohvLatent"),
        K(OHV, "OptimalHaploidValueSelectionProblemMixin._calc_ohvmat", "ohv_step", [("nconfig", "N"), ("mem", "N")],
          result="step", opaque={"mem is None": ("mem_none", "B")}, model="chunk step"),
    ]

    # ------------------------------------------------------------------------------------------ C19
    T1 = "pybrops/core/util/trans.py"
    T2 = "pybrops/breed/prot/sel/prob/trans.py"
    T3 = "pybrops/breed/prot/sel/transfn.py"

    def dist(path, fn, tag, mat, sign, line, proj):
        return [
            K(path, fn, tag + "_colscale", [], result="scale", targets=("maximum", "mask"),
              opaque={f"{mat}.max(0)": ("mx", "S")}, stop=proj[0], model="Pareto.scaleColsLit column factor"),
            K(path, fn, tag + "_cell", [(mat, "S"), (sign, "S"), ("scale", "S")], result=mat,
              opaque={f"{mat}.min(0)": ("cmin", "S")}, rename={mat: "x", sign: "sgn"}, model="Pareto.scaleColsLit cell"),
            K(path, fn, tag + "_resid", [(mat, "V"), (line, "V")], result=proj[-1], targets=tuple(proj[:-1]), start=proj[0],
              row=True, rename={mat: "p", line: "l"}, model="Pareto.residCore / residOuter (before the norm)"),
            K(path, fn, tag + "_normline", [(line, "V")], result=line, rename={line: "l"},
              opaque={(f"{line}.max()" if tag == "core" else f"numpy.abs({line}).max()"): ("amax", "S")},
              model="Pareto.normLineMax" if tag == "core" else "Pareto.normLine (fix c276d45e)"),
        ]
    R["C19"] = (dist(T1, "trans_ndpt_pseudo_dist", "core", "ndptmat", "objfn_minmax", "objfn_pseudoweight",
                     ["LdotLinv", "PdotL", "scale", "projL_P", "oprojL_P"])
                + dist(T2, "trans_ndpt_to_vec_dist", "prob", "mat", "vec_wt", "obj_wt", ["vdvinv", "scale", "P", "diff"])
                + dist(T3, "trans_ndpt_to_vec_dist", "fn", "mat", "wt", "objfn_wt", ["vdvinv", "scale", "P", "diff"])
                + [K("pybrops/core/util/pareto.py", "is_pareto_efficient", "keeps_row", [("fmat", "V")], result="ndpt_mask",
                     result_first=True, row=True, opaque={"fmat[pt_ix]": ("pivot", "V")}, rename={"fmat": "r"},
                     model="! Pareto.weakDom r pivot")]
                + [K("pybrops/core/util/pareto.py", "is_pareto_efficient", "next_pivot", [], result="pt_ix", block_of="ndpt_mask",
                     opaque={"numpy.sum(ndpt_mask[:pt_ix])": ("kept_before", "N")},
                     model="(mask.take pt).count true + 1 in Pareto.step")]
                + [K("pybrops/opt/algo/pymoo_addon.py", "dominates", "dominates",
                     [("obj1", "V"), ("cv1", "S"), ("obj2", "V"), ("cv2", "S")], model="Pareto.dominates")])

    # ------------------------------------------------------------------------------------------ C05
    SPB = "pybrops/breed/prot/sel/prob/"
    R["C05"] = [
        K(T2, "trans_sum", "trans_sum", [("latentvec", "V")], model="Pareto.latentSum"),
        K(T2, "trans_dot", "trans_dot", [("latentvec", "V"), ("latentvec_wt", "V")], model="Pareto.latentDot"),
        K(T2, "trans_decnvec_sum_eq", "trans_decnvec_sum_eq", [("decnvec", "V"), ("decnvec_sum", "S")],
          model="|sum x - s|"),
        K(SPB + "SelectionProblem.py", "SelectionProblem.evalfn", "evalfn_obj", [("self.obj_wt", "S")], result="obj",
          opaque={"self.obj_trans(x, latent, **self.obj_trans_kwargs)": ("t", "S")}, model="obj_wt * obj_trans"),
        K(SPB + "UsefulnessCriterionSelectionProblem.py", "UsefulnessCriterionRealMateSelectionProblem.latentfn",
          "contrib_gain", [("x", "V"), ("self._ucmat", "V")], rename={"self._ucmat": "col"}, sqrt_class="Selection.HasSqrt",
          model="Selection: -( (1/sum x) x ) . column"),
        K(SPB + "OptimalContributionSelectionProblem.py", "OptimalContributionRealSelectionProblem.latentfn",
          "ocs_contrib", [("x", "V")], result="contrib", targets=("xsum",), sqrt_class="Selection.HasSqrt",
          model="Selection: contributions with the zero-sum guard"),
        K(SPB + "UsefulnessCriterionSelectionProblem.py", "UsefulnessCriterionSelectionProblemMixin._calc_uc", "uc_cell",
          [("pmean", "S"), ("selection_intensity", "S"), ("pvar", "S")], result="uc", cell_targets=("uc",), block_of="pmean",
          sqrt_class="Selection.HasSqrt", model="Variance.ucVal = pmean + i * sqrt(pvar)"),
    ]
    return R
