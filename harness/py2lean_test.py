"""Tests of the kernel translator (harness/py2lean.py).  Run:  /venv/bin/python -m harness.py2lean_test [--eval] [--mutants]
[--lake] [pid ...]

(a) --eval      every generated Lean definition is EVALUATED (Rat; Float where exp/log/tanh/artanh/sqrt occur) on sample
                inputs by `lake env lean` and compared with the real Python statements executed by CPython/numpy on ARRAYS
                (the statements are taken from the pybrops source file itself and compiled unchanged: only the
                out-of-scope sub-expressions are replaced by parameters).  This checks the reading rules of the
                translator (implicit elementwise application, mask assignment, bool-as-number, reductions, ROW kernels)
                against numpy; the whole-function kernels of C11/C12/C19 are also called through the imported package.
(b) --mutants   for every kernel: semantic mutants of the source (operator swap, dropped factor, changed constant, flipped
                comparison, swapped branches, removed minus; kept only when the mutated statements compute different values
                on the samples) must make the equality module FAIL to check; harmless rewrites (commuted operands,
                `2*x` -> `x+x`, reassociation, renamed local; kept only when the values agree) must still check.  The
                mutated source is written to an overlay source root, re-translated with `py2lean.translate_pid`, and the
                generated file + PyKEq_<pid>.lean are compiled by `lean` in a scratch directory placed first on LEAN_PATH
                (same effect as regen + `lake build PybropsModel.Lemmas.PyKEq_<pid>`, but runs in parallel and leaves the
                build tree alone).
    --lake      additionally runs, for one semantic mutant and one harmless rewrite per property, the real thing:
                `py2lean.regen` into lean/PybropsModel/Generated + `lake build PybropsModel.Lemmas.PyKEq_<pid>`, restoring
                the snapshot afterwards.
"""
import ast
import concurrent.futures
import copy
import json
import math
import os
import shutil
import struct
import subprocess
import sys
import tempfile
from fractions import Fraction

from . import bridge, compat, py2lean

LEAN = bridge.LEAN
REPO = compat.REPO
SCRATCH = os.environ.get("PYK_SCRATCH") or os.path.join(tempfile.gettempdir(), "pyk_test")


# ================================================================================ python side: the statements themselves
class _Subst(ast.NodeTransformer):
    """replace out-of-scope sub-expressions / dotted parameters by plain names"""

    def __init__(self, k, tr):
        self.k, self.tr = k, tr

    def generic_visit(self, node):
        if isinstance(node, ast.expr):
            t = ast.unparse(node)
            if t in self.k.opaque:
                return ast.Name(id=self.k.opaque[t][0], ctx=ast.Load())
            d = py2lean._dotted(node)
            if d is not None and "." in d and any(d == p for p, _ in self.k.params):
                return ast.Name(id=self.tr.lean_var(d), ctx=getattr(node, "ctx", ast.Load()))
        return super().generic_visit(node)


def kernel_statements(k, fn, tr):
    """the statements the translator reads, as (deep-copied) ast nodes, and the result names (None = whole function)"""
    if k.result is None:
        return [s for s in fn.body if not tr.ignorable(s)], None
    sel, res = py2lean.select_statements(fn, k, tr)
    return [s for tag, s in sel if tag == "stmt"], res


def build_callable(k, fn, extra_ns=None):
    """-> (callable(**lean-named inputs) -> python value, [lean parameter names])"""
    import numpy
    ctx = py2lean.Ctx(k, {})
    tr = py2lean.Tr(ctx)
    stmts, res = kernel_statements(k, fn, tr)
    stmts = copy.deepcopy(stmts)
    out = []
    for s in stmts:
        if isinstance(s, ast.Assign) and len(s.targets) == 1:
            t = s.targets[0]
            nm = py2lean._dotted(t.value) if isinstance(t, ast.Subscript) else py2lean._dotted(t)
            if nm in k.summand_of and isinstance(s.value, ast.Call):
                s.value = s.value.func.value
            if isinstance(t, ast.Subscript) and nm in k.cell_targets:
                s.targets = [ast.Name(id=nm, ctx=ast.Store())]
        out.append(s)
    sub = _Subst(k, tr)
    out = [sub.visit(s) for s in out]
    # assignment targets `self.x = ...` -> plain local
    for s in out:
        for n in ast.walk(s):
            if isinstance(n, ast.Attribute) and isinstance(n.ctx, ast.Store):
                pass
    names = []
    pre = []
    for p, kd in k.params:
        if p in k.fix:
            pre.append(ast.parse(f"{p} = {'numpy.inf' if k.fix[p] == 'inf' else k.fix[p]}").body[0])
            continue
        names.append((tr.lean_var(p), p if "." not in p else tr.lean_var(p)))
    for t, (nm, kd) in k.opaque.items():
        if not any(nm == a for a, _ in names):
            names.append((nm, nm))
    if res is not None:
        rn = [r.replace(".", "_") for r in res]
        ret = ast.parse("return " + (rn[0] if isinstance(k.result, str) else "(" + ", ".join(rn) + ",)")).body[0]
        out.append(ret)
    body = pre + out
    # dotted assignment targets (self.var_err) -> self_var_err
    class Tgt(ast.NodeTransformer):
        def visit_Attribute(self, node):
            d = py2lean._dotted(node)
            if d is not None and res is not None and d in res:
                return ast.Name(id=d.replace(".", "_"), ctx=node.ctx)
            return self.generic_visit(node)
    body = [Tgt().visit(s) for s in body]
    fdef = ast.FunctionDef(name="kern", args=ast.arguments(posonlyargs=[], args=[ast.arg(arg=py) for _, py in names],
                                                           kwonlyargs=[], kw_defaults=[], defaults=[]),
                           body=body or [ast.Pass()], decorator_list=[], type_params=[])
    mod = ast.Module(body=[fdef], type_ignores=[])
    ast.fix_missing_locations(mod)
    ns = {"numpy": numpy, "np": numpy}
    ns.update(extra_ns or {})
    exec(compile(mod, f"<kernel {k.lean_name}>", "exec"), ns)
    f = ns["kern"]
    order = [a for a, _ in names]
    pyname = dict(names)

    def call(**kw):
        with numpy.errstate(all="ignore"):
            try:
                return f(**{pyname[a]: v for a, v in kw.items()})
            except (ValueError, ZeroDivisionError) as e:
                if k.result is None and "must be" in str(e):
                    return None
                raise
    return call, order


def callee_namespace(k, tree):
    """python functions a kernel calls (other kernels of the module), compiled from the same source"""
    import numpy
    ns = {"numpy": numpy, "np": numpy}
    for name in k.calls:
        fn = py2lean.find_function(tree, name)
        m = ast.Module(body=[copy.deepcopy(fn)], type_ignores=[])
        for n in ast.walk(m):
            if isinstance(n, ast.FunctionDef):
                n.returns = None
                n.decorator_list = []
                for a in n.args.args + n.args.kwonlyargs:
                    a.annotation = None
        ast.fix_missing_locations(m)
        exec(compile(m, "<callee>", "exec"), ns)
    return ns


# ================================================================================ sample inputs
S_VALUES = [Fraction(-3, 2), Fraction(0), Fraction(1, 4), Fraction(1, 2), Fraction(1), Fraction(2), Fraction(3, 4),
            Fraction(-1, 4), Fraction(5, 2), Fraction(1, 8)]
V_VALUES = [[Fraction(1), Fraction(2), Fraction(1, 2)], [Fraction(0), Fraction(1, 4), Fraction(3)],
            [Fraction(-1), Fraction(1), Fraction(1, 2)], [Fraction(2), Fraction(2), Fraction(2)]]


def sample_inputs(order, kinds, n=10, seed=0):
    """n input tuples; scalars cycle through S_VALUES with a different stride per parameter"""
    import random
    rng = random.Random(seed)
    rows = []
    for i in range(n):
        row = {}
        for j, a in enumerate(order):
            kd = kinds[a]
            if kd == "S":
                row[a] = S_VALUES[(i * (j + 1) + 3 * j + (i // len(S_VALUES))) % len(S_VALUES)] if i < 7 else \
                    Fraction(rng.randint(-8, 8), rng.choice([1, 2, 4]))
            elif kd == "B":
                row[a] = bool((i >> (j % 3)) & 1)
            elif kd == "N":
                row[a] = (i * (j + 2) + j) % 5 if i < 6 else rng.randint(0, 9)
            elif kd == "Z":
                row[a] = ((i * (j + 2) + j) % 7) - 2
            elif kd == "V":
                row[a] = V_VALUES[(i + 2 * j) % len(V_VALUES)]
        rows.append(row)
    return rows


def lean_lit(v, kd, scalar):
    if kd == "S":
        if scalar == "Float":
            return f"({float(v)!r} : Float)" if v >= 0 else f"(-({float(-v)!r}) : Float)"
        return f"(({v.numerator} : Rat) / {v.denominator})"
    if kd == "B":
        return "true" if v else "false"
    if kd == "N":
        return f"({v} : Nat)"
    if kd == "Z":
        return f"({v} : Int)"
    if kd == "V":
        return "[" + ", ".join(lean_lit(x, "S", scalar) for x in v) + "]"
    raise ValueError(kd)


SHOW = '''
class Sh (β : Type) where sh : β → String
instance : Sh Rat := ⟨fun q => s!"\\"{q.num}/{q.den}\\""⟩
instance : Sh Float := ⟨fun x => s!"\\"f:{x.toBits}\\""⟩
instance : Sh Bool := ⟨fun b => if b then "true" else "false"⟩
instance : Sh Nat := ⟨fun n => toString n⟩
instance : Sh Int := ⟨fun n => toString n⟩
instance {β : Type} [Sh β] : Sh (Option β) := ⟨fun o => match o with | none => "null" | some x => Sh.sh x⟩
instance {β : Type} [Sh β] : Sh (List β) := ⟨fun l => "[" ++ ", ".intercalate (l.map Sh.sh) ++ "]"⟩
instance {β γ : Type} [Sh β] [Sh γ] : Sh (β × γ) := ⟨fun p => "[" ++ Sh.sh p.1 ++ ", " ++ Sh.sh p.2 ++ "]"⟩
instance {β : Type} [Sh β] : Sh (GMap.GDist β) :=
  ⟨fun g => match g with | .fin a => Sh.sh a | .inf => "\\"inf\\"" | .nan => "null"⟩
instance : Selection.HasSqrt Float := ⟨Float.sqrt⟩
'''


def run_lean_script(text, name, lean_path_first=None, timeout=600):
    os.makedirs(SCRATCH, exist_ok=True)
    path = os.path.join(SCRATCH, name)
    with open(path, "w", encoding="utf-8") as f:
        f.write(text)
    env = dict(os.environ)
    if lean_path_first:
        env["LEAN_PATH"] = lean_path_first + ":" + _lean_path()
        p = subprocess.run(["lean", path], cwd=LEAN, capture_output=True, text=True, timeout=timeout, env=env)
    else:
        with bridge.Lock(shared=True):
            p = subprocess.run(["lake", "env", "lean", path], cwd=LEAN, capture_output=True, text=True, timeout=timeout)
    return p.returncode, p.stdout, p.stderr


_LP = None


def _lean_path():
    global _LP
    if _LP is None:
        _LP = subprocess.run(["lake", "env", "printenv", "LEAN_PATH"], cwd=LEAN, capture_output=True, text=True).stdout.strip()
    return _LP


def dec(x):
    """decode the Sh output (after json.loads)"""
    if isinstance(x, str):
        if x == "inf":
            return float("inf")
        if x.startswith("f:"):
            return struct.unpack("<d", struct.pack("<Q", int(x[2:])))[0]
        n, d = x.split("/")
        return Fraction(int(n), int(d))
    if isinstance(x, list):
        return [dec(y) for y in x]
    return x


def flat(x):
    if isinstance(x, (list, tuple)):
        out = []
        for y in x:
            out += flat(y)
        return out
    return [x]


def close(a, b, tol):
    """a: lean value (Fraction/float/bool/int/None), b: python value"""
    if a is None or b is None:
        return a is None and (b is None or (isinstance(b, float) and math.isnan(b)))
    if isinstance(a, bool) or isinstance(b, (bool,)):
        return bool(a) == bool(b)
    fa, fb = float(a), float(b)
    if math.isinf(fa):
        return fa == fb
    if math.isnan(fb) or math.isinf(fb):
        return None                      # division by zero etc.: outside the exact-arithmetic reading, not compared
    return abs(fa - fb) <= tol * max(1.0, abs(fa), abs(fb))


# ================================================================================ (a) evaluation
def eval_pid(pid, verbose=True):
    import numpy
    ks, infos = py2lean.translate_pid(pid, REPO)
    lines = [f"import PybropsModel.Generated.PyK_{pid}", "import PybropsModel.Model.Selection", "import PybropsModel.Model.Coancestry",
             "import PybropsModel.Model.GMap", SHOW, f"open PyK.{pid}"]
    plan = []
    for k, inf in zip(ks, infos):
        if not inf["ok"]:
            plan.append((k, None, inf["msg"]))
            continue
        tree = ast.parse(py2lean._read(os.path.join(REPO, k.path)))
        fn = py2lean.find_function(tree, k.qualname)
        call, order = build_callable(k, fn, callee_namespace(k, tree))
        tr = py2lean.Tr(py2lean.Ctx(k, {}))
        kinds = {}
        for p, kd in k.params:
            if p not in k.fix:
                kinds[tr.lean_var(p)] = kd
        for t, (nm, kd) in k.opaque.items():
            kinds.setdefault(nm, kd)
        scalar = "Float" if any(f.startswith("fn:") for f in inf["feat"]) else "Rat"
        rows = [r for r in sample_inputs(order, kinds, n=60) if _pre_ok(k, r)][:10]
        # Lean parameter order = declared parameters, then opaque ones (as rendered)
        lean_order = [tr.lean_var(p) for p, _ in k.params if p not in k.fix]
        for t, (nm, kd) in k.opaque.items():
            if nm not in lean_order:
                lean_order.append(nm)
        for row in rows:
            args = " ".join(lean_lit(row[a], kinds[a], scalar) for a in lean_order)
            ty = "(α := Float)" if scalar == "Float" and any(kinds[a] in ("S", "V") for a in lean_order) else \
                 ("(α := Rat)" if any(kinds[a] in ("S", "V") for a in lean_order) else "")
            lines.append(f"#eval IO.println (Sh.sh ({k.lean_name} {ty} {args}))")
        plan.append((k, (call, order, kinds, rows, scalar, _float_args(k, fn)), None))
    rc, out, err = run_lean_script("\n".join(lines) + "\n", f"Eval_{pid}.lean")
    outs = [l for l in out.splitlines() if l.strip()]
    total = sum(len(p[1][3]) for p in plan if p[1])
    if rc != 0 or len(outs) != total:
        print(f"[{pid}] evaluation script failed rc={rc} ({len(outs)} of {total} lines)\n{out[-1500:]}\n{err[-1500:]}")
        return False
    ok_all = True
    pos = 0
    for k, pl, msg in plan:
        if pl is None:
            print(f"  {pid} {k.lean_name:26s} NOT TRANSLATED {msg}")
            ok_all = False
            continue
        call, order, kinds, rows, scalar, scal = pl
        n_cmp = n_skip = 0
        bad = []
        has_v = any(kinds[a] == "V" for a in order)
        # elementwise kernels: ONE numpy call on arrays holding all samples with the same non-scalar arguments
        for row in rows:
            lean_val = dec(json.loads(outs[pos]))
            pos += 1
            kw = make_kwargs(k, kinds, order, row, scal, numpy)
            try:
                pv = call(**kw)
            except ZeroDivisionError:
                n_skip += 1                   # python-level float division by zero: outside the exact reading
                continue
            except Exception as e:
                bad.append((row, f"python raised {type(e).__name__}: {e}"))
                continue
            pv = _first(pv, k, kinds, order)
            lv, pvf = flat(lean_val), flat(pv)
            if len(lv) != len(pvf):
                bad.append((row, f"shape: lean {lean_val} python {pv}"))
                continue
            res = [close(a, b, 1e-9) for a, b in zip(lv, pvf)]
            if any(r is False for r in res):
                bad.append((row, f"lean {lean_val} python {pv}"))
            elif any(r is None for r in res):
                n_skip += 1
            else:
                n_cmp += 1
        status = "ok" if not bad and n_cmp > 0 else "MISMATCH" if bad else "nothing-compared"
        if status != "ok":
            ok_all = False
        if verbose or status != "ok":
            print(f"  {pid} {k.lean_name:26s} {status:9s} compared={n_cmp} skipped(non-finite)={n_skip} at {scalar}"
                  + ("" if not bad else f"  first: {bad[0]}"))
    return ok_all


def make_kwargs(k, kinds, order, row, scal, numpy, dup=2):
    """python arguments of the compiled statements: arrays wherever the source accepts them"""
    has_v = any(kinds[a] == "V" for a in order)
    kw = {}
    for a in order:
        v = row[a]
        if kinds[a] == "S":
            kw[a] = (numpy.array([float(v)] * dup) if (not has_v and a not in scal and _array_ok(k)) else float(v))
        elif kinds[a] == "V":
            if a in COLUMN.get(k.lean_name, ()):
                kw[a] = numpy.array([[float(x)] for x in v])
            elif k.row and a == order[0]:
                kw[a] = numpy.array([[float(x) for x in v]] * 2)
            else:
                kw[a] = numpy.array([float(x) for x in v])
        else:
            kw[a] = v
    return kw


def _pre_ok(k, row):
    return (not k.pre) or bool(eval(k.pre, {}, dict(row)))


def _float_args(k, fn):
    """Lean names of the parameters the source passes through float(): python scalars, not arrays"""
    tr = py2lean.Tr(py2lean.Ctx(k, {}))
    out = set()
    for n in ast.walk(fn):
        if isinstance(n, ast.Call) and isinstance(n.func, ast.Name) and n.func.id == "float" and n.args:
            d = py2lean._dotted(n.args[0])
            if d:
                out.add(tr.lean_var(d))
    return out


def _array_ok(k):
    """kernels whose python statements accept arrays for their scalar parameters (everything except python-level
    `if x < y:` / builtin min, max on the scalars)"""
    return k.lean_name not in NO_ARRAY


COLUMN = {"var_a": ("u_a",)}          # vector parameters that are one COLUMN of a 2-D array in the source

NO_ARRAY = {"rprob_filial", "rprob_filial_inf", "cov_D1s", "cov_D1s_inf", "cov_D2s", "cov_D2s_inf", "cov_D1st", "cov_D2st",
            "dominates", "ocs_contrib", "chunk_step", "ohv_step", "tiled_qu_re"}


def _first(pv, k, kinds, order):
    """python result on duplicated arrays -> the first element / first row"""
    import numpy
    if isinstance(pv, tuple):
        return [_first(x, k, kinds, order) for x in pv]
    if isinstance(pv, numpy.ndarray):
        if k.row:
            return [float(x) for x in (pv[0] if pv.ndim == 2 else pv[:1])]
        has_v = any(kinds[a] == "V" for a in order)
        if has_v:
            return [_py(x) for x in numpy.atleast_1d(pv)]
        return _py(pv.flat[0])
    return _py(pv)


def _py(x):
    import numpy
    if isinstance(x, (numpy.bool_, bool)):
        return bool(x)
    if isinstance(x, (numpy.integer, int)):
        return int(x)
    if isinstance(x, (numpy.floating, float)):
        return float(x)
    return x


# ================================================================================ (b) mutants
class Mut:
    """enumerates single-node mutations of the statements the kernel reads"""

    SEM, HARM = "semantic", "harmless"

    def __init__(self, k, fn):
        self.k, self.fn = k, fn
        tr = py2lean.Tr(py2lean.Ctx(k, {}))
        stmts, _ = kernel_statements(k, fn, tr)
        self.ids = [id(s) for s in stmts]
        self.stmts = stmts

    def nodes(self, fn):
        tr = py2lean.Tr(py2lean.Ctx(self.k, {}))
        stmts, _ = kernel_statements(self.k, fn, tr)
        out = []
        for s in stmts:
            out += list(ast.walk(s))
        return out

    def candidates(self):
        """[(kind, description, mutated FunctionDef)]"""
        base_nodes = self.nodes(self.fn)
        res = []
        for idx, node in enumerate(base_nodes):
            for kind, desc, edit in self.edits(node):
                fn2 = copy.deepcopy(self.fn)
                n2 = self.nodes(fn2)[idx]
                try:
                    edit(n2)
                except Exception:
                    continue
                ast.fix_missing_locations(fn2)
                res.append((kind, f"{desc} in `{ast.unparse(node)[:50]}`", fn2))
        res += self.renames()
        return res

    def edits(self, node):
        out = []
        if isinstance(node, ast.BinOp):
            if isinstance(node.op, ast.Add):
                out.append((self.SEM, "+ -> -", lambda n: setattr(n, "op", ast.Sub())))
                out.append((self.HARM, "commute +", self._commute))
            if isinstance(node.op, ast.Sub):
                out.append((self.SEM, "- -> +", lambda n: setattr(n, "op", ast.Add())))
            if isinstance(node.op, ast.Mult):
                out.append((self.SEM, "dropped factor", self._drop_right))
                out.append((self.HARM, "commute *", self._commute))
                if isinstance(node.left, ast.Constant) and node.left.value in (2, 2.0):
                    out.append((self.HARM, "2*x -> x+x", self._double))
                if isinstance(node.left, ast.BinOp) and isinstance(node.left.op, ast.Mult):
                    out.append((self.HARM, "reassociate *", self._reassoc))
            if isinstance(node.op, ast.Div):
                out.append((self.SEM, "/ -> *", lambda n: setattr(n, "op", ast.Mult())))
            if isinstance(node.op, ast.Pow):
                out.append((self.SEM, "** exponent + 1", self._pow))
            if isinstance(node.op, ast.BitAnd):
                out.append((self.SEM, "& -> |", lambda n: setattr(n, "op", ast.BitOr())))
            if isinstance(node.op, ast.BitOr):
                out.append((self.SEM, "| -> &", lambda n: setattr(n, "op", ast.BitAnd())))
        if isinstance(node, ast.Constant) and isinstance(node.value, (int, float)) and not isinstance(node.value, bool):
            out.append((self.SEM, "constant + 1", lambda n: setattr(n, "value", n.value + 1)))
        if isinstance(node, ast.Compare) and len(node.ops) == 1:
            sw = {ast.Lt: ast.LtE, ast.LtE: ast.Lt, ast.Gt: ast.GtE, ast.GtE: ast.Gt, ast.Eq: ast.NotEq, ast.NotEq: ast.Eq}
            if type(node.ops[0]) in sw:
                new = sw[type(node.ops[0])]
                out.append((self.SEM, f"{type(node.ops[0]).__name__} -> {new.__name__}", lambda n: setattr(n, "ops", [new()])))
        if isinstance(node, ast.UnaryOp) and isinstance(node.op, ast.USub):
            out.append((self.SEM, "removed unary minus", lambda n: setattr(n, "op", ast.UAdd())))
        if isinstance(node, ast.IfExp):
            out.append((self.SEM, "swapped branches", self._swap_ifexp))
        if isinstance(node, ast.Call) and py2lean._np_func(node.func) == "where" and len(node.args) == 3:
            out.append((self.SEM, "swapped where branches", self._swap_where))
        if isinstance(node, ast.Call) and py2lean._np_func(node.func) in ("exp", "tanh", "log", "arctanh"):
            out.append((self.SEM, "argument negated", self._neg_arg))
        if isinstance(node, ast.If) and node.orelse and not isinstance(node.orelse[0], ast.If):
            out.append((self.SEM, "swapped if/else", self._swap_if))
        if isinstance(node, ast.BoolOp):
            new = ast.Or if isinstance(node.op, ast.And) else ast.And
            out.append((self.SEM, "and <-> or", lambda n: setattr(n, "op", new())))
            out.append((self.HARM, "commute and/or", lambda n: n.values.reverse()))
        if isinstance(node, ast.BinOp) and isinstance(node.op, (ast.BitAnd, ast.BitOr)):
            out.append((self.HARM, "commute &/|", self._commute))
        if isinstance(node, ast.Compare) and len(node.ops) == 1 and \
                type(node.ops[0]) in (ast.Lt, ast.Gt, ast.LtE, ast.GtE, ast.Eq, ast.NotEq):
            out.append((self.HARM, "flipped comparison operands", self._flip_cmp))
        if isinstance(node, ast.AugAssign):
            sw = {ast.Mult: ast.Add, ast.Add: ast.Sub, ast.Sub: ast.Add, ast.Div: ast.Mult}
            if type(node.op) in sw:
                new = sw[type(node.op)]
                out.append((self.SEM, f"augmented {type(node.op).__name__} -> {new.__name__}", lambda n: setattr(n, "op", new())))
        if isinstance(node, (ast.Assign, ast.Return, ast.AugAssign)) and node.value is not None and \
                not isinstance(node.value, (ast.Compare, ast.BoolOp, ast.Tuple, ast.Constant)) and \
                not _boolish(node.value) and \
                not (isinstance(node, ast.Assign) and isinstance(node.targets[0], (ast.Tuple,))):
            out.append((self.SEM, "value + 1", lambda n: setattr(n, "value", ast.BinOp(left=n.value, op=ast.Add(), right=ast.Constant(1)))))
            out.append((self.HARM, "value + 0", lambda n: setattr(n, "value", ast.BinOp(left=n.value, op=ast.Add(), right=ast.Constant(0)))))
        if isinstance(node, (ast.Assign, ast.Return)) and isinstance(node.value, (ast.Compare, ast.BoolOp)):
            out.append((self.SEM, "negated condition", lambda n: setattr(n, "value", ast.Call(
                func=ast.Attribute(value=ast.Name(id="numpy", ctx=ast.Load()), attr="logical_not", ctx=ast.Load()),
                args=[n.value], keywords=[]))))
        if isinstance(node, ast.Call) and py2lean._np_func(node.func) in ("logical_and", "logical_or") and len(node.args) == 2:
            out.append((self.HARM, "commute logical_and/or", lambda n: n.args.reverse()))
        if isinstance(node, ast.Call) and isinstance(node.func, ast.Name) and node.func.id == "divmod":
            out.append((self.SEM, "divmod arguments swapped", lambda n: n.args.reverse()))
        return out

    @staticmethod
    def _flip_cmp(n):
        fl = {ast.Lt: ast.Gt, ast.Gt: ast.Lt, ast.LtE: ast.GtE, ast.GtE: ast.LtE, ast.Eq: ast.Eq, ast.NotEq: ast.NotEq}
        n.left, n.comparators = n.comparators[0], [n.left]
        n.ops = [fl[type(n.ops[0])]()]

    @staticmethod
    def _commute(n):
        n.left, n.right = n.right, n.left

    @staticmethod
    def _drop_right(n):
        n.op = ast.Add()
        n.right = ast.BinOp(left=ast.Constant(0), op=ast.Mult(), right=n.right)     # a*b -> a + 0*b (keeps shapes)

    @staticmethod
    def _double(n):
        n.op = ast.Add()
        n.left = copy.deepcopy(n.right)

    @staticmethod
    def _reassoc(n):
        a, b, c = n.left.left, n.left.right, n.right
        n.left, n.right = a, ast.BinOp(left=b, op=ast.Mult(), right=c)

    @staticmethod
    def _pow(n):
        if not (isinstance(n.right, ast.Constant) and isinstance(n.right.value, (int, float))):
            raise ValueError
        n.right = ast.Constant(n.right.value + 1)

    @staticmethod
    def _swap_ifexp(n):
        n.body, n.orelse = n.orelse, n.body

    @staticmethod
    def _swap_where(n):
        n.args[1], n.args[2] = n.args[2], n.args[1]

    @staticmethod
    def _neg_arg(n):
        n.args[0] = ast.UnaryOp(op=ast.USub(), operand=n.args[0])

    @staticmethod
    def _swap_if(n):
        n.body, n.orelse = n.orelse, n.body

    def renames(self):
        """harmless: rename a local of a whole-function kernel"""
        if self.k.result is not None:
            return []
        params = {a.arg for a in self.fn.args.args}
        locs = []
        for s in self.stmts:
            for n in ast.walk(s):
                if isinstance(n, ast.Name) and isinstance(n.ctx, ast.Store) and n.id not in params and n.id not in locs:
                    locs.append(n.id)
        out = []
        for name in locs[:1]:
            fn2 = copy.deepcopy(self.fn)
            for n in ast.walk(fn2):
                if isinstance(n, ast.Name) and n.id == name:
                    n.id = name + "_renamed"
            out.append((self.HARM, f"renamed local {name}", fn2))
        return out


def _boolish(v):
    """values that are boolean arrays / special floats: `+ 0`, `+ 1` would change their type, not their arithmetic"""
    if isinstance(v, ast.BinOp) and isinstance(v.op, (ast.BitAnd, ast.BitOr)):
        return True
    if isinstance(v, ast.UnaryOp) and isinstance(v.op, (ast.Invert, ast.Not)):
        return True
    if isinstance(v, ast.Call) and (py2lean._np_func(v.func) in ("where", "logical_not", "logical_and", "logical_or", "any", "all", "inf", "nan")):
        return True
    if py2lean._np_func(v) in ("inf", "nan"):
        return True
    return False


# harmless rewrites that are known to fail CLOSED (the translation or the proof depends on the syntactic shape there);
# reported, not counted as test failures
KNOWN_FRAGILE = {
    ("genic_term", "value + 0"): "the reduction `(...).sum(0)` whose summand is translated must stay the whole right-hand side",
    ("keeps_row", "flipped comparison operands"): "operands of the row-vs-pivot comparison swapped: `zip pivot r` instead of "
                                                  "`zip r pivot`, the proof is about the latter",
}


def mutated_file_text(k, fn2):
    """source text of k.path with the function replaced by the (unparsed) mutated one"""
    text = py2lean._read(os.path.join(REPO, k.path))
    tree = ast.parse(text)
    fn = py2lean.find_function(tree, k.qualname)
    lines = text.split("\n")
    f3 = copy.deepcopy(fn2)
    f3.decorator_list = []
    new = ast.unparse(f3).split("\n")
    ind = " " * fn.col_offset
    lines[fn.lineno - 1:fn.end_lineno] = [ind + l for l in new]
    return "\n".join(lines)


def overlay_root(pid, k, text, tag):
    """a source root holding the files of the property's kernels, with k.path replaced"""
    root = os.path.join(SCRATCH, "roots", f"{pid}_{tag}")
    shutil.rmtree(root, ignore_errors=True)
    for p in {x.path for x in py2lean.KERNELS[pid]}:
        dst = os.path.join(root, p)
        os.makedirs(os.path.dirname(dst), exist_ok=True)
        if p == k.path:
            with open(dst, "w", encoding="utf-8") as f:
                f.write(text)
        else:
            shutil.copyfile(os.path.join(REPO, p), dst)
    return root


def values_of(k, fn, tree, rows_cache):
    call, order = build_callable(k, fn, callee_namespace(k, tree))
    tr = py2lean.Tr(py2lean.Ctx(k, {}))
    kinds = {tr.lean_var(p): kd for p, kd in k.params if p not in k.fix}
    for t, (nm, kd) in k.opaque.items():
        kinds.setdefault(nm, kd)
    import numpy
    rows = rows_cache.setdefault(k.lean_name, [r for r in sample_inputs(order, kinds, n=30, seed=7) if _pre_ok(k, r)])
    vals = []
    scal = _float_args(k, fn)
    for row in rows:
        kw = make_kwargs(k, kinds, order, row, scal, numpy, dup=1)
        try:
            pv = call(**kw)
        except Exception as e:
            vals.append(("exc", type(e).__name__))
            continue
        vals.append(flat(_tolist(pv)))
    return vals


def _tolist(x):
    import numpy
    if isinstance(x, tuple):
        return [_tolist(y) for y in x]
    if isinstance(x, numpy.ndarray):
        return x.tolist()
    return _py(x)


def same_values(v1, v2):
    differs = False
    for a, b in zip(v1, v2):
        if isinstance(a, tuple) or isinstance(b, tuple):
            if a != b:
                differs = True
            continue
        if len(a) != len(b):
            return False
        for x, y in zip(a, b):
            if x is None or y is None:
                if x is not y:
                    differs = True
                continue
            if isinstance(x, bool) or isinstance(y, bool):
                if bool(x) != bool(y):
                    differs = True
                continue
            fx, fy = float(x), float(y)
            if math.isnan(fx) and math.isnan(fy):
                continue
            if math.isnan(fx) != math.isnan(fy):
                differs = True
                continue
            if math.isinf(fx) or math.isinf(fy):
                if fx != fy:
                    differs = True
                continue
            if abs(fx - fy) > 1e-9 * max(1.0, abs(fx), abs(fy)):
                differs = True
    return not differs


def compile_variant(pid, root, tag):
    """translate from `root`, compile generated file + equality module in a scratch LEAN_PATH entry.
    -> (translated_ok, builds, log)"""
    ks, infos = py2lean.translate_pid(pid, root)
    body = py2lean.render_file(pid, ks, infos)
    d = os.path.join(SCRATCH, "lp", f"{pid}_{tag}")
    shutil.rmtree(d, ignore_errors=True)
    gdir = os.path.join(d, "PybropsModel", "Generated")
    os.makedirs(gdir)
    # lean resolves a module below the FIRST search-path entry that has the package directory: mirror the built library
    # with symlinks, except the one generated module under test
    real = os.path.join(LEAN, ".lake", "build", "lib", "lean", "PybropsModel")
    for name in os.listdir(real):
        if name != "Generated":
            os.symlink(os.path.join(real, name), os.path.join(d, "PybropsModel", name))
    for name in os.listdir(os.path.join(real, "Generated")):
        if not name.startswith(f"PyK_{pid}."):
            os.symlink(os.path.join(real, "Generated", name), os.path.join(gdir, name))
    gen = os.path.join(gdir, f"PyK_{pid}.lean")
    with open(gen, "w", encoding="utf-8") as f:
        f.write(body)
    env = dict(os.environ)
    env["LEAN_PATH"] = d + ":" + _lean_path()
    p1 = subprocess.run(["lean", "-o", gen[:-5] + ".olean", gen], cwd=d, capture_output=True, text=True, env=env)
    tr_ok = all(i["ok"] for i in infos)
    if p1.returncode != 0:
        return tr_ok, False, "generated file does not compile: " + (p1.stdout + p1.stderr)[-600:]
    eq = os.path.join(LEAN, "PybropsModel", "Lemmas", f"PyKEq_{pid}.lean")
    p2 = subprocess.run(["lean", eq], cwd=LEAN, capture_output=True, text=True, env=env)
    log = "\n".join(l for l in (p2.stdout + p2.stderr).splitlines() if "error" in l)[:600]
    return tr_ok, p2.returncode == 0, log


def mutants_pid(pid, per_kernel_sem=3, per_kernel_harm=2, workers=12, verbose=True):
    jobs = []
    rows_cache = {}
    summary = {}
    for k in py2lean.KERNELS[pid]:
        text = py2lean._read(os.path.join(REPO, k.path))
        tree = ast.parse(text)
        fn = py2lean.find_function(tree, k.qualname)
        try:
            base = values_of(k, fn, tree, rows_cache)
        except Exception as e:
            summary[k.lean_name] = {"error": f"base evaluation failed: {type(e).__name__}: {e}"}
            continue
        cands = Mut(k, fn).candidates()
        sem, harm = [], []
        seen_desc = set()
        for kind, desc, fn2 in cands:
            if (kind == Mut.SEM and len(sem) >= per_kernel_sem) or (kind == Mut.HARM and len(harm) >= per_kernel_harm):
                continue
            fam = desc.split(" in `")[0]
            if (kind, fam) in seen_desc and kind == Mut.SEM:
                continue                                     # variety: one mutant per operator family first
            try:
                tree2 = ast.parse(mutated_file_text(k, fn2))
                fn2p = py2lean.find_function(tree2, k.qualname)
                v2 = values_of(k, fn2p, tree2, rows_cache)
            except Exception:
                continue
            same = same_values(base, v2)
            if kind == Mut.SEM and not same:
                sem.append((desc, fn2))
                seen_desc.add((kind, fam))
            elif kind == Mut.HARM and same:
                harm.append((desc, fn2))
        if len(sem) < per_kernel_sem:                        # second pass without the variety constraint
            for kind, desc, fn2 in cands:
                if kind != Mut.SEM or len(sem) >= per_kernel_sem or any(desc == d for d, _ in sem):
                    continue
                try:
                    tree2 = ast.parse(mutated_file_text(k, fn2))
                    v2 = values_of(k, py2lean.find_function(tree2, k.qualname), tree2, rows_cache)
                except Exception:
                    continue
                if not same_values(base, v2):
                    sem.append((desc, fn2))
        summary[k.lean_name] = {"semantic": [], "harmless": [], "n_sem": len(sem), "n_harm": len(harm)}
        for j, (desc, fn2) in enumerate(sem):
            jobs.append((k, "semantic", desc, fn2, f"{k.lean_name}_s{j}"))
        for j, (desc, fn2) in enumerate(harm):
            jobs.append((k, "harmless", desc, fn2, f"{k.lean_name}_h{j}"))

    def run(job):
        k, kind, desc, fn2, tag = job
        root = overlay_root(pid, k, mutated_file_text(k, fn2), tag)
        tr_ok, builds, log = compile_variant(pid, root, tag)
        shutil.rmtree(root, ignore_errors=True)
        shutil.rmtree(os.path.join(SCRATCH, "lp", f"{pid}_{tag}"), ignore_errors=True)
        return job, tr_ok, builds, log
    with concurrent.futures.ThreadPoolExecutor(max_workers=workers) as ex:
        for (k, kind, desc, fn2, tag), tr_ok, builds, log in ex.map(run, jobs):
            caught = (not tr_ok) or (not builds)
            summary[k.lean_name][kind].append({"desc": desc, "translated": tr_ok, "builds": builds,
                                               "verdict": ("killed" if caught else "SURVIVED") if kind == "semantic"
                                               else ("still proves" if not caught else "REJECTED")})
    ok = True
    for name, s in summary.items():
        if "error" in s:
            print(f"  {pid} {name:26s} ERROR {s['error']}")
            ok = False
            continue
        sk = sum(1 for m in s["semantic"] if m["verdict"] == "killed")
        hs = sum(1 for m in s["harmless"] if m["verdict"] == "still proves")
        flag = ""
        if sk < len(s["semantic"]):
            flag += " SURVIVOR"
            ok = False
        unexpected = [m for m in s["harmless"] if m["verdict"] == "REJECTED"
                      and (name, m["desc"].split(" in `")[0]) not in KNOWN_FRAGILE]
        for m in s["harmless"]:
            if m["verdict"] == "REJECTED" and (name, m["desc"].split(" in `")[0]) in KNOWN_FRAGILE:
                m["verdict"] = "fails-closed(known)"
        if unexpected:
            flag += " HARMLESS-REJECTED"
            ok = False
        if len(s["semantic"]) < 2:
            flag += " (<2 semantic mutants available)"
        if len(s["harmless"]) < 1:
            flag += " (no harmless rewrite available)"
        if verbose or flag:
            print(f"  {pid} {name:26s} semantic killed {sk}/{len(s['semantic'])}  harmless kept {hs}/{len(s['harmless'])}{flag}")
            for m in s["semantic"] + s["harmless"]:
                if m["verdict"] in ("SURVIVED", "REJECTED", "fails-closed(known)") or verbose:
                    print(f"        {m['verdict']:12s} {m['desc']}")
    return ok, summary


# ================================================================================ --lake: the real regen + lake build
def lake_pid(pid):
    """one semantic mutant and one harmless rewrite through py2lean.regen + lake build, snapshot restored afterwards"""
    gen = py2lean.gen_path(pid)
    snap = open(gen, encoding="utf-8").read()
    res = []
    try:
        rows_cache = {}
        k = py2lean.KERNELS[pid][0]
        tree = ast.parse(py2lean._read(os.path.join(REPO, k.path)))
        fn = py2lean.find_function(tree, k.qualname)
        base = values_of(k, fn, tree, rows_cache)
        picked = {}
        for kind, desc, fn2 in Mut(k, fn).candidates():
            if kind in picked:
                continue
            tree2 = ast.parse(mutated_file_text(k, fn2))
            try:
                v2 = values_of(k, py2lean.find_function(tree2, k.qualname), tree2, rows_cache)
            except Exception:
                continue
            same = same_values(base, v2)
            if (kind == Mut.SEM and not same) or (kind == Mut.HARM and same):
                picked[kind] = (desc, fn2)
        for kind, (desc, fn2) in picked.items():
            root = overlay_root(pid, k, mutated_file_text(k, fn2), "lake")
            ok, msg, mods = py2lean.regen(pid, root)
            b_ok, log = bridge.build(mods)
            res.append((kind, desc, ok, b_ok))
            print(f"  {pid} {k.lean_name}: {kind}: {desc}: regen ok={ok} lake build ok={b_ok}")
    finally:
        with bridge.Lock():
            with open(gen, "w", encoding="utf-8") as f:
                f.write(snap)
        bridge.build([py2lean.eq_module(pid)])
    good = all((kind == Mut.SEM and not (ok and b)) or (kind == Mut.HARM and ok and b) for kind, _, ok, b in res)
    return good and len(res) == 2


def main(argv):
    pids = [a for a in argv if a in py2lean.KERNELS] or sorted(py2lean.KERNELS)
    do_all = not any(a in argv for a in ("--eval", "--mutants", "--lake"))
    rc = 0
    if "--eval" in argv or do_all:
        print("== (a) evaluation of the generated definitions against the python statements")
        for pid in pids:
            if not eval_pid(pid, verbose="-q" not in argv):
                rc = 1
    if "--mutants" in argv or do_all:
        print("== (b) semantic mutants must break the equality module, harmless rewrites must not")
        tot = {"sem": 0, "killed": 0, "harm": 0, "kept": 0}
        for pid in pids:
            ok, summ = mutants_pid(pid, verbose="-q" not in argv)
            for s in summ.values():
                if "error" in s:
                    continue
                tot["sem"] += len(s["semantic"])
                tot["killed"] += sum(1 for m in s["semantic"] if m["verdict"] == "killed")
                tot["harm"] += len(s["harmless"])
                tot["kept"] += sum(1 for m in s["harmless"] if m["verdict"] == "still proves")
            if not ok:
                rc = 1
        print(f"== totals: semantic mutants killed {tot['killed']}/{tot['sem']}, harmless rewrites kept {tot['kept']}/{tot['harm']}")
    if "--lake" in argv:
        print("== regen + lake build on one semantic mutant and one harmless rewrite per property")
        for pid in pids:
            if not lake_pid(pid):
                rc = 1
    print("PASS" if rc == 0 else "FAIL")
    return rc


if __name__ == "__main__":
    sys.exit(main(sys.argv[1:]))
