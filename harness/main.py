import argparse
import importlib
import json
import os
import signal
import subprocess
import sys
import tempfile
import traceback

CRASH_SIGNALS = {signal.SIGSEGV: "SIGSEGV", signal.SIGABRT: "SIGABRT", signal.SIGBUS: "SIGBUS", signal.SIGFPE: "SIGFPE",
                 signal.SIGILL: "SIGILL"}
MAX_RESTARTS = 6


def _args():
    ap = argparse.ArgumentParser()
    ap.add_argument("pid")
    ap.add_argument("--tier", default=os.environ.get("VERIF_TIER") or "quick", choices=["quick", "thorough"])
    ap.add_argument("--seed", type=int, default=int(os.environ.get("VERIF_SEED") or 0))
    ap.add_argument("--replay")
    ap.add_argument("--selftest", action="store_true")
    return ap.parse_args()


def child(a):
    try:
        from . import core
        mod = importlib.import_module(f"harness.props.{a.pid.lower()}")
        rc = core.run(mod.PROP, tier=a.tier, seed=a.seed, replay=a.replay, selftest=a.selftest)
    except SystemExit:
        raise
    except BaseException:
        traceback.print_exc()
        print(f"HARNESS-ERROR property={a.pid}")
        rc = 2
    sys.stdout.flush()
    sys.exit(rc)


def parent(a):
    """run the check in a child interpreter.  If the implementation under test kills the interpreter on some input
    (segmentation fault / abort inside a C extension), that input - recorded by the child before every call of the
    implementation - is a failing input: the child is restarted with the input marked as `crashed` (it is then judged
    like an escaped exception: Spec false, replay written) instead of the check dying without a verdict."""
    here = os.path.dirname(os.path.dirname(os.path.abspath(__file__)))
    with tempfile.TemporaryDirectory(prefix="verif_run_") as d:
        inflight, crashed = os.path.join(d, "inflight.json"), os.path.join(d, "crashed.json")
        json.dump([], open(crashed, "w"))
        env = dict(os.environ, VERIF_CHILD="1", VERIF_INFLIGHT=inflight, VERIF_CRASHED=crashed)
        for attempt in range(MAX_RESTARTS + 1):
            if os.path.exists(inflight):
                os.remove(inflight)
            rc = subprocess.call([sys.executable, "-m", "harness.main", *sys.argv[1:]], env=env, cwd=here)
            if rc >= 0:
                return rc
            name = CRASH_SIGNALS.get(-rc)
            if name is None or not os.path.exists(inflight):
                print(f"HARNESS-ERROR property={a.pid} (check process ended with signal {-rc})")
                return 2
            lst = json.load(open(crashed))
            lst.append({"signal": name, "case": json.load(open(inflight))})
            json.dump(lst, open(crashed, "w"))
            print(f"[{a.pid}] the implementation killed the interpreter ({name}) on one input; restarting with that input "
                  f"recorded as a crash (restart {attempt + 1} of at most {MAX_RESTARTS + 1})", flush=True)
        # still crashing after several restarts: one last attempt in which every remaining case of the kinds that crashed
        # is recorded as "not run (crash kind)" instead of being executed, so that the run completes, judges the
        # crashing inputs (Spec false, replay) and writes its evidence
        env["VERIF_CRASH_KINDS"] = "1"
        rc = subprocess.call([sys.executable, "-m", "harness.main", *sys.argv[1:]], env=env, cwd=here)
        if rc >= 0:
            return rc
        print(f"HARNESS-ERROR property={a.pid} (check process ended with signal {-rc} after {MAX_RESTARTS + 1} restarts)")
        return 2


def main():
    a = _args()
    if os.environ.get("VERIF_CHILD") or os.environ.get("VERIF_NO_FORK"):
        child(a)
    sys.exit(parent(a))


if __name__ == "__main__":
    main()
