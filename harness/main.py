import argparse
import importlib
import os
import sys
import traceback


def main():
    ap = argparse.ArgumentParser()
    ap.add_argument("pid")
    ap.add_argument("--tier", default=os.environ.get("VERIF_TIER") or "quick", choices=["quick", "thorough"])
    ap.add_argument("--seed", type=int, default=int(os.environ.get("VERIF_SEED") or 0))
    ap.add_argument("--replay")
    ap.add_argument("--selftest", action="store_true")
    a = ap.parse_args()
    try:
        from . import core
        mod = importlib.import_module(f"harness.props.{a.pid.lower()}")
        rc = core.run(mod.PROP, tier=a.tier, seed=a.seed, replay=a.replay, selftest=a.selftest)
    except SystemExit:
        raise
    except BaseException:
        traceback.print_exc()
        print(f"HARNESS-ERROR property={a.pid}")
        rc = 2
    sys.stdout.flush()
    sys.exit(rc)


if __name__ == "__main__":
    main()
