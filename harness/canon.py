"""Canonicalisation between Python/numpy values and the driver's JSON conventions.

integers -> JSON ints; rationals/floats -> "n/d" strings (floats converted exactly with Fraction);
None -> null; bool -> true/false; arrays -> nested lists.  NaN/inf -> the strings "nan"/"inf"/"-inf"
(only ever produced for implementation outputs; the comparator decides what they mean).
"""
from fractions import Fraction
import math
import numpy


def enc(x):
    """value -> JSON-able canonical form"""
    if x is None:
        return None
    if isinstance(x, (bool, numpy.bool_)):
        return bool(x)
    if isinstance(x, (int, numpy.integer)):
        return int(x)
    if isinstance(x, Fraction):
        return int(x) if x.denominator == 1 else f"{x.numerator}/{x.denominator}"
    if isinstance(x, (float, numpy.floating)):
        x = float(x)
        if math.isnan(x):
            return "nan"
        if math.isinf(x):
            return "inf" if x > 0 else "-inf"
        return enc(Fraction(x))
    if isinstance(x, (str, numpy.str_)):
        return str(x)
    if isinstance(x, bytes):
        return x.decode("utf-8", "replace")
    if isinstance(x, numpy.ndarray):
        if x.ndim == 0:
            return enc(x.item())
        return [enc(v) for v in x]
    if isinstance(x, (list, tuple)):
        return [enc(v) for v in x]
    if isinstance(x, dict):
        return {str(k): enc(v) for k, v in x.items()}
    raise TypeError(f"cannot canonicalise {type(x)}")


def dec(x):
    """canonical JSON rational/int -> Fraction (or None / 'nan' markers kept)"""
    if x is None or isinstance(x, bool):
        return x
    if isinstance(x, int):
        return Fraction(x)
    if isinstance(x, str):
        if x in ("nan", "inf", "-inf"):
            return x
        if "/" in x:
            n, d = x.split("/")
            return Fraction(int(n), int(d))
        return Fraction(int(x))
    if isinstance(x, list):
        return [dec(v) for v in x]
    if isinstance(x, float):
        return Fraction(x)
    raise TypeError(f"cannot decode {x!r}")


def close(a, b, rel=1e-9, abs_=1e-12):
    """tolerant comparison of two canonical scalars (Fractions / markers / None / bool)"""
    if isinstance(a, list) or isinstance(b, list):
        return (isinstance(a, list) and isinstance(b, list) and len(a) == len(b)
                and all(close(x, y, rel, abs_) for x, y in zip(a, b)))
    if isinstance(a, (str, bool)) or isinstance(b, (str, bool)) or a is None or b is None:
        return a == b and type(a) is type(b)
    a = Fraction(a)
    b = Fraction(b)
    if a == b:
        return True
    diff = abs(a - b)
    return diff <= abs_ or diff <= rel * max(abs(a), abs(b))


def close_enc(a, b, rel=1e-9, abs_=1e-12):
    """tolerant comparison of two *encoded* values (nested lists of canonical scalars)"""
    return close(dec(a), dec(b), rel, abs_)


def exc_tag(e):
    """map Python exception classes to the model's small error enum"""
    if isinstance(e, (IndexError, KeyError)):
        return "index"
    if isinstance(e, TypeError):
        return "type"
    if isinstance(e, (ValueError, ArithmeticError, AssertionError)):
        return "value"
    if isinstance(e, (AttributeError, NotImplementedError, RecursionError)):
        return "unsupported"
    return "other:" + type(e).__name__
