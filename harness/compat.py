"""Environment shims installed in the checking process before `import pybrops`.

They only re-create names that numpy 2 removed (`numpy.float_`, `numpy.in1d`); they cannot change
a result.  Nothing here touches /repo.  See DESIGN.md section 0.
"""
import os
import sys
import warnings

REPO = os.environ.get("PYBROPS_REPO", "/repo")
GUARD = "PYBROPS_VERIF"

_installed = False


def install():
    global _installed
    if _installed:
        return
    os.environ.setdefault(GUARD, "1")
    if REPO not in sys.path:
        sys.path.insert(0, REPO)
    warnings.filterwarnings("ignore")
    import numpy
    if not hasattr(numpy, "float_"):
        numpy.float_ = numpy.float64
    if not hasattr(numpy, "in1d"):
        def in1d(ar1, ar2, **kw):
            return numpy.isin(numpy.ravel(ar1), ar2, **kw)
        numpy.in1d = in1d
    numpy.seterr(all="ignore")
    _installed = True


def import_pybrops():
    install()
    import pybrops  # noqa: F401
    # the working tree under test must be the one imported
    root = os.path.realpath(os.path.dirname(os.path.dirname(pybrops.__file__)))
    if root != os.path.realpath(REPO):
        raise RuntimeError(f"pybrops imported from {root}, expected {REPO}")
    return pybrops
