"""Lean side of the harness: build under a lock, axiom audit, forbidden-token grep, driver runs."""
import fcntl
import json
import os
import re
import subprocess
import time

VERIF = os.path.dirname(os.path.dirname(os.path.abspath(__file__)))
LEAN = os.path.join(VERIF, "lean")
ALLOWED_AXIOMS = {"propext", "Classical.choice", "Quot.sound"}
FORBIDDEN = re.compile(r"\b(sorry|admit|native_decide|bv_decide|implemented_by)\b|^\s*axiom\s|\bunsafe\s|maxHeartbeats\s+0\b",
                       re.M)


class Lock:
    def __enter__(self):
        self.f = open(os.path.join(LEAN, ".build.lock"), "w")
        fcntl.flock(self.f, fcntl.LOCK_EX)
        return self

    def __exit__(self, *a):
        fcntl.flock(self.f, fcntl.LOCK_UN)
        self.f.close()


def _run(cmd, inp=None, timeout=3600):
    p = subprocess.run(cmd, cwd=LEAN, input=inp, capture_output=True, text=True, timeout=timeout)
    return p.returncode, p.stdout, p.stderr


def build(targets, timeout=3600):
    """lake build of the given module targets.  Returns (ok, log)."""
    with Lock():
        rc, out, err = _run(["lake", "build", *targets], timeout=timeout)
    return rc == 0, (out + err)[-6000:]


def audit(module):
    """[(theorem, [axioms])] for every theorem declared in `module` (must be built)."""
    d = os.path.join(LEAN, ".lake", "audit")
    os.makedirs(d, exist_ok=True)
    path = os.path.join(d, module.replace(".", "_") + ".lean")
    with open(path, "w") as f:
        f.write(f"import AuditCmd\nimport {module}\n#audit_module {module}\n")
    rc, out, err = _run(["lake", "env", "lean", path])
    if rc != 0:
        raise RuntimeError("audit failed: " + (out + err)[-2000:])
    res = []
    for line in out.splitlines():
        if line.startswith("THM "):
            head, _, axs = line.partition(" :: ")
            res.append((head.split()[2], axs.split()))
    return res


def strip_comments(src):
    src = re.sub(r"/-.*?-/", " ", src, flags=re.S)
    src = re.sub(r"--[^\n]*", " ", src)
    return src


def forbidden_tokens(subdirs=("PybropsModel",)):
    """scan Model/ Lemmas/ Props/ Drv/ (comments stripped) for sorry/admit/axiom/native_decide/..."""
    hits = []
    for sd in subdirs:
        for root, _, files in os.walk(os.path.join(LEAN, sd)):
            for fn in files:
                if fn.endswith(".lean"):
                    p = os.path.join(root, fn)
                    body = strip_comments(open(p).read())
                    for m in FORBIDDEN.finditer(body):
                        hits.append((os.path.relpath(p, LEAN), m.group(0).strip()))
    return hits


def run_driver(requests, timeout=3600):
    """send the requests (list of dicts) through the Lean driver; returns list of answers
    ({"ok": ...} or {"err": "..."}), same length."""
    if not requests:
        return []
    inp = "\n".join(json.dumps(r, separators=(",", ":")) for r in requests) + "\n"
    rc, out, err = _run(["lake", "env", "lean", "--run", "Driver.lean"], inp=inp, timeout=timeout)
    lines = [l for l in out.splitlines() if l.strip()]
    if rc != 0 or len(lines) != len(requests):
        raise RuntimeError(f"driver failed rc={rc} got {len(lines)} answers for {len(requests)} requests\n"
                           + err[-3000:] + out[-500:])
    return [json.loads(l) for l in lines]


def leanchecker(module, timeout=3600):
    rc, out, err = _run(["lake", "env", "leanchecker", module], timeout=timeout)
    return rc == 0, (out + err)[-2000:]
