"""C05 — factory cases: problems built from population objects by the `from_*` class methods.

Every case builds small population objects (breeding-value matrix, phased / unphased genotype matrix,
additive linear genomic model, coancestry factory, stubs for the variance factory / mating protocol),
calls the factory of one concrete class, reads the data attributes of the problem and one latent
vector, and hands the population's plain data to the Lean model (`c05.bvdata`, `c05.wgebv`, `c05.calcV`,
`c05.xmap`, `c05.uc`, `c05.haplomat`, `c05.ohvmat`, `c05.embv`, `c05.spec_factor`, `c05.spec_latent`).
"""
import contextlib
import importlib
from fractions import Fraction

import numpy

from .. import canon, compat

PKG = "pybrops.breed.prot.sel.prob."


def _c05():
    from . import c05
    return c05


def _f(x):
    return float(Fraction(x))


def _fin(v):
    if isinstance(v, list):
        return all(_fin(u) for u in v)
    return not isinstance(canon.dec(v), str)


def _close(a, b, rel=1e-9, abs_=1e-12):
    try:
        return _fin(a) and _fin(b) and canon.close_enc(a, b, rel, abs_)
    except Exception:
        return False


def _enc(a):
    return canon.enc(numpy.asarray(a, dtype=float))


# --------------------------------------------------------------------------------------------
# population objects
# --------------------------------------------------------------------------------------------
def gen_pop(rng, n=None, p=None, t=None, nchr=None, nphase=2, inbred=None):
    """`inbred`: None (random phases), "full" (every taxon homozygous at every locus: all phases equal) or
    "partial" (homozygous at some loci, heterozygous at others)"""
    n = n or rng.choice([3, 4, 4, 5, 6])
    p = p or rng.choice([3, 4, 5, 6])
    t = t or rng.choice([1, 2, 2, 3])
    geno = [[[rng.choice([0, 1]) for _ in range(p)] for _ in range(n)] for _ in range(nphase)]
    if inbred:
        homo = [inbred == "full" or rng.random() < 0.6 for _ in range(p)]
        for ph in geno[1:]:
            for i in range(n):
                for j in range(p):
                    if homo[j]:
                        ph[i][j] = geno[0][i][j]
    # fixed loci now and then
    for j in range(p):
        r = rng.random()
        if r < 0.12:
            for ph in geno:
                for row in ph:
                    row[j] = 1
        elif r < 0.24:
            for ph in geno:
                for row in ph:
                    row[j] = 0
    nchr = nchr or rng.choice([1, 2]) if p >= 4 else 1
    cut = (rng.randint(2, p - 2) if rng.random() < 0.8 else rng.choice([1, p - 1])) if nchr == 2 else p
    chrgrp = [1 if j < cut else 2 for j in range(p)]
    genpos, pos = [], Fraction(0)
    for j in range(p):
        if j == cut:
            pos = Fraction(0)
        pos += Fraction(rng.randint(1, 8), 16)
        genpos.append(canon.enc(pos))
    labels = rng.sample(range(1, 30), rng.randint(1, min(12, max(1, n - 1))))
    return {"geno": geno, "taxa_grp": [rng.choice(labels) for _ in range(n)], "chrgrp": chrgrp, "genpos": genpos,
            "u": [[canon.enc(Fraction(rng.choice([-6, -4, -3, -2, -1, 1, 2, 3, 5, 8]), rng.choice([1, 2, 4])))
                   for _ in range(t)] for _ in range(p)],
            "beta": [canon.enc(Fraction(rng.randint(-8, 8), 2)) for _ in range(t)],
            "phased": rng.random() < 0.6}


def make_pgmat(pop, phased=True):
    compat.import_pybrops()
    from pybrops.popgen.gmat.DensePhasedGenotypeMatrix import DensePhasedGenotypeMatrix
    from pybrops.popgen.gmat.DenseGenotypeMatrix import DenseGenotypeMatrix
    mat = numpy.array(pop["geno"], dtype="int8")
    n, p = mat.shape[1], mat.shape[2]
    kw = dict(taxa=numpy.array(taxa_names(pop), dtype=object),
              taxa_grp=numpy.array(pop["taxa_grp"], dtype="int64"),
              vrnt_chrgrp=numpy.array(pop["chrgrp"], dtype="int64"),
              vrnt_phypos=numpy.arange(p, dtype="int64") * 10 + 1,
              vrnt_name=numpy.array([f"m{j}" for j in range(p)], dtype=object),
              vrnt_genpos=numpy.array([_f(v) for v in pop["genpos"]]),
              vrnt_xoprob=numpy.array([0.5 if (j == 0 or pop["chrgrp"][j] != pop["chrgrp"][j - 1]) else 0.1
                                       for j in range(p)]))
    if phased:
        g = DensePhasedGenotypeMatrix(mat=mat, **kw)
    else:
        g = DenseGenotypeMatrix(mat=mat.sum(0).astype("int8"), ploidy=mat.shape[0], **kw)
    g.group_vrnt()
    return g


def make_gpmod(pop):
    compat.import_pybrops()
    from pybrops.model.gmod.DenseAdditiveLinearGenomicModel import DenseAdditiveLinearGenomicModel
    u = numpy.array([[_f(v) for v in r] for r in pop["u"]])
    return DenseAdditiveLinearGenomicModel(beta=numpy.array([[_f(v) for v in pop["beta"]]]), u_misc=None, u_a=u,
                                           trait=numpy.array([f"y{j}" for j in range(u.shape[1])], dtype=object))


def taxa_names(pop):
    """taxon names: `pop["taxa"]` (a list of distinct integers, any order) or 0..n-1"""
    n = len(pop["geno"][0])
    return [f"tx{int(v):03d}" for v in pop.get("taxa", range(n))]


def Zmat(pop):
    """allele-count genotype matrix (sum over the phases), exact"""
    g = pop["geno"]
    return [[sum(ph[i][j] for ph in g) for j in range(len(g[0][0]))] for i in range(len(g[0]))]


def ploidy_of(pop):
    return len(pop["geno"])


def permute_pop(pop, order):
    """the population with its taxa in the order `order` (new position -> old index)"""
    q = dict(pop)
    q["geno"] = [[ph[i] for i in order] for ph in pop["geno"]]
    q["taxa_grp"] = [pop["taxa_grp"][i] for i in order]
    names = pop.get("taxa", list(range(len(pop["taxa_grp"]))))
    q["taxa"] = [names[i] for i in order]
    return q


def sorted_order(pop):
    """the order `sort_taxa()` / `group_taxa()` produce: by group label, then by name"""
    names = taxa_names(pop)
    return sorted(range(len(names)), key=lambda i: (pop["taxa_grp"][i], names[i]))


def effective(case):
    """the case as the factory sees it after the history step (objects mutated in place) has been applied"""
    h = case.get("history")
    if not h:
        return case
    c = {k: v for k, v in case.items() if k != "history"}
    if "pop" in case:
        pop = case["pop"]
        if h["op"] == "reorder":
            c["pop"] = permute_pop(pop, h["perm"])
        elif h["op"] in ("sort", "group"):
            c["pop"] = permute_pop(pop, sorted_order(pop))
        elif h["op"] == "assign_mat":
            c["pop"] = dict(pop, geno=h["geno"])
        elif h["op"] == "assign_u":
            c["pop"] = dict(pop, u=h["u"])
        else:
            raise ValueError(h["op"])
    else:
        bv = case["bv"]
        if h["op"] == "reorder":
            c["bv"] = dict(bv, mat=[bv["mat"][i] for i in h["perm"]], taxa_grp=[bv["taxa_grp"][i] for i in h["perm"]])
        elif h["op"] == "assign_mat":
            c["bv"] = dict(bv, mat=h["mat"])
        else:
            raise ValueError(h["op"])
    return c


def apply_history(h, pool):
    """mutate the pooled population objects in place"""
    op = h["op"]
    if "gmat" in pool:
        g = pool["gmat"]
        if op == "reorder":
            g.reorder_taxa(numpy.array(h["perm"]))
        elif op == "sort":
            g.sort_taxa()
        elif op == "group":
            g.group_taxa()
        elif op == "assign_mat":
            m = numpy.array(h["geno"], dtype="int8")
            g.mat = m if g.mat.ndim == 3 else m.sum(0).astype("int8")
        elif op == "assign_u":
            pool["gpmod"].u_a = numpy.array([[_f(v) for v in r] for r in h["u"]])
    elif "bvmat" in pool:
        b = pool["bvmat"]
        if op == "reorder":
            b.reorder_taxa(numpy.array(h["perm"]))
        elif op == "assign_mat":
            b.mat = numpy.array([[_f(v) for v in r] for r in h["mat"]])


def gebv_exact(pop):
    Z = Zmat(pop)
    u = [[Fraction(v) for v in r] for r in pop["u"]]
    b = [Fraction(v) for v in pop["beta"]]
    return [[canon.enc(sum(Fraction(z) * u[m][j] for m, z in enumerate(row)) + b[j]) for j in range(len(b))] for row in Z]


# Evaluation configuration of a factory-built problem.  A factory takes the same declaration (weights,
# transformations, their keyword arguments, constraint counts) as the constructor and must hand it on: when a case
# has an "evalcfg", `std_kwargs` adds that declaration to the factory call and `_latent` also calls `evalfn` and
# records the row, which `judge` checks against "weights x declared transformations of (x, latentfn(x))".
_CFG = [None]          # the length-agnostic declaration of the running case
_REG = []              # [(effective declaration, logs, spy functions)] one per std_kwargs call
_ROWS = []             # [(effective declaration, decision, evalfn row)]


def gen_evalcfg(rng, distinct=False):
    """declaration whose lengths are resolved at run time from the latent length: weight i = a + b*i.
    `distinct`: every channel gets a transformation WITH keyword arguments, the three sets of names / values and the
    three weight vectors pairwise different (a mix-up of any two entries of the declaration then shows)"""
    if distinct:
        ts = rng.choice([("dot", "decn_sum_eq", "penalty"), ("affine", "penalty", "decn_sum_eq"),
                         ("penalty", "dot", "decn_sum_eq"), ("affine", "decn_sum_eq", "dot"),
                         ("dot", "penalty", "decn_sum_eq")])
        wa = rng.sample([-3, -2, 2, 3, 5, -5, 7], 3)
        ps = rng.sample([-7, -5, -3, 3, 5, 7, 9], 3)
        qs = rng.sample([1, 2, 3, 4, 5], 3)
        return {role: {"t": t, "wt": {"a": canon.enc(Fraction(a, 2)), "b": canon.enc(Fraction(rng.choice([1, 2, 3]), 2))},
                       "p": canon.enc(Fraction(p_, 2)), "q": canon.enc(Fraction(q_)), "form": "array"}
                for role, t, a, p_, q_ in zip(("obj", "ineqcv", "eqcv"), ts, wa, ps, qs)}
    def wt():
        return {"a": canon.enc(Fraction(rng.choice([-3, -2, 2, 3, 5, -5, 7]), rng.choice([1, 2]))),
                "b": canon.enc(Fraction(rng.choice([-1, 1, 2, 3]), 2))}
    cfg = {}
    for role in ("obj", "ineqcv", "eqcv"):
        if role == "obj":
            t = rng.choice(["identity", "identity", "sum", "dot", "penalty", "affine"])
        else:
            t = rng.choice(["empty", "default", "sum", "dot", "decn_sum_eq", "decn_sum_eq_default", "penalty", "identity"])
        cfg[role] = {"t": t, "wt": wt(), "p": canon.enc(Fraction(rng.randint(-8, 8), 2)),
                     "q": canon.enc(Fraction(rng.randint(1, 5))), "form": rng.choice(["array", "array", "array", "scalar", "none"])}
    return cfg


def materialise(cfg, nl):
    """the evalfn-style declaration (as in an "evalfn" case of c05.py) for a latent vector of length nl"""
    out = {"wt_form": {}}
    for role in ("obj", "ineqcv", "eqcv"):
        c = cfg[role]
        t = c["t"]
        a, b = Fraction(c["wt"]["a"]), Fraction(c["wt"]["b"])
        if t in ("identity", "penalty", "affine"):
            ln = nl
        elif t in ("empty", "default"):
            ln = 0 if role != "obj" else nl
        else:
            ln = 1
        if t == "dot":
            tr = {"t": "dot", "w": [canon.enc(Fraction(c["p"]) + Fraction(c["q"]) * i) for i in range(nl)]}
        elif t == "penalty":
            tr = {"t": "penalty", "thr": c["p"]}
        elif t == "affine":
            tr = {"t": "affine", "m": c["q"], "c": c["p"]}
        elif t == "decn_sum_eq":
            tr = {"t": "decn_sum_eq", "target": canon.enc(abs(Fraction(c["p"])))}
        elif t == "decn_sum_eq_default":
            tr = {"t": "decn_sum_eq", "target": 1, "default_kw": True}
        else:
            tr = {"t": t}
        out[role + "_trans"] = tr
        wts = [canon.enc(a + b * i) for i in range(ln)]
        if c["form"] == "scalar" and ln > 0:
            wts = [wts[0]] * ln
            out["wt_form"][role] = "scalar"
        elif c["form"] == "none":
            wts = [1] * ln
            out["wt_form"][role] = "none"
        out[role + "_wt"] = wts
    return out


def std_kwargs(enc, n, k, nobj):
    if enc == "subset":
        d = dict(ndecn=k, decn_space=numpy.arange(n), decn_space_lower=None, decn_space_upper=None)
    elif enc == "real":
        d = dict(ndecn=n, decn_space=numpy.array([[0.0] * n, [1.0] * n]), decn_space_lower=0.0, decn_space_upper=1.0)
    elif enc == "integer":
        d = dict(ndecn=n, decn_space=numpy.array([[0] * n, [8] * n]), decn_space_lower=0, decn_space_upper=8)
    else:
        d = dict(ndecn=n, decn_space=numpy.array([[0] * n, [1] * n]), decn_space_lower=0, decn_space_upper=1)
    d["nobj"] = nobj
    if _CFG[0] is not None:
        c05 = _c05()
        eff = materialise(_CFG[0], int(nobj))
        logs = {r: [] for r in ("obj", "ineqcv", "eqcv")}
        fns = {}
        for r in ("obj", "ineqcv", "eqcv"):
            fn, kw = c05.make_trans(eff[r + "_trans"], logs[r])
            fns[r] = fn
            d[r + "_trans"] = fn
            d[r + "_trans_kwargs"] = kw if kw else None
            form = eff["wt_form"].get(r)
            if form == "scalar":
                d[r + "_wt"] = _f(eff[r + "_wt"][0])
            elif form == "none":
                d[r + "_wt"] = None
            else:
                d[r + "_wt"] = numpy.array([_f(v) for v in eff[r + "_wt"]], dtype=float)
        d["nobj"] = len(eff["obj_wt"])
        d["nineqcv"] = len(eff["ineqcv_wt"])
        d["neqcv"] = len(eff["eqcv_wt"])
        _REG.append((eff, logs, fns))
    return d


def cls_of(crit, enc):
    c05 = _c05()
    spec = c05.CRITS[crit]
    return getattr(importlib.import_module(PKG + spec["module"]), spec["classes"][enc])


def decide(rng, enc, n):
    """a decision for `n` candidates in encoding `enc` and its normalised shares"""
    k = rng.randint(1, n)
    S = rng.sample(range(n), k)
    if enc == "subset":
        return S
    if enc == "binary":
        return [1 if i in S else 0 for i in range(n)]
    if enc == "integer":
        return [rng.randint(1, 3) if i in S else 0 for i in range(n)]
    return [canon.enc(Fraction(rng.randint(1, 8), 8)) if i in S else 0 for i in range(n)]


def shares_of(enc, dv, n):
    if enc == "subset":
        x = [Fraction(dv.count(i)) for i in range(n)]
    else:
        x = [Fraction(v) for v in dv]
    tot = sum(x)
    return [canon.enc(v / tot) for v in x], [i for i, v in enumerate(x) if v > 0]


# --------------------------------------------------------------------------------------------
# generation
# --------------------------------------------------------------------------------------------
FACTORIES = ["bvmat", "family_bvmat", "l1_numpy", "wgebv_numpy", "wgebv_gmat", "random_object", "mogs_gmat",
             "gebv_gmat", "cmat", "l2_gmat", "uc", "ohv", "opv", "gb", "embv", "wgebvmat", "embvmat", "embvmat_real",
             "ohvmat_direct"]


COMBOS = [("bvmat", "EBV"), ("bvmat", "GEBV"), ("family_bvmat", "FAMILY"), ("l1_numpy", "L1"),
          ("wgebv_numpy", "WGEBV"), ("wgebv_numpy", "GWGEBV"), ("wgebv_gmat", "WGEBV"), ("wgebv_gmat", "GWGEBV"),
          ("random_object", "RANDOM"), ("mogs_gmat", "PAFD"), ("mogs_gmat", "PAU"), ("mogs_gmat", "MOGS"),
          ("gebv_gmat", "GEBV"), ("cmat", "OCS"), ("cmat", "MGR"), ("cmat", "MEH"), ("l2_gmat", "L2"), ("uc", "UC"),
          ("ohv", "OHV"), ("opv", "OPV"), ("gb", "GB"), ("embv", "EMBV"), ("wgebvmat", "WGEBVMAT"), ("embvmat", "EMBVMAT"),
          ("embvmat_real", "EMBVMAT"), ("ohvmat_direct", "OHV")]


def gen_case(rng, factory=None, crit=None, enc=None, history=False):
    """`enc`: the decision encoding wanted (every concrete class has its own copy of each factory method)"""
    c05 = _c05()
    if enc is not None and (crit not in c05.CRITS or enc not in c05.CRITS[crit]["classes"]):
        enc = None
    case = _gen_case(rng, factory)
    if (crit is not None and case["crit"] != crit) or (enc is not None and case["enc"] != enc):
        for _ in range(80):
            case = _gen_case(rng, factory)
            if case["crit"] == crit and (enc is None or case["enc"] == enc):
                break
    if case["factory"] not in ("wgebvmat", "embvmat", "embvmat_real", "ohvmat_direct") and \
            (enc is not None or rng.random() < 0.75):
        case["evalcfg"] = gen_evalcfg(rng, distinct=(enc is not None or rng.random() < 0.5))
    if case["factory"] in HISTORY_FACTORIES and (history or rng.random() < 0.3):
        if "pop" in case and "taxa" not in case["pop"]:
            # distinct names in arbitrary order, so that sort_taxa() / group_taxa() really move rows
            n = len(case["pop"]["geno"][0])
            case["pop"]["taxa"] = rng.sample(range(100), n)
        case["history"] = gen_history(rng, case, history if isinstance(history, str) else None)
    return case


def _gen_case(rng, factory=None):
    c05 = _c05()
    fac = factory or rng.choice(FACTORIES)
    case = {"kind": "factory", "factory": fac}
    encs = list(c05.ENCODINGS)
    if fac == "bvmat":
        n, t = rng.randint(2, 6), rng.randint(1, 3)
        case.update(crit=rng.choice(["EBV", "GEBV"]), enc=rng.choice(encs), unscale=rng.random() < 0.6,
                    bv={"mat": [[c05._val(rng) for _ in range(t)] for _ in range(n)],
                        "location": [canon.enc(Fraction(rng.randint(-20, 20), 2)) for _ in range(t)],
                        "scale": [canon.enc(Fraction(rng.randint(1, 12), 4)) for _ in range(t)],
                        "taxa_grp": [rng.randint(1, 4) for _ in range(n)]})
        if rng.random() < 0.2:
            case["bv"]["labels"] = False
        case["decn"] = decide(rng, case["enc"], n)
    elif fac == "family_bvmat":
        n, t = rng.randint(2, 6), rng.randint(1, 3)
        labels = rng.sample(range(1, 30), rng.randint(1, max(1, n - 1)))
        case.update(crit="FAMILY", enc=rng.choice(encs),
                    bv={"mat": [[c05._val(rng) for _ in range(t)] for _ in range(n)],
                        "location": [canon.enc(Fraction(rng.randint(-20, 20), 2)) for _ in range(t)],
                        "scale": [canon.enc(Fraction(rng.randint(1, 12), 4)) for _ in range(t)],
                        "taxa_grp": [rng.choice(labels) for _ in range(n)]})
        case["decn"] = decide(rng, case["enc"], n)
    elif fac == "l1_numpy":
        n, m, t = rng.randint(2, 5), rng.randint(1, 4), rng.randint(1, 3)
        case.update(crit="L1", enc=rng.choice(encs),
                    mkrwt=[[canon.enc(Fraction(rng.randint(1, 9), 2)) for _ in range(t)] for _ in range(m)],
                    tafreq=[[canon.enc(rng.choice([Fraction(0), Fraction(1, 2), Fraction(1)])) for _ in range(m)]
                            for _ in range(n)],
                    tfreq=[[canon.enc(rng.choice([Fraction(0), Fraction(1), Fraction(1, 4), Fraction(3, 4)]))
                            for _ in range(t)] for _ in range(m)])
        case["decn"] = decide(rng, case["enc"], n)
    elif fac == "wgebv_numpy":
        n, p, t = rng.randint(2, 5), rng.randint(1, 5), rng.randint(1, 3)
        crit = rng.choice(["WGEBV", "GWGEBV"])
        # perfect squares (numpy.power(., -1/2) is exact), 0 (the guarded value) and rare favourable alleles near 1e-9
        fchoices = [Fraction(1), Fraction(1, 4), Fraction(1, 16), Fraction(9, 16), Fraction(1, 2), Fraction(0),
                    Fraction(1, 2 ** 30), Fraction(1, 2 ** 20)]
        case.update(crit=crit, enc=rng.choice(encs),
                    Z=[[rng.choice([0, 1, 2]) for _ in range(p)] for _ in range(n)],
                    u=[[canon.enc(Fraction(rng.choice([-5, -3, -2, -1, 1, 2, 4, 7]), rng.choice([1, 2])))
                        for _ in range(t)] for _ in range(p)],
                    fafreq=[[canon.enc(rng.choice(fchoices)) for _ in range(t)] for _ in range(p)],
                    alpha=canon.enc(Fraction(1, 2) if crit == "WGEBV" else rng.choice([Fraction(0), Fraction(1, 2), Fraction(1)])))
        case["decn"] = decide(rng, case["enc"], n)
    elif fac == "ohvmat_direct":
        m, n, b, t = rng.choice([2, 2, 4, 1]), rng.randint(2, 6), rng.randint(1, 3), rng.randint(1, 2)
        npar = rng.choice([1, 2, 2, 3])
        nx = rng.randint(1, 12)
        case.update(crit="OHV", enc=rng.choice(encs), decn=[0],
                    H=[[[[c05._val(rng) for _ in range(t)] for _ in range(b)] for _ in range(n)] for _ in range(m)],
                    xmap=[[rng.randrange(n) for _ in range(npar)] for _ in range(nx)],
                    mem=rng.choice([1, 2, 3, 4, max(1, nx - 1), nx, nx + 1, None, None, 1024]))
        if rng.random() < 0.3:
            case["layout"] = rng.choice(["F", "strided", "neg"])
    elif fac in ("wgebv_gmat", "gebv_gmat", "mogs_gmat", "cmat", "l2_gmat", "uc", "ohv", "opv", "gb", "embv", "wgebvmat",
                 "embvmat", "embvmat_real"):
        pop = gen_pop(rng, nphase=(4 if fac in ("ohv", "opv", "gb", "mogs_gmat", "gebv_gmat") and rng.random() < 0.4 else 2))
        n = len(pop["geno"][0])
        case["pop"] = pop
        if fac == "wgebvmat":
            case.update(crit="WGEBVMAT", enc="subset", decn=[0])
        elif fac == "embvmat":
            pop["phased"] = True
            t = len(pop["u"][0])
            # Integral arguments or per-taxon arrays with unequal entries
            nrep = [rng.randint(1, 5) for _ in range(n)] if rng.random() < 0.6 else rng.randint(1, 3)
            npro = [rng.randint(1, 4) for _ in range(n)] if rng.random() < 0.6 else rng.randint(1, 4)
            reps, pros = per_taxon(nrep, n)[1], per_taxon(npro, n)[1]
            case.update(crit="EMBVMAT", enc="subset", decn=[0], nrep=nrep, nprogeny=npro,
                        prog=[[[[canon.enc(Fraction(rng.randint(-20, 40), 4)) for _ in range(t)] for _ in range(pros[i])]
                               for _ in range(reps[i])] for i in range(n)])
        elif fac == "embvmat_real":
            t = len(pop["u"][0])
            case["pop"] = pop = gen_pop(rng, n=n, p=len(pop["u"]), t=t, inbred=rng.choice(["full", "full", "partial"]))
            pop["phased"] = True
            nrep = [rng.randint(1, 5) for _ in range(n)] if rng.random() < 0.7 else rng.randint(1, 3)
            npro = [rng.randint(1, 4) for _ in range(n)] if rng.random() < 0.7 else rng.randint(1, 4)
            case.update(crit="EMBVMAT", enc="subset", decn=[0], nrep=nrep, nprogeny=npro, seed=rng.randint(0, 10 ** 6))
        if fac == "wgebv_gmat":
            case.update(crit=rng.choice(["WGEBV", "GWGEBV"]), enc=rng.choice(encs))
            case["alpha"] = canon.enc(Fraction(1, 2) if case["crit"] == "WGEBV" else
                                      rng.choice([Fraction(0), Fraction(1, 2), Fraction(1)]))
            case["decn"] = decide(rng, case["enc"], n)
        elif fac == "gebv_gmat":
            case.update(crit="GEBV", enc=rng.choice(encs), unscale=rng.random() < 0.7)
            case["decn"] = decide(rng, case["enc"], n)
        elif fac == "mogs_gmat":
            p, t = len(pop["u"]), len(pop["u"][0])
            case.update(crit=rng.choice(["PAFD", "PAU", "MOGS"]), enc="subset",
                        weight=rng.choice(["abs_u", "array"]), target=rng.choice(["sign_u", "array"]),
                        mkrwt=[[canon.enc(Fraction(rng.randint(1, 9), 2)) for _ in range(t)] for _ in range(p)],
                        tfreq=[[canon.enc(rng.choice([Fraction(1, 2), Fraction(1, 4), Fraction(3, 4)]))
                                for _ in range(t)] for _ in range(p)])
            case["decn"] = decide(rng, "subset", n)
        elif fac == "cmat":
            case.update(crit=rng.choice(["OCS", "MGR", "MEH"]), enc=rng.choice(encs),
                        cmatfcty=rng.choice(["molecular", "vanraden"]), unscale=rng.random() < 0.5)
            case["decn"] = decide(rng, case["enc"], n)
        elif fac == "l2_gmat":
            p, t = len(pop["u"]), len(pop["u"][0])
            case.update(crit="L2", enc=rng.choice(encs),
                        mkrwt=[[canon.enc(Fraction(rng.randint(1, 9), 2)) for _ in range(t)] for _ in range(p)],
                        afreq=[[canon.enc(rng.choice([Fraction(1, 2), Fraction(1, 4), Fraction(3, 4)]))
                                for _ in range(t)] for _ in range(p)])
            case["decn"] = decide(rng, case["enc"], n)
        elif fac == "uc":
            pop["phased"] = True
            t = len(pop["u"][0])
            uniq = rng.random() < 0.5
            # designs: two-way with a stub variance factory (equal or unequal genome contributions), three-way with
            # a stub (1/2, 1/4, 1/4) and three-way with the real DenseThreeWayDHAdditiveGeneticVarianceMatrixFactory
            design = rng.choice(["stub2", "stub2", "stub3", "real3", "real3"])
            npar = 2 if design == "stub2" else 3
            if design == "stub2":
                epgc = [Fraction(1, 2), Fraction(1, 2)] if rng.random() < 0.5 else [Fraction(3, 4), Fraction(1, 4)]
            else:
                epgc = [Fraction(1, 2), Fraction(1, 4), Fraction(1, 4)] if rng.random() < 0.6 else \
                    [Fraction(1, 4), Fraction(1, 4), Fraction(1, 2)]

            def tensor(depth):
                if depth == 0:       # asymmetric variance tensor: perfect squares / 16, one per trait; now and then a
                    # vanishing variance that rounding left below zero (-2^-60): it counts as 0 (repair dbcebcc2)
                    return [canon.enc(Fraction(-1, 2 ** 60) if rng.random() < 0.05 else Fraction(rng.randint(0, 9) ** 2, 16))
                            for _ in range(t)]
                return [tensor(depth - 1) for _ in range(n)]
            case.update(crit="UC", enc=rng.choice(encs), unique_parents=uniq, via_xmap=rng.random() < 0.4,
                        upper_percentile=canon.enc(rng.choice([Fraction(1, 10), Fraction(1, 4), Fraction(1, 2)])),
                        design=design, nparent=npar, epgc=[canon.enc(v) for v in epgc],
                        vmat=tensor(npar) if design != "real3" else None)
            if design != "real3":
                # mating design numbers the factory must hand to the variance factory unchanged
                case["vargs"] = {"ncross": rng.choice([1, 2, 3]), "nprogeny": rng.choice([5, 10, 40]),
                                 "nself": rng.choice([0, 1, 2])}
            nx = len(_xmap_py(n, npar, uniq))
            if nx == 0:              # fewer taxa than parents with unique parents: allow selfs
                case["unique_parents"] = uniq = False
                nx = len(_xmap_py(n, npar, uniq))
            case["decn"] = decide(rng, case["enc"], nx)
        elif fac == "ohv":
            pop["phased"] = True
            uniq = rng.random() < 0.5
            nchr = len(set(pop["chrgrp"]))
            npar = rng.choice([2, 2, 2, 3, 3, 1])
            if len(_xmap_py(n, npar, uniq)) == 0:
                uniq = False
            case.update(crit="OHV", enc=rng.choice(encs), unique_parents=uniq, nparent=npar,
                        nhaploblk=rng.randint(nchr, max(nchr, min(3, len(pop["u"]) - 1))))
            nx = len(_xmap_py(n, npar, uniq))
            case["decn"] = decide(rng, case["enc"], nx)
        elif fac == "gb":
            pop["phased"] = True
            nchr = len(set(pop["chrgrp"]))
            nbest = rng.randint(1, n)
            case.update(crit="GB", enc="subset", nhaploblk=rng.randint(nchr, max(nchr, min(3, len(pop["u"]) - 1))),
                        nbest=nbest)
            case["decn"] = rng.sample(range(n), rng.randint(nbest, n))
        elif fac == "opv":
            pop["phased"] = True
            nchr = len(set(pop["chrgrp"]))
            case.update(crit="OPV", enc="subset", nhaploblk=rng.randint(nchr, max(nchr, min(3, len(pop["u"]) - 1))))
            case["decn"] = decide(rng, "subset", n)
        elif fac == "embv":
            pop["phased"] = True
            t = len(pop["u"][0])
            uniq = rng.random() < 0.5
            nrep = rng.randint(1, 3)
            npar = rng.choice([2, 2, 3, 1])
            if len(_xmap_py(n, npar, uniq)) == 0:
                uniq = False
            nx = len(_xmap_py(n, npar, uniq))
            case["margs"] = {"nmating": rng.choice([1, 2, 3]), "nprogeny": rng.choice([3, 5, 8])}
            case.update(crit="EMBV", enc=rng.choice(encs), unique_parents=uniq, nrep=nrep, nparent=npar,
                        tmaxs=[[[canon.enc(Fraction(rng.randint(-20, 40), 4)) for _ in range(t)] for _ in range(nrep)]
                               for _ in range(nx)])
            case["decn"] = decide(rng, case["enc"], nx)
    elif fac == "random_object":
        n, t = rng.randint(2, 6), rng.randint(1, 3)
        case.update(crit="RANDOM", enc=rng.choice(encs),
                    draws=[[c05._val(rng) for _ in range(t)] for _ in range(n)])
        case["decn"] = decide(rng, case["enc"], n)
    else:
        raise ValueError(fac)
    return case


def _xmap_py(n, k, uniq):
    out = []

    def rec(l):
        if len(l) == k:
            out.append(list(l))
            return
        st = (l[-1] + (1 if uniq else 0)) if l else 0
        for i in range(st, n):
            rec(l + [i])
    rec([])
    return out


def corpus():
    """boundary cases, including the triggering cases of the repaired defects D51-D54 (regression cases)"""
    pop = {"geno": [[[1, 0, 1, 0], [1, 0, 0, 1], [1, 0, 1, 1]], [[1, 0, 0, 0], [1, 0, 1, 1], [1, 0, 1, 0]]],
           "taxa_grp": [7, 3, 7], "chrgrp": [1, 1, 2, 2], "genpos": ["1/8", "1/4", "1/8", "1/2"],
           "u": [[1, -2], [2, 1], [-1, 3], [4, -1]], "beta": [10, 20], "phased": True}
    out = [
        # regression D52 (fixed 29072ea8): weighted-genomic factory on a phased genotype matrix
        {"kind": "factory", "factory": "wgebv_gmat", "crit": "WGEBV", "enc": "subset", "alpha": "1/2",
         "pop": dict(pop, geno=[[[1, 0, 1, 0], [0, 1, 0, 1], [1, 1, 1, 1]], [[0, 1, 0, 0], [1, 0, 1, 1], [0, 1, 1, 0]]]),
         "decn": [0, 2]},
        # regression D51 (fixed defea8b1): favourable allele absent (locus 0 fixed, u < 0 for trait 1)
        {"kind": "factory", "factory": "wgebv_gmat", "crit": "WGEBV", "enc": "real", "alpha": "1/2",
         "pop": dict(pop, phased=False), "decn": ["1/2", 0, "1/2"]},
        {"kind": "factory", "factory": "wgebv_numpy", "crit": "WGEBV", "enc": "subset", "alpha": "1/2",
         "Z": [[2, 1], [2, 0], [2, 2]], "u": [[-1], [2]], "fafreq": [[0], ["1/4"]], "decn": [1, 2]},
        {"kind": "factory", "factory": "wgebv_numpy", "crit": "GWGEBV", "enc": "subset", "alpha": "1/2",
         "Z": [[2, 1], [2, 0], [2, 2]], "u": [[-1], [2]], "fafreq": [[0], ["1/4"]], "decn": [1, 2]},
        # regression D53 (fixed c257d2a4): L2 factory with the documented (p,t) weight / frequency matrices
        {"kind": "factory", "factory": "l2_gmat", "crit": "L2", "enc": "subset", "pop": pop,
         "mkrwt": [[1, 2], [2, 1], [1, 1], [3, 1]], "afreq": [["1/2", "1/4"], ["1/2", "1/2"], ["1/4", "1/2"], ["1/2", "3/4"]],
         "decn": [0, 1]},
        # regression D54 (fixed 2fe3bbf4): locus 0 is fixed for the allele that is favourable for trait 0 (fafreq == 1)
        {"kind": "factory", "factory": "wgebvmat", "crit": "WGEBVMAT", "enc": "subset", "decn": [0], "pop": pop},
        {"kind": "factory", "factory": "embvmat", "crit": "EMBVMAT", "enc": "subset", "decn": [0], "pop": pop, "nrep": 2,
         "nprogeny": 3, "prog": [[[[1, 2], [0, 1], [1, 0]], [[3, 6], [2, 5], [3, 0]]], [[[5, 1], [4, 1], [0, 0]], [[9, 3], [1, 3], [2, 2]]],
                                 [[[-2, 0], [-3, -1], [-2, -4]], [[4, 8], [4, 7], [1, 8]]]]},
        # per-taxon replicate / progeny counts with unequal entries (the rarely used array form of both arguments)
        {"kind": "factory", "factory": "embvmat", "crit": "EMBVMAT", "enc": "subset", "decn": [0], "pop": pop,
         "nrep": [3, 1, 2], "nprogeny": [2, 3, 1],
         "prog": [[[[1, 2], [0, 7]], [[3, 6], [2, 5]], [[-4, 0], [8, 1]]], [[[5, 1], [4, 1], [0, 9]]], [[[-2, 0]], [[4, 8]]]]},
        # fully homozygous lines, real doubled-haploid simulation: EMBV = GEBV deterministically
        {"kind": "factory", "factory": "embvmat_real", "crit": "EMBVMAT", "enc": "subset", "decn": [0], "seed": 7,
         "pop": dict(pop, geno=[pop["geno"][0], pop["geno"][0]]), "nrep": [4, 1, 3], "nprogeny": [2, 3, 1]},
        # three-way usefulness criterion: real variance factory, genome contributions 1/2, 1/4, 1/4
        {"kind": "factory", "factory": "uc", "crit": "UC", "enc": "real", "pop": pop, "unique_parents": False,
         "via_xmap": False, "upper_percentile": "1/10", "design": "real3", "nparent": 3, "epgc": ["1/2", "1/4", "1/4"],
         "vmat": None, "decn": ["1/2", 0, "1/4", 0, 0, "1/4", 0, 0, 0, 0]},
        {"kind": "factory", "factory": "embv", "crit": "EMBV", "enc": "subset", "pop": pop, "unique_parents": True,
         "nrep": 2, "tmaxs": [[[1, 2], [3, 6]], [[5, 1], [9, 3]], [[-2, 0], [4, 8]]], "decn": [2, 0]},
        {"kind": "factory", "factory": "bvmat", "crit": "EBV", "enc": "subset", "unscale": True,
         "bv": {"mat": [[1, -1], [0, 2], ["1/2", 3]], "location": [10, 20], "scale": [2, "1/2"], "taxa_grp": [1, 1, 2]},
         "decn": [2, 0]},
    ]
    import random
    rng = random.Random(50505)
    # cross maps past the hard-coded memory chunk of _calc_ohvmat (mem = 1024 rows): 47 candidates give 1081 two-way
    # crosses with unique parents, 45 give 1035 with selfs; the selection includes crosses of the second chunk
    for n, uniq, enc in ((47, True, "subset"), (45, False, "real")):
        big = gen_pop(rng, n=n, p=4, t=1, nchr=1)
        big["phased"] = True
        nx = len(_xmap_py(n, 2, uniq))
        sel = [nx - 1, 1030, 3, 1024]
        decn = sel if enc == "subset" else [("1/4" if i in sel else 0) for i in range(nx)]
        out.append({"kind": "factory", "factory": "ohv", "crit": "OHV", "enc": enc, "pop": big, "unique_parents": uniq,
                    "nparent": 2, "nhaploblk": 2, "decn": decn})
    # explicit chunk sizes through the static method: several chunks, a last partial chunk, chunk = 1, no chunking
    H = [[[[1, 5], [2, 0]], [[3, 1], [0, 4]], [[2, 2], [7, 1]]], [[[0, 6], [1, 1]], [[4, 0], [2, 2]], [[1, 3], [0, 9]]]]
    xm = [[0, 1], [2, 2], [1, 0], [0, 2], [1, 2], [1, 1], [2, 0]]
    for mem in (1, 2, 3, 7, None):
        out.append({"kind": "factory", "factory": "ohvmat_direct", "crit": "OHV", "enc": "subset", "decn": [0], "H": H,
                    "xmap": xm, "mem": mem})
    # history: the same GenotypeMatrix / factory objects used twice with an in-place re-ordering in between
    # (a kinship factor remembered from the first call would be in the old taxon order)
    hp = dict(pop, geno=[[[1, 0, 1, 0], [0, 1, 0, 1], [1, 1, 1, 0]], [[1, 0, 0, 0], [1, 0, 1, 1], [0, 1, 1, 0]]],
              taxa=[5, 9, 2], taxa_grp=[7, 3, 7])
    for crit, h in (("OCS", {"op": "reorder", "perm": [2, 0, 1]}), ("OCS", {"op": "sort"}), ("MGR", {"op": "group"}),
                    ("MEH", {"op": "assign_mat", "geno": [[[0, 1, 1, 0], [1, 1, 0, 1], [1, 0, 1, 0]],
                                                         [[1, 0, 0, 1], [1, 0, 1, 1], [0, 1, 1, 1]]]})):
        out.append({"kind": "factory", "factory": "cmat", "crit": crit, "enc": "subset", "cmatfcty": "molecular",
                    "unscale": True, "pop": hp, "decn": [0, 2], "history": h})
    # regression dbcebcc2: a vanishing progeny variance that rounding left below zero (-2^-60) counts as 0 -- before the
    # repair numpy.sqrt made the usefulness criterion of that cross (and every objective computed from it) NaN
    import random as _random
    _rng = _random.Random(20260930)
    for _ in range(200):
        c = _gen_case(_rng, "uc")
        if c.get("design") == "stub2":
            break
    def _neg(cell, depth):
        return [canon.enc(Fraction(-1, 2 ** 60))] * len(cell) if depth == 0 else [_neg(x, depth - 1) for x in cell]
    c["vmat"] = [[(_neg(c["vmat"][a][b], 0) if (a + b) % 2 == 0 else c["vmat"][a][b]) for b in range(len(c["vmat"][a]))]
                 for a in range(len(c["vmat"]))]
    out_extra = [c]
    return out + out_extra


# --------------------------------------------------------------------------------------------
# implementation side
# --------------------------------------------------------------------------------------------
def make_bvmat(bv):
    compat.import_pybrops()
    from pybrops.popgen.bvmat.DenseBreedingValueMatrix import DenseBreedingValueMatrix
    mat = numpy.array([[_f(v) for v in r] for r in bv["mat"]])
    n, t = mat.shape
    lab = bv.get("labels", True)          # False: the optional label fields are None
    return DenseBreedingValueMatrix(mat=mat, location=numpy.array([_f(v) for v in bv["location"]]),
                                    scale=numpy.array([_f(v) for v in bv["scale"]]),
                                    taxa=numpy.array([f"tx{i:02d}" for i in range(n)], dtype=object) if lab else None,
                                    taxa_grp=numpy.array(bv["taxa_grp"], dtype="int64") if lab else None,
                                    trait=numpy.array([f"y{j}" for j in range(t)], dtype=object) if lab else None)


@contextlib.contextmanager
def _patched(obj, name, new):
    old = getattr(obj, name)
    setattr(obj, name, new)
    try:
        yield
    finally:
        setattr(obj, name, old)


def _tofloat(a):
    return [_tofloat(v) for v in a] if isinstance(a, list) else _f(a)


def _latent(p, enc, decn):
    c05 = _c05()
    lat = _enc(p.latentfn(c05.decision(enc, decn)))
    if _CFG[0] is not None and _REG:
        # the declaration this problem was built with: the registered one whose spy functions it holds
        # (the latest one when a factory lost all three)
        reg = _REG[-1]
        for cand in _REG:
            if any(getattr(p, r + "_trans", None) is cand[2][r] and cand[2][r] is not None for r in ("obj", "ineqcv", "eqcv")):
                reg = cand
        eff, logs, _ = reg
        for r in logs:
            logs[r].clear()
        x = c05.decision(enc, decn)
        o, g, h = p.evalfn(x)
        _ROWS.append((eff, decn, {"latent": lat, "obj": _enc(o), "ineqcv": _enc(g), "eqcv": _enc(h),
                                  "calls": {r: list(logs[r]) for r in logs}}))
    return lat


HISTORY_FACTORIES = ("bvmat", "family_bvmat", "wgebv_gmat", "gebv_gmat", "mogs_gmat", "cmat", "l2_gmat", "uc", "ohv", "opv",
                     "gb", "wgebvmat")


def gen_history(rng, case, want=None):
    """a history step for a factory case: the population objects are mutated in place between two factory calls.
    `want`: "reorder" | "assign_mat" (otherwise drawn)"""
    fac = case["factory"]
    if fac in ("bvmat", "family_bvmat"):
        n = len(case["bv"]["mat"])
        t = len(case["bv"]["mat"][0])
        if (want == "reorder" or (want is None and rng.random() < 0.7)) and n > 1:
            perm = list(range(n))
            while perm == list(range(n)):
                rng.shuffle(perm)
            return {"op": "reorder", "perm": perm}
        c05 = _c05()
        return {"op": "assign_mat", "mat": [[c05._val(rng) for _ in range(t)] for _ in range(n)]}
    pop = case["pop"]
    n = len(pop["geno"][0])
    r = rng.random()
    if want == "reorder":
        r = 0.0
    elif want == "assign_mat":
        r = 0.8
    if r < 0.45 and n > 1:
        perm = list(range(n))
        while perm == list(range(n)):
            rng.shuffle(perm)
        return {"op": "reorder", "perm": perm}
    if r < 0.7:
        return {"op": rng.choice(["sort", "group"])}
    if r < 0.88:
        q = gen_pop(rng, n=n, p=len(pop["u"]), t=len(pop["u"][0]), nchr=1)
        geno = q["geno"]
        while len(geno) < len(pop["geno"]):
            geno = geno + q["geno"]
        return {"op": "assign_mat", "geno": geno[:len(pop["geno"])]}
    q = gen_pop(rng, n=n, p=len(pop["u"]), t=len(pop["u"][0]), nchr=1)
    return {"op": "assign_u", "u": q["u"]}


def run(case):
    _CFG[0] = case.get("evalcfg")
    del _REG[:]
    del _ROWS[:]
    try:
        obs = _run_hist(case)
        if _CFG[0] is not None and isinstance(obs, dict):
            obs["evalrows"] = [{"cfg": eff, "x": x, "row": row} for eff, x, row in _ROWS]
        return obs
    finally:
        _CFG[0] = None
        del _REG[:]
        del _ROWS[:]


def _run_hist(case):
    """`history`: build once (primes whatever the code may remember about these objects), mutate the population
    objects in place, build again from the same objects; the second problem is the one that is judged"""
    if "history" not in case:
        return _run(case, {})
    pool = {}
    before = {k: v for k, v in case.items() if k != "history"}
    state = numpy.random.get_state()
    try:
        obs0 = _run(before, pool)
    finally:
        numpy.random.set_state(state)
    if "skipped" in obs0:
        return obs0
    apply_history(case["history"], pool)
    del _REG[:]
    del _ROWS[:]
    obs = _run(effective(case), pool)
    return obs


def _run(case, pool):
    c05 = _c05()
    compat.import_pybrops()
    fac, crit, enc = case["factory"], case["crit"], case["enc"]
    if fac in ("wgebvmat", "embvmat", "embvmat_real"):
        return run_matrix_factory(case, pool)
    if fac == "ohvmat_direct":
        return run_ohvmat_direct(case)
    cls = cls_of(crit, enc)
    decn = case["decn"]
    k = len(decn)
    obs = {}

    if fac in ("bvmat", "family_bvmat"):
        bvmat = pool["bvmat"] if "bvmat" in pool else pool.setdefault("bvmat", make_bvmat(case["bv"]))
        n, t = bvmat.mat.shape
        if fac == "bvmat":
            p = cls.from_bvmat(bvmat=bvmat, unscale=case["unscale"], **std_kwargs(enc, n, k, t))
            obs["data"] = _enc(getattr(p, c05.CRITS[crit]["attr"]))
        else:
            nf = len(set(case["bv"]["taxa_grp"]))
            p = cls.from_bvmat(bvmat=bvmat, **std_kwargs(enc, n, k, t + nf))
            obs["data"] = _enc(p.ebv)
            obs["familyid"] = [int(v) for v in p.familyid]
        obs["latent"] = _latent(p, enc, decn)
        return obs

    if fac == "l1_numpy":
        mk, ta, tf = (numpy.array([[_f(v) for v in r] for r in case[key]]) for key in ("mkrwt", "tafreq", "tfreq"))
        n = ta.shape[0]
        p = cls.from_numpy(mkrwt=mk, tafreq=ta, tfreq=tf, **std_kwargs(enc, n, k, mk.shape[1]))
        obs["V"] = _enc(p.V)
        obs["latent"] = _latent(p, enc, decn)
        return obs

    if fac == "wgebv_numpy":
        Z = numpy.array(case["Z"], dtype="int8")
        u = numpy.array([[_f(v) for v in r] for r in case["u"]])
        ff = numpy.array([[_f(v) for v in r] for r in case["fafreq"]])
        kw = std_kwargs(enc, Z.shape[0], k, u.shape[1])
        if crit == "GWGEBV":
            kw["alpha"] = _f(case["alpha"])
        ff0 = ff.copy()
        p = cls.from_numpy(Z_a=Z, u_a=u, fafreq=ff, **kw)
        obs["data"] = _enc(p.gwgebv)
        obs["fafreq_untouched"] = bool((ff0 == ff).all())
        obs["latent"] = _latent(p, enc, decn)
        return obs

    if fac == "random_object":
        mod = importlib.import_module(PKG + "RandomSelectionProblem")
        draws = numpy.array([[_f(v) for v in r] for r in case["draws"]])
        calls = []

        class Scripted:
            """scripted generator: whichever standard-normal primitive is asked for gets the scripted draws"""
            def multivariate_normal(self, mean, cov, size=None, **kw):
                calls.append({"how": "mvn", "mean": _enc(mean), "cov": _enc(cov),
                              "size": [int(v) for v in numpy.atleast_1d(size)]})
                return draws.copy()

            def standard_normal(self, size=None, **kw):
                calls.append({"how": "std", "size": [int(v) for v in numpy.atleast_1d(size)]})
                return draws.copy().reshape(size)

            def normal(self, loc=0.0, scale=1.0, size=None, **kw):
                calls.append({"how": "normal", "mean": _enc(numpy.atleast_1d(loc)), "scale": _enc(numpy.atleast_1d(scale)),
                              "size": [int(v) for v in numpy.atleast_1d(size)]})
                return draws.copy().reshape(size)
        n, t = draws.shape
        with _patched(mod, "global_prng", Scripted()):
            p = cls.from_object(ntaxa=n, ntrait=t, **std_kwargs(enc, n, k, t))
        obs["data"] = _enc(p.rbv)
        obs["calls"] = calls
        obs["latent"] = _latent(p, enc, decn)
        return obs

    # ---- factories that start from a genotype matrix
    pop = case["pop"]
    if "gmat" not in pool:
        pool["gmat"] = make_pgmat(pop, phased=pop.get("phased", True))
        pool["gpmod"] = make_gpmod(pop)
    gmat, gpmod = pool["gmat"], pool["gpmod"]
    n = gmat.ntaxa
    t = gpmod.ntrait

    if fac == "wgebv_gmat":
        kw = std_kwargs(enc, n, k, t)
        if crit == "GWGEBV":
            kw["alpha"] = _f(case["alpha"])
        obs["fafreq"] = _enc(gpmod.fafreq(gmat))
        p = cls.from_gmat_algpmod(gmat=gmat, algpmod=gpmod, **kw)
        obs["data"] = _enc(p.gwgebv)
        obs["latent"] = _latent(p, enc, decn)
        return obs

    if fac == "gebv_gmat":
        rec = []
        orig = gpmod.gebv

        def spy(*a, **kw):
            out = orig(*a, **kw)
            rec.append(out)
            return out
        with _patched(gpmod, "gebv", spy):
            p = cls.from_gmat_gpmod(gmat=gmat, gpmod=gpmod, unscale=case["unscale"], **std_kwargs(enc, n, k, t))
        obs["data"] = _enc(p.gebv)
        bv = rec[0]
        obs["bv"] = {"mat": _enc(bv.mat), "location": _enc(bv.location), "scale": _enc(bv.scale)}
        obs["latent"] = _latent(p, enc, decn)
        return obs

    if fac == "mogs_gmat":
        u = gpmod.u_a
        weight = (lambda ua: numpy.absolute(ua)) if case["weight"] == "abs_u" else \
            numpy.array([[_f(v) for v in r] for r in case["mkrwt"]])
        target = (lambda ua: (ua > 0.0).astype(float)) if case["target"] == "sign_u" else \
            numpy.array([[_f(v) for v in r] for r in case["tfreq"]])
        nobj = 2 * t if crit == "MOGS" else t
        p = cls.from_gmat_gpmod(gmat=gmat, weight=weight, target=target, gpmod=gpmod, **std_kwargs(enc, n, k, nobj))
        obs.update(geno=canon.enc(numpy.asarray(p.geno).astype(int)), ploidy=int(p.ploidy), mkrwt=_enc(p.mkrwt),
                   tfreq=_enc(p.tfreq), u=_enc(u))
        obs["latent"] = _latent(p, enc, decn)
        return obs

    if fac in ("cmat", "l2_gmat"):
        if fac == "cmat":
            if case["cmatfcty"] == "molecular":
                from pybrops.popgen.cmat.fcty.DenseMolecularCoancestryMatrixFactory import \
                    DenseMolecularCoancestryMatrixFactory as Fcty
            else:
                from pybrops.popgen.cmat.fcty.DenseVanRadenCoancestryMatrixFactory import \
                    DenseVanRadenCoancestryMatrixFactory as Fcty
        else:
            from pybrops.popgen.cmat.fcty.DenseGeneralizedWeightedCoancestryMatrixFactory import \
                DenseGeneralizedWeightedCoancestryMatrixFactory as Fcty
        if "fcty" not in pool:
            class Spy(Fcty):
                made = []

                def from_gmat(self, gmat, **kw):
                    G = super().from_gmat(gmat, **kw)
                    self.made.append(G)
                    return G
            pool["fcty"] = Spy()
        fcty = pool["fcty"]
        made = fcty.made
        made.clear()
        if fac == "cmat":
            G0 = Fcty().from_gmat(gmat)
            if not numpy.isfinite(G0.mat).all():
                # e.g. VanRaden's matrix of a population without any segregating marker (C13's subject)
                return {"skipped": "coancestry matrix of this population is not finite"}
        state = numpy.random.get_state()
        numpy.random.seed(12345)      # apply_jitter draws from the global numpy stream
        try:
            if fac == "cmat":
                if crit == "OCS":
                    bvmat = gpmod.gebv(gmat)
                    p = cls.from_bvmat_gmat(bvmat=bvmat, gmat=gmat, cmatfcty=fcty, unscale=case["unscale"],
                                            **std_kwargs(enc, n, k, 1 + t))
                    obs["ebv"] = _enc(p.ebv)
                    obs["bv"] = {"mat": _enc(bvmat.mat), "location": _enc(bvmat.location), "scale": _enc(bvmat.scale)}
                else:
                    p = cls.from_gmat(gmat=gmat, cmatfcty=fcty, **std_kwargs(enc, n, k, 1))
            else:
                mk = numpy.array([[_f(v) for v in r] for r in case["mkrwt"]])
                af = numpy.array([[_f(v) for v in r] for r in case["afreq"]])
                p = cls.from_gmat(gmat=gmat, cmatfcty=fcty, mkrwt=mk, afreq=af, **std_kwargs(enc, n, k, mk.shape[1]))
        finally:
            numpy.random.set_state(state)
        obs["C"] = _enc(p.C)
        obs["K"] = [_enc(G.mat_asformat("kinship")) for G in made]
        obs["latent"] = _latent(p, enc, decn)
        return obs

    if fac == "uc":
        from pybrops.model.vmat.fcty.GeneticVarianceMatrixFactory import GeneticVarianceMatrixFactory
        from pybrops.popgen.gmap.HaldaneMapFunction import HaldaneMapFunction
        design = case.get("design", "stub2")
        npar = case.get("nparent", 2)
        seen = {}
        made = []

        class VObj:
            pass
        if design == "real3":
            from pybrops.model.vmat.fcty.DenseThreeWayDHAdditiveGeneticVarianceMatrixFactory import \
                DenseThreeWayDHAdditiveGeneticVarianceMatrixFactory as Real3

            class Fcty(Real3):
                def from_gmod(self, gmod, pgmat, ncross, nprogeny, nself, gmapfn, **kw):
                    seen.update(ncross=ncross, nprogeny=nprogeny, nself=nself, same_pgmat=pgmat is gmat,
                                same_gmod=gmod is gpmod)
                    o = super().from_gmod(gmod=gmod, pgmat=pgmat, ncross=ncross, nprogeny=nprogeny, nself=nself,
                                          gmapfn=gmapfn, **kw)
                    made.append(o)
                    return o
        else:
            vm = numpy.array(_tofloat(case["vmat"]))
            epgc = tuple(_f(v) for v in case["epgc"])

            class Fcty(GeneticVarianceMatrixFactory):
                def from_gmod(self, gmod, pgmat, ncross, nprogeny, nself, gmapfn, **kw):
                    seen.update(ncross=ncross, nprogeny=nprogeny, nself=nself, same_pgmat=pgmat is gmat,
                                same_gmod=gmod is gpmod)
                    o = VObj()
                    o.mat = vm
                    o.epgc = epgc
                    made.append(o)
                    return o
        uniq = case["unique_parents"]
        xm = numpy.array(_xmap_py(n, npar, uniq), dtype="int64")
        args = case.get("vargs", {"ncross": 1, "nprogeny": 10, "nself": 0})
        kw = dict(nparent=npar, ncross=args["ncross"], nprogeny=args["nprogeny"], nself=args["nself"],
                  upper_percentile=_f(case["upper_percentile"]),
                  vmatfcty=Fcty(), gmapfn=HaldaneMapFunction(), unique_parents=uniq, pgmat=gmat, gpmod=gpmod,
                  **std_kwargs(enc, len(xm), k, t))
        if case["via_xmap"]:
            # a user-supplied cross map in a different order
            xm = xm[::-1].copy()
            p = cls.from_pgmat_gpmod_xmap(xmap=xm, **kw)
        else:
            p = cls.from_pgmat_gpmod(**kw)
        import scipy.stats
        up = _f(case["upper_percentile"])
        vobj = made[0]
        obs.update(ucmat=_enc(p.ucmat), xmap=canon.enc(numpy.asarray(p.decn_space_xmap).astype(int)), seen=seen,
                   intensity=canon.enc(float(scipy.stats.norm.pdf(scipy.stats.norm.ppf(1.0 - up)) / up)),
                   xmap_given=canon.enc(xm.astype(int)), epgc=_enc(numpy.array(vobj.epgc, dtype=float)),
                   pvar=[_enc(numpy.asarray(vobj.mat)[tuple(int(v) for v in cc)]) for cc in xm])
        obs["latent"] = _latent(p, enc, decn)
        return obs

    if fac in ("ohv", "opv", "gb"):
        mod = importlib.import_module(PKG + c05.CRITS[crit]["module"])
        bounds = []
        orig = mod.haplobin_bounds

        def spy(hbin):
            out = orig(hbin)
            bounds.append([[int(a), int(b)] for a, b in zip(out[0], out[1])])
            return out
        with _patched(mod, "haplobin_bounds", spy):
            if fac == "ohv":
                uniq = case["unique_parents"]
                npar = case.get("nparent", 2)
                nx = len(_xmap_py(n, npar, uniq))
                p = cls.from_pgmat_gpmod(nparent=npar, nhaploblk=case["nhaploblk"], unique_parents=uniq, pgmat=gmat,
                                         gpmod=gpmod, **std_kwargs(enc, nx, k, t))
                obs.update(ohvmat=_enc(p.ohvmat), xmap=canon.enc(numpy.asarray(p.decn_space_xmap).astype(int)))
            elif fac == "gb":
                p = cls.from_pgmat_gpmod(pgmat=gmat, gpmod=gpmod, nhaploblk=case["nhaploblk"], nbestfndr=case["nbest"],
                                         **std_kwargs(enc, n, k, t))
                obs["haplomat"] = _enc(p.haplomat)
                obs["nbest"] = int(p.nbestfndr)
            else:
                p = cls.from_pgmat_gpmod(nhaploblk=case["nhaploblk"], pgmat=gmat, gpmod=gpmod, **std_kwargs(enc, n, k, t))
                obs["haplomat"] = _enc(p.haplomat)
        obs["bounds"] = bounds[0]
        if len(bounds[0]) != case["nhaploblk"]:
            # an equal-width bin without marker: fewer blocks than requested and uninitialised block values.
            # That is finding D10 of property C18 (haplotype binning); such layouts are outside this check.
            return {"skipped": "D10 (C18): haplobin produced %d blocks for nhaploblk=%d" % (len(bounds[0]), case["nhaploblk"])}
        obs["latent"] = _latent(p, enc, decn)
        return obs

    if fac == "embv":
        from pybrops.breed.prot.mate.MatingProtocol import MatingProtocol
        tm = case["tmaxs"]
        uniq = case["unique_parents"]
        npar = case.get("nparent", 2)
        xm = _xmap_py(n, npar, uniq)
        log = []

        class Progeny:
            def __init__(self, cross, rep):
                self.cross, self.rep = cross, rep

        class StubMate(MatingProtocol):
            nparent = 2

            def __init__(self):
                self.count = {}

            def mate(self, pgmat, xconfig, nmating, nprogeny, miscout, **kw):
                key = tuple(int(v) for v in numpy.asarray(xconfig).ravel())
                ci = xm.index(list(key))
                r = self.count.get(ci, 0)
                self.count[ci] = r + 1
                log.append({"cross": ci, "shape": list(numpy.asarray(xconfig).shape), "nmating": int(nmating),
                            "nprogeny": int(nprogeny)})
                return Progeny(ci, r)

        class BV:
            def __init__(self, v):
                self.v = v

            def tmax(self, unscale=False):
                return numpy.array(self.v, dtype=float) if unscale else numpy.array(self.v, dtype=float) * 0.0 - 999.0
        orig = gpmod.gebv

        def fake_gebv(g, *a, **kw):
            if isinstance(g, Progeny):
                return BV([_f(v) for v in tm[g.cross][g.rep]])
            return orig(g, *a, **kw)
        with _patched(gpmod, "gebv", fake_gebv):
            ma = case.get("margs", {"nmating": 1, "nprogeny": 5})
            p = cls.from_pgmat_gpmod(nparent=npar, nmating=ma["nmating"], nprogeny=ma["nprogeny"], nrep=case["nrep"],
                                     unique_parents=uniq,
                                     pgmat=gmat, gpmod=gpmod, mateprot=StubMate(), **std_kwargs(enc, len(xm), k, t))
        obs.update(embv=_enc(p.embv), xmap=canon.enc(numpy.asarray(p.decn_space_xmap).astype(int)), log=log)
        obs["latent"] = _latent(p, enc, decn)
        return obs

    raise ValueError(fac)


def guard_zero(ff):
    """tmp = fafreq.copy(); tmp[tmp == 0.0] = 1.0 (harness-side mirror, compared with the model's guardZero)"""
    return [[canon.enc(Fraction(1) if Fraction(v) == 0 else Fraction(v)) for v in r] for r in ff]


def wgebv_weight(ff):
    """the marker weight (asin 1 - asin sqrt p) / sqrt(p (1 - p)) of the wGEBV matrix with weight 1 at
    p == 0 (convention) and p == 1 (limit): from_algmod after repair 2fe3bbf4"""
    ff = numpy.array(ff, dtype=float)
    with numpy.errstate(all="ignore"):
        mask = (ff == 0.0) | (ff == 1.0)
        numer = numpy.arcsin(1.0) - numpy.arcsin(numpy.sqrt(ff))
        pq = ff * (1.0 - ff)
        pq[mask] = 1.0
        w = numer * numpy.power(pq, -0.5)
        w[mask] = 1.0
    return w


def per_taxon(v, n):
    """an Integral or a per-taxon list -> (argument handed to the code, per-taxon list)"""
    if isinstance(v, list):
        return numpy.array(v, dtype="int64"), [int(x) for x in v]
    return int(v), [int(v)] * n


def run_matrix_factory(case, pool=None):
    """the two breeding-value-matrix factories anchored by the property"""
    compat.import_pybrops()
    pool = {} if pool is None else pool
    pop = case["pop"]
    if "gmat" not in pool:
        pool["gmat"] = make_pgmat(pop, phased=pop.get("phased", True))
        pool["gpmod"] = make_gpmod(pop)
    gmat, gpmod = pool["gmat"], pool["gpmod"]
    if case["factory"] == "wgebvmat":
        from pybrops.model.wgebvmat.DenseWeightedGenomicEstimatedBreedingValueMatrix import \
            DenseWeightedGenomicEstimatedBreedingValueMatrix as W
        ff = gpmod.fafreq(gmat)
        w = W.from_algmod(gpmod, gmat)
        with numpy.errstate(all="ignore"):
            un = w.unscale()
        return {"fafreq": _enc(ff), "unscaled": _enc(un), "taxa": [str(v) for v in w.taxa],
                "taxa_grp": [int(v) for v in w.taxa_grp]}
    mod = importlib.import_module("pybrops.model.embvmat.DenseExpectedMaximumBreedingValueMatrix")
    n = gmat.ntaxa
    nrep_arg, nrep = per_taxon(case["nrep"], n)
    npro_arg, npro = per_taxon(case["nprogeny"], n)
    if case["factory"] == "embvmat_real":
        # the real doubled-haploid simulation and the real prediction, from a seeded generator
        with _patched(mod, "global_prng", numpy.random.default_rng(int(case["seed"]))):
            e = mod.DenseExpectedMaximumBreedingValueMatrix.from_gmod(gpmod, gmat, nprogeny=npro_arg, nrep=nrep_arg)
        return {"unscaled": _enc(e.unscale()), "taxa": [str(v) for v in e.taxa], "taxa_grp": [int(v) for v in e.taxa_grp]}
    from pybrops.popgen.bvmat.DenseBreedingValueMatrix import DenseBreedingValueMatrix
    prog = case["prog"]
    log = []
    counter = {}

    def fake_dh(geno, sel, xoprob, rng_):
        sel = [int(v) for v in numpy.asarray(sel)]
        i = sel[0]
        r = counter.get(i, 0)
        counter[i] = r + 1
        log.append({"taxon": i, "nprogeny": len(sel), "same_parent": len(set(sel)) == 1})
        out = numpy.zeros((geno.shape[0], len(sel), geno.shape[2]), dtype=geno.dtype)
        out[0, 0, 0] = 1 if (i * 7 + r) % 2 else 0
        fake_dh.last = (i, r)
        return out

    def fake_gebv(g, *a, **kw):
        # the scripted breeding values of the simulated progeny, in a real breeding-value matrix (location 0, scale 1):
        # `tmax(unscale=True)` of the real class is what the factory calls
        i, r = fake_dh.last
        vals = numpy.array(_tofloat(prog[i][r]), dtype=float)
        t = vals.shape[1]
        return DenseBreedingValueMatrix(mat=vals, location=numpy.zeros(t), scale=numpy.ones(t), taxa=None, taxa_grp=None,
                                        trait=None)
    with _patched(mod, "dense_dh", fake_dh), _patched(gpmod, "gebv", fake_gebv):
        e = mod.DenseExpectedMaximumBreedingValueMatrix.from_gmod(gpmod, gmat, nprogeny=npro_arg, nrep=nrep_arg)
    return {"unscaled": _enc(e.unscale()), "taxa": [str(v) for v in e.taxa], "taxa_grp": [int(v) for v in e.taxa_grp],
            "log": log}


def run_ohvmat_direct(case):
    """`_calc_ohvmat` called directly (the static method every OHV class inherits) with an explicit chunk size"""
    mod = importlib.import_module(PKG + "OptimalHaploidValueSelectionProblem")
    c05 = _c05()
    H = c05.relayout(numpy.array(_tofloat(case["H"]), dtype=float), case.get("layout"))
    xm = numpy.array(case["xmap"], dtype="int64")
    H0, x0 = H.copy(), xm.copy()
    cls = getattr(mod, "OptimalHaploidValue" + case["enc"].capitalize() + "SelectionProblem")
    out = cls._calc_ohvmat(len(case["H"]), H, xm, case["mem"])
    return {"ohvmat": _enc(out), "untouched": bool((H0 == H).all() and (x0 == xm).all())}


# --------------------------------------------------------------------------------------------
# model requests
# --------------------------------------------------------------------------------------------
def _pw(fafreq, alpha):
    """numpy.power(tmp, -alpha) on the guarded frequencies, as exact rationals (numpy.power is trusted)"""
    tmp = numpy.array([[_f(v) for v in r] for r in guard_zero(fafreq)])
    return canon.enc(numpy.power(tmp, -_f(alpha)))


def _spec_req(case, crit_json, n):
    sh, supp = shares_of(case["enc"], case["decn"], n)
    return dict(crit_json, op="c05.spec_latent", shares=sh, supp=supp)


def requests(case, obs):
    c05 = _c05()
    case = effective(case)
    fac, crit, enc = case["factory"], case["crit"], case["enc"]
    reqs = []
    if "skipped" in obs:
        return reqs
    lat = obs.get("latent")
    rep = [lat] if lat is not None and _fin(lat) else []

    if fac == "bvmat":
        bv = case["bv"]
        reqs.append({"op": "c05.bvdata", "unscale": case["unscale"], "mat": bv["mat"], "location": bv["location"],
                     "scale": bv["scale"]})
        exp = _expected_bv(bv, case["unscale"])
        reqs.append(dict(_spec_req(case, {"crit": "lin", "guard": True, "D": exp}, len(exp)), reported=rep))
    elif fac == "family_bvmat":
        bv = case["bv"]
        cj = dict(crit="family", D=bv["mat"], **c05._family_index(bv["taxa_grp"]))
        reqs.append(dict(_spec_req(case, cj, len(bv["mat"])), reported=rep))
    elif fac == "l1_numpy":
        reqs.append({"op": "c05.calcV", "mkrwt": case["mkrwt"], "tafreq": case["tafreq"], "tfreq": case["tfreq"]})
    elif fac == "wgebv_numpy":
        reqs.append({"op": "c05.guard", "fafreq": case["fafreq"]})
        reqs.append({"op": "c05.wgebv", "Z": case["Z"], "u": case["u"], "pw": _pw(case["fafreq"], case["alpha"])})
    elif fac == "wgebv_gmat":
        pop = case["pop"]
        reqs.append({"op": "c05.guard", "fafreq": obs["fafreq"]})
        reqs.append({"op": "c05.wgebv", "Z": Zmat(pop), "u": pop["u"], "pw": _pw(obs["fafreq"], case["alpha"])})
    elif fac == "random_object":
        reqs.append(dict(_spec_req(case, {"crit": "lin", "guard": True, "D": case["draws"]}, len(case["draws"])),
                         reported=rep))
    elif fac == "gebv_gmat":
        reqs.append({"op": "c05.bvdata", "unscale": case["unscale"], **obs["bv"]})
        if case["unscale"]:
            exp = gebv_exact(case["pop"])
            reqs.append(dict(_spec_req(case, {"crit": "lin", "guard": True, "D": exp}, len(exp)), reported=rep))
    elif fac == "mogs_gmat":
        pop = case["pop"]
        mk, tf = _mogs_expected(case)
        cj = {"crit": crit.lower(), "geno": Zmat(pop), "ploidy": ploidy_of(pop), "mkrwt": mk, "tfreq": tf}
        reqs.append(dict(_spec_req(case, cj, len(Zmat(pop))), reported=rep))
    elif fac == "cmat":
        reqs.append({"op": "c05.kinship", "method": "mol" if case["cmatfcty"] == "molecular" else "vr",
                     "X": Zmat(case["pop"]), "ploidy": 2})
        if obs["K"]:
            reqs.append({"op": "c05.spec_factor", "C": obs["C"], "K": obs["K"][0]})
        if crit == "OCS":
            exp = gebv_exact(case["pop"]) if case["unscale"] else obs["bv"]["mat"]
            cj = {"crit": "ocs", "C": obs["C"], "D": exp}
        else:
            cj = {"crit": crit.lower(), "C": obs["C"]}
        reqs.append(dict(_spec_req(case, cj, len(obs["C"])), reported=rep))
    elif fac == "l2_gmat":
        for tr in range(len(obs["C"])):
            reqs.append({"op": "c05.kinship", "method": "gw", "X": Zmat(case["pop"]), "ploidy": 2,
                         "w": [r[tr] for r in case["mkrwt"]], "p": [r[tr] for r in case["afreq"]]})
        for Ct, K in zip(obs["C"], obs["K"]):
            reqs.append({"op": "c05.spec_factor", "C": Ct, "K": K})
        reqs.append(dict(_spec_req(case, {"crit": "l2", "C": obs["C"]}, len(obs["C"][0])), reported=rep))
    elif fac == "uc":
        pop = case["pop"]
        n = len(pop["geno"][0])
        reqs.append({"op": "c05.xmap", "ntaxa": n, "nparent": case.get("nparent", 2),
                     "unique_parents": case["unique_parents"]})
        xm = obs["xmap_given"]
        # the variance of each cross as the variance object holds it (C12's subject), its genome contributions
        # from the case (stub) or from the real three-way factory
        reqs.append({"op": "c05.uc", "epgc": obs["epgc"], "bv": gebv_exact(pop), "intensity": obs["intensity"],
                     "xmap": xm, "pvar": obs["pvar"]})
    elif fac in ("ohv", "opv", "gb"):
        pop = case["pop"]
        n = len(pop["geno"][0])
        reqs.append({"op": "c05.haplomat", "mat": pop["geno"], "u": pop["u"], "bounds": obs["bounds"]})
        if fac == "gb" and _fin(obs["haplomat"]):
            # composition: latentfn of the built problem against the definition on the problem's own tensor
            reqs.append(dict(_spec_req(case, {"crit": "gb", "H": obs["haplomat"], "nbest": case["nbest"]}, n), reported=rep))
        if fac == "ohv":
            reqs.append({"op": "c05.xmap", "ntaxa": n, "nparent": case.get("nparent", 2),
                         "unique_parents": case["unique_parents"]})
            if _fin(obs["ohvmat"]):
                # the chunk loop of _calc_ohvmat (mem = 1024 in the factories) on the model's own tensor and cross map
                reqs.append({"op": "c05.ohvmat_chunked", "mat": pop["geno"], "u": pop["u"], "bounds": obs["bounds"],
                             "xmap": obs["xmap"], "mem": 1024})
    elif fac == "embv":
        pop = case["pop"]
        n = len(pop["geno"][0])
        reqs.append({"op": "c05.xmap", "ntaxa": n, "nparent": case.get("nparent", 2),
                     "unique_parents": case["unique_parents"]})
        reqs.append({"op": "c05.embv", "nrep": case["nrep"], "tmaxs": case["tmaxs"], "ntrait": len(pop["u"][0])})
    elif fac == "embvmat":
        n = len(case["pop"]["geno"][0])
        reqs.append({"op": "c05.embvmat", "nrep": per_taxon(case["nrep"], n)[1], "prog": case["prog"],
                     "ntrait": len(case["pop"]["u"][0])})
    elif fac == "ohvmat_direct":
        reqs.append({"op": "c05.ohvmat_chunked", "H": case["H"], "xmap": case["xmap"], "mem": case["mem"]})
    elif fac == "wgebvmat":
        reqs.append({"op": "c05.guard", "fafreq": obs["fafreq"]})
        w = canon.enc(wgebv_weight([[_f(v) for v in r] for r in obs["fafreq"]]))
        reqs.append({"op": "c05.wgebv", "Z": Zmat(case["pop"]), "u": case["pop"]["u"], "pw": w})
    return reqs


def _expected_bv(bv, unscale):
    if not unscale:
        return bv["mat"]
    return [[canon.enc(Fraction(s) * Fraction(v) + Fraction(l)) for v, s, l in zip(r, bv["scale"], bv["location"])]
            for r in bv["mat"]]


def _mogs_expected(case):
    u = case["pop"]["u"]
    mk = [[canon.enc(abs(Fraction(v))) for v in r] for r in u] if case["weight"] == "abs_u" else case["mkrwt"]
    tf = [[1 if Fraction(v) > 0 else 0 for v in r] for r in u] if case["target"] == "sign_u" else case["tfreq"]
    return mk, tf


# --------------------------------------------------------------------------------------------
# verdicts
# --------------------------------------------------------------------------------------------
def _ok(a):
    if "err" in a:
        raise RuntimeError("driver error: " + a["err"])
    return a["ok"]


def _spec_latent_verdict(a, bad_spec, what):
    r = _ok(a)
    if not r["ok"]:
        bad_spec.append(f"{what}: latent is not the definition {r['definition']}")


def judge(case, obs, answers):
    c05 = _c05()
    hist = case.get("history")
    case = effective(case)
    fac, crit, enc = case["factory"], case["crit"], case["enc"]
    bad_corr, bad_spec = [], []
    if "skipped" in obs:
        return {"corr": True, "spec": True, "nontrivial": False, "detail": f"factory[{fac}/{crit}/{enc}] skipped: " + obs["skipped"]}
    lat = obs.get("latent")
    if lat is not None and not _fin(lat):
        bad_spec.append(f"non-finite latent vector {lat}")

    if fac == "bvmat":
        m = _ok(answers[0])
        if not _close(m, obs["data"]):
            bad_corr.append(f"data model={m} impl={obs['data']}")
        exp = _expected_bv(case["bv"], case["unscale"])
        if not _close(exp, obs["data"]):
            bad_spec.append(f"problem data {obs['data']} is not the population's breeding values {exp}")
        _spec_latent_verdict(answers[1], bad_spec, "latentfn after from_bvmat")
    elif fac == "family_bvmat":
        bv = case["bv"]
        if not _close(bv["mat"], obs["data"]):
            bad_spec.append(f"ebv {obs['data']} is not bvmat.mat {bv['mat']}")
        if obs["familyid"] != [int(v) for v in bv["taxa_grp"]]:
            bad_spec.append(f"familyid {obs['familyid']} is not taxa_grp {bv['taxa_grp']}")
        _spec_latent_verdict(answers[0], bad_spec, "latentfn after from_bvmat")
    elif fac == "l1_numpy":
        m = _ok(answers[0])
        if not _close(m, obs["V"]):
            bad_corr.append(f"V model={m} impl={obs['V']}")
        # definition of the latent value from the underlying arrays
        n = len(case["tafreq"])
        sh, _ = shares_of(enc, case["decn"], n)
        want = []
        for tr in range(len(case["mkrwt"][0])):
            tot = Fraction(0)
            for mi in range(len(case["mkrwt"])):
                pf = sum(Fraction(sh[i]) * Fraction(case["tafreq"][i][mi]) for i in range(n))
                tot += abs(Fraction(case["mkrwt"][mi][tr]) * (pf - Fraction(case["tfreq"][mi][tr])))
            want.append(canon.enc(tot))
        if not _close(want, lat):
            bad_spec.append(f"latent {lat} is not the weighted L1 distance {want}")
    elif fac in ("wgebv_numpy", "wgebv_gmat"):
        ff = case["fafreq"] if fac == "wgebv_numpy" else obs["fafreq"]
        g = _ok(answers[0])
        if not _close(g["tmp"], guard_zero(ff), 0, 0):
            bad_corr.append(f"guarded frequencies model={g['tmp']} harness={guard_zero(ff)}")
        m = _ok(answers[1])
        if not _close(m, obs["data"]):
            bad_corr.append(f"data model={m} impl={obs['data']}")
        # Spec: finite, and equal to Z (u * tmp**-alpha) with weight 1 where the favourable allele is absent
        # (the same exact product, recomputed here in Python from the population's plain data)
        Zm = case["Z"] if fac == "wgebv_numpy" else Zmat(case["pop"])
        um = case["u"] if fac == "wgebv_numpy" else case["pop"]["u"]
        pw = _pw(ff, case["alpha"])
        want = [[canon.enc(sum(Fraction(z) * Fraction(um[k][j]) * Fraction(pw[k][j]) for k, z in enumerate(row)))
                 for j in range(len(um[0]))] for row in Zm]
        if not _close(want, obs["data"]):
            bad_spec.append(f"problem data {obs['data']} is not the weighted breeding values {want}")
        if obs.get("fafreq_untouched") is False:
            bad_spec.append("from_numpy modified the caller's fafreq array")
        _check_lookup(case, obs, obs["data"], lat, bad_spec)
    elif fac == "random_object":
        if not _close(case["draws"], obs["data"]):
            bad_spec.append(f"rbv {obs['data']} is not the drawn matrix")
        n, t = len(case["draws"]), len(case["draws"][0])
        c = obs["calls"]
        ident = [[1 if i == j else 0 for j in range(t)] for i in range(t)]
        ok = len(c) == 1
        if ok and c[0]["how"] == "mvn":
            ok = c[0]["size"] == [n] and _close(c[0]["mean"], [0] * t) and _close(c[0]["cov"], ident)
        elif ok and c[0]["how"] == "std":
            ok = c[0]["size"] == [n, t]
        elif ok:
            ok = c[0]["size"] == [n, t] and all(Fraction(v) == 0 for v in c[0]["mean"]) and \
                all(Fraction(v) == 1 for v in c[0]["scale"])
        if not ok:
            bad_spec.append(f"draw request {c} is not one standard normal vector per taxon")
        _spec_latent_verdict(answers[0], bad_spec, "latentfn after from_object")
    elif fac == "gebv_gmat":
        m = _ok(answers[0])
        if not _close(m, obs["data"]):
            bad_corr.append(f"data model={m} impl={obs['data']}")
        if case["unscale"]:
            exp = gebv_exact(case["pop"])
            if not _close(exp, obs["data"]):
                bad_spec.append(f"problem data {obs['data']} is not Z u + beta = {exp}")
            _spec_latent_verdict(answers[1], bad_spec, "latentfn after from_gmat_gpmod")
        else:
            # scaled values: scale * data + location must give back Z u + beta
            exp = gebv_exact(case["pop"])
            back = [[canon.enc(Fraction(v) * Fraction(s) + Fraction(l)) for v, s, l in
                     zip(r, obs["bv"]["scale"], obs["bv"]["location"])] for r in obs["data"]] if _fin(obs["data"]) else None
            if back is None or not _close(exp, back, 1e-9, 1e-9):
                bad_spec.append(f"scaled data {obs['data']} do not unscale to Z u + beta = {exp}")
    elif fac == "mogs_gmat":
        mk, tf = _mogs_expected(case)
        Z = Zmat(case["pop"])
        if obs["geno"] != Z:
            bad_spec.append(f"geno {obs['geno']} is not the population's genotype counts {Z}")
        if obs["ploidy"] != ploidy_of(case["pop"]):
            bad_spec.append(f"ploidy {obs['ploidy']} is not the population's {ploidy_of(case['pop'])}")
        if not _close(mk, obs["mkrwt"]):
            bad_spec.append(f"mkrwt {obs['mkrwt']} != {mk}")
        if not _close(tf, obs["tfreq"]):
            bad_spec.append(f"tfreq {obs['tfreq']} != {tf}")
        _spec_latent_verdict(answers[0], bad_spec, "latentfn after from_gmat_gpmod")
    elif fac in ("cmat", "l2_gmat"):
        nK = len(obs["K"])
        nmod = 1 if fac == "cmat" else len(obs["C"])
        Cs = [obs["C"]] if fac == "cmat" else obs["C"]
        # (1) the independent K: computed by the C13 model (Model/Coancestry.lean) from the genotype counts.
        #     apply_jitter may add at most maxjitter = 1e-6 to the diagonal of the coancestry matrix (0.5e-6 of K)
        for tr, a in enumerate(answers[:nmod]):
            r = _ok(a)
            if "err" in r:
                raise RuntimeError("C13 model rejects the population: " + str(r))
            Km = r["K"]
            Kc = obs["K"][tr] if tr < nK else None
            # (when the coancestry factory was not called at all there is no matrix to compare; the factor itself is
            # still checked against the model's K below)
            if Kc is not None and not _kin_close(Km, Kc):
                bad_corr.append(f"kinship matrix (trait {tr}) C13-model={Km} factory={Kc}")
            # C^T C against the model's K, entry by entry, within the jitter allowance
            Ct = Cs[tr]
            n_ = len(Km)
            G = [[sum(Fraction(Ct[r_][i]) * Fraction(Ct[r_][j]) for r_ in range(len(Ct))) for j in range(n_)]
                 for i in range(n_)] if _fin(Ct) else None
            if G is None or not _kin_close(Km, [[canon.enc(v) for v in row] for row in G]):
                bad_spec.append(f"kinship factor (trait {tr}): C^T C is not the kinship matrix of the population "
                                f"(C13 model) {Km}")
        for a in answers[nmod:-1]:
            if not _ok(a)["ok"]:
                bad_spec.append("kinship factor: C^T C differs from the kinship matrix K handed to cholesky")
        if fac == "cmat" and crit == "OCS":
            exp = gebv_exact(case["pop"]) if case["unscale"] else obs["bv"]["mat"]
            if not _close(exp, obs["ebv"]):
                bad_spec.append(f"ebv {obs['ebv']} is not the population's breeding values {exp}")
        _spec_latent_verdict(answers[-1], bad_spec, "latentfn after factory")
    elif fac == "uc":
        xm_model = _ok(answers[0])
        if not case["via_xmap"] and xm_model != obs["xmap"]:
            bad_corr.append(f"xmap model={xm_model} impl={obs['xmap']}")
        if obs["xmap"] != obs["xmap_given"]:
            bad_spec.append(f"decn_space_xmap {obs['xmap']} is not the cross map used {obs['xmap_given']}")
        npar = case.get("nparent", 2)
        want_x = _xmap_py(len(case["pop"]["geno"][0]), npar, case["unique_parents"])
        if not case["via_xmap"] and obs["xmap"] != want_x:
            bad_spec.append(f"cross map {obs['xmap']} is not the list of all parent tuples {want_x}")
        m = _ok(answers[1])
        if not _close(m, obs["ucmat"]):
            bad_corr.append(f"ucmat model={m} impl={obs['ucmat']}")
        # definition: sum_p epgc_p * bv[parent_p] + intensity * sqrt(var[parents]); the genome contributions are
        # the design's (1/2,1/2 | 3/4,1/4 | 1/2,1/4,1/4 | ...), not an equal split
        if case.get("design") != "real3" and not _close(case["epgc"], obs["epgc"], 0, 0):
            bad_spec.append(f"epgc {obs['epgc']} != {case['epgc']}")
        if case.get("design") == "real3" and not _close(obs["epgc"], ["1/2", "1/4", "1/4"], 0, 0):
            bad_spec.append(f"three-way design reports genome contributions {obs['epgc']}")
        bv = gebv_exact(case["pop"])
        inten = Fraction(obs["intensity"])
        for ci, (row, cc) in enumerate(zip(obs["ucmat"], obs["xmap"])):
            for j, v in enumerate(row):
                if case.get("design") == "real3":
                    var = Fraction(obs["pvar"][ci][j])
                    sd = Fraction(float(max(var, 0)) ** 0.5)        # a rounding residue below zero is a zero variance
                else:
                    cell = case["vmat"]
                    for a in cc:
                        cell = cell[a]
                    var = max(Fraction(cell[j]), Fraction(0))
                    sd = Fraction(int(round((var * 16) ** 0.5)), 4)
                want = sum(Fraction(e) * Fraction(bv[a][j]) for e, a in zip(obs["epgc"], cc)) + inten * sd
                if isinstance(canon.dec(v), str) or not canon.close(canon.dec(v), want, 1e-9, 1e-12):
                    bad_spec.append(f"uc{cc}[{j}] = {v}, definition gives {want}")
        s = obs["seen"]
        if not (s.get("same_pgmat") and s.get("same_gmod")):
            bad_spec.append(f"variance factory called with other objects {s}")
        va = case.get("vargs", {"ncross": 1, "nprogeny": 10, "nself": 0})
        if any(int(s.get(k_, -1)) != int(v_) for k_, v_ in va.items()):
            bad_spec.append(f"variance factory asked for {({k_: s.get(k_) for k_ in va})}, the declared design is {va}")
        _check_lookup(case, obs, obs["ucmat"], lat, bad_spec)
    elif fac in ("ohv", "opv", "gb"):
        H = _ok(answers[0])
        pop = case["pop"]
        if fac == "ohv":
            xm_model = _ok(answers[1])
            if xm_model != obs["xmap"]:
                bad_corr.append(f"xmap model={xm_model} impl={obs['xmap']}")
            npar = case.get("nparent", 2)
            want_x = _xmap_py(len(pop["geno"][0]), npar, case["unique_parents"])
            if obs["xmap"] != want_x:
                bad_spec.append(f"cross map is not the list of all {npar}-parent tuples (unique={case['unique_parents']})")
            want = _ohv_exact(H, obs["xmap"])
            if not _close(want, obs["ohvmat"]):
                rows = [i for i, (w, o) in enumerate(zip(want, obs["ohvmat"])) if not _close(w, o)]
                bad_spec.append(f"ohvmat rows {rows[:6]} (of {len(want)}): {[obs['ohvmat'][i] for i in rows[:3]]} are not "
                                f"ploidy * sum of block maxima {[want[i] for i in rows[:3]]}")
            if len(answers) > 2:
                ch = _ok(answers[2])
                if not _close(ch["chunked"], obs["ohvmat"]):
                    bad_corr.append("ohvmat differs from the model's chunk loop")
                if ch["chunked"] != ch["closed"]:
                    bad_corr.append("model: chunk loop differs from closed form")
            _check_lookup(case, obs, obs["ohvmat"], lat, bad_spec)
        elif fac == "gb":
            if not _close(H, obs["haplomat"]):
                bad_corr.append(f"haplomat model={H} impl={obs['haplomat']}")
            if obs["nbest"] != case["nbest"]:
                bad_spec.append(f"nbestfndr {obs['nbest']} != {case['nbest']}")
            _spec_latent_verdict(answers[1], bad_spec, "latentfn after from_pgmat_gpmod")
            # definition on the *model's* tensor, exact: -(ploidy/nbest) * sum_b (sum of the nbest largest best phases)
            nb = case["nbest"]
            want = []
            for j in range(len(H[0][0][0])):
                tot = Fraction(0)
                for b in range(len(H[0][0])):
                    best = sorted((max(Fraction(H[ph][i][b][j]) for ph in range(len(H))) for i in case["decn"]), reverse=True)
                    tot += sum(best[:nb])
                want.append(canon.enc(-Fraction(len(H), nb) * tot))
            if not _close(want, lat):
                bad_spec.append(f"latent {lat} is not -(ploidy/nbest) * sum of the nbest best founders per block {want}")
        else:
            if not _close(H, obs["haplomat"]):
                bad_corr.append(f"haplomat model={H} impl={obs['haplomat']}")
            want = [canon.enc(-Fraction(v)) for v in _ohv_exact(H, [sorted(case["decn"])])[0]]
            if not _close(want, lat):
                bad_spec.append(f"latent {lat} is not -(ploidy * sum of block maxima) {want}")
        # blocks tile each chromosome's markers
        b = obs["bounds"]
        if not (b and b[0][0] == 0 and b[-1][1] == len(pop["u"]) and all(x[1] == y[0] for x, y in zip(b, b[1:]))):
            bad_spec.append(f"haplotype block bounds {b} do not tile the markers")
    elif fac == "embv":
        xm_model = _ok(answers[0])
        if xm_model != obs["xmap"]:
            bad_corr.append(f"xmap model={xm_model} impl={obs['xmap']}")
        want_x = _xmap_py(len(case["pop"]["geno"][0]), case.get("nparent", 2), case["unique_parents"])
        if obs["xmap"] != want_x:
            bad_spec.append(f"cross map {obs['xmap']} is not the list of all parent tuples {want_x}")
        m = _ok(answers[1])
        if not _close(m, obs["embv"]):
            bad_corr.append(f"embv model={m} impl={obs['embv']}")
        nrep = case["nrep"]
        want = [[canon.enc(sum(Fraction(r[j]) for r in reps[:nrep]) / nrep) for j in range(len(reps[0]))]
                for reps in case["tmaxs"]]
        if not _close(want, obs["embv"]):
            bad_spec.append(f"embv {obs['embv']} is not the per-cross mean of the simulated maxima {want}")
        ma = case.get("margs", {"nmating": 1, "nprogeny": 5})
        if any(l["nmating"] != ma["nmating"] or l["nprogeny"] != ma["nprogeny"] for l in obs["log"]):
            bad_spec.append(f"mate() called with other numbers of matings / progeny than declared {ma}")
        nrep_ = case["nrep"]
        calls = [l["cross"] for l in obs["log"]]
        if any(calls.count(ci) != nrep_ for ci in range(len(case["tmaxs"]))):
            bad_spec.append("mate() is not called nrep times for every cross")
        if any(l["shape"] != [1, case.get("nparent", 2)] for l in obs["log"]):
            bad_spec.append("mate() called with a cross configuration of the wrong shape")
        _check_lookup(case, obs, obs["embv"], lat, bad_spec)
    elif fac == "embvmat":
        m = _ok(answers[0])
        if not _close(m, obs["unscaled"]):
            bad_corr.append(f"embv model={m} impl={obs['unscaled']}")
        n = len(case["prog"])
        nrep, npro = per_taxon(case["nrep"], n)[1], per_taxon(case["nprogeny"], n)[1]
        # definition: row i = mean over ITS OWN nrep_i replicates of the maximum over the nprogeny_i simulated progeny
        want = [[canon.enc(sum(max(Fraction(pr[j]) for pr in rep) for rep in reps[:nrep[i]]) / nrep[i])
                 for j in range(len(reps[0][0]))] for i, reps in enumerate(case["prog"])]
        if not _close(want, obs["unscaled"]):
            bad_spec.append(f"EMBV matrix {obs['unscaled']} is not the per-taxon mean (over nrep={case['nrep']}) of the "
                            f"maxima of the simulated progeny {want}")
        if obs["taxa"] != taxa_names(case["pop"]) or obs["taxa_grp"] != [int(v) for v in case["pop"]["taxa_grp"]]:
            bad_spec.append("taxa labels of the EMBV matrix are not the population's, in order")
        want_log = [{"taxon": i, "nprogeny": npro[i], "same_parent": True} for i in range(n) for _ in range(nrep[i])]
        key = lambda l: (l["taxon"], l["nprogeny"], l["same_parent"])
        if sorted(map(key, obs["log"])) != sorted(map(key, want_log)):
            bad_spec.append(f"doubled-haploid simulation calls {obs['log']} are not nrep[i] draws of nprogeny[i] progeny per taxon")
    elif fac == "embvmat_real":
        pop = case["pop"]
        n = len(pop["geno"][0])
        gebv = gebv_exact(pop)
        u = [[Fraction(v) for v in r] for r in pop["u"]]
        beta = [Fraction(v) for v in pop["beta"]]
        ph = pop["geno"]
        pl = len(ph)
        if not _fin(obs["unscaled"]):
            bad_spec.append(f"EMBV matrix is not finite: {obs['unscaled']}")
        else:
            for i in range(n):
                het = [m for m in range(len(u)) if len({p_[i][m] for p_ in ph}) > 1]
                for j in range(len(beta)):
                    v = Fraction(obs["unscaled"][i][j])
                    if not het:
                        # a fully homozygous line: every doubled haploid is a copy of it, EMBV = GEBV whatever nrep / nprogeny
                        if not canon.close(v, Fraction(gebv[i][j]), 1e-9, 1e-12):
                            bad_spec.append(f"taxon {i} is fully homozygous: EMBV[{i}][{j}] = {float(v)} must equal its "
                                            f"GEBV {float(Fraction(gebv[i][j]))}")
                    else:
                        # partly inbred: every doubled haploid carries, at each locus, one of the parent's alleles twice
                        lo = beta[j] + sum(min(pl * u[m][j] * p_[i][m] for p_ in ph) for m in range(len(u)))
                        hi = beta[j] + sum(max(pl * u[m][j] * p_[i][m] for p_ in ph) for m in range(len(u)))
                        tol = Fraction(1, 10 ** 9) * max(1, abs(lo), abs(hi))
                        if not (lo - tol <= v <= hi + tol):
                            bad_spec.append(f"EMBV[{i}][{j}] = {float(v)} is outside the range [{float(lo)}, {float(hi)}] "
                                            f"of the doubled haploids of taxon {i}")
        if obs["taxa"] != taxa_names(pop) or obs["taxa_grp"] != [int(v) for v in pop["taxa_grp"]]:
            bad_spec.append("taxa labels of the EMBV matrix are not the population's, in order")
    elif fac == "ohvmat_direct":
        ch = _ok(answers[0])
        if not _close(ch["chunked"], obs["ohvmat"]):
            bad_corr.append(f"ohvmat (mem={case['mem']}) model={ch['chunked']} impl={obs['ohvmat']}")
        if ch["chunked"] != ch["closed"]:
            bad_corr.append("model: chunk loop differs from closed form")
        want = _ohv_exact(case["H"], case["xmap"])
        if not _close(want, obs["ohvmat"]):
            bad_spec.append(f"_calc_ohvmat(mem={case['mem']}) = {obs['ohvmat']} is not ploidy * sum over blocks of the maximum "
                            f"over parents and phases {want}")
        if not obs["untouched"]:
            bad_spec.append("_calc_ohvmat modified its arguments")
    elif fac == "wgebvmat":
        # the weight is transcendental: the model receives numpy's weight values (trusted) and forms Z (u * w)
        g = _ok(answers[0])
        ffx = [[Fraction(v) for v in r] for r in obs["fafreq"]]
        pq_h = [[canon.enc(Fraction(1) if v in (0, 1) else v * (1 - v)) for v in r] for r in ffx]
        if not _close(g["pq"], pq_h, 0, 0):
            bad_corr.append(f"masked p(1-p) model={g['pq']} harness={pq_h}")
        m = _ok(answers[1])
        if not _close(m, obs["unscaled"], 1e-9, 1e-9):
            bad_corr.append(f"wGEBV model={m} impl={obs['unscaled']}")
        if not _fin(obs["unscaled"]):
            bad_spec.append(f"wGEBV matrix is not finite: {obs['unscaled']}")
        w = wgebv_weight([[_f(v) for v in r] for r in obs["fafreq"]])
        um = case["pop"]["u"]
        want = [[canon.enc(sum(Fraction(z) * Fraction(um[k][j]) * Fraction(float(w[k][j])) for k, z in enumerate(row)))
                 for j in range(len(um[0]))] for row in Zmat(case["pop"])]
        if not _close(want, obs["unscaled"], 1e-9, 1e-9):
            bad_spec.append(f"wGEBV matrix {obs['unscaled']} is not Z (u * weight) = {want}")
        n = len(case["pop"]["geno"][0])
        if obs["taxa"] != taxa_names(case["pop"]) or obs["taxa_grp"] != [int(v) for v in case["pop"]["taxa_grp"]]:
            bad_spec.append("taxa labels of the wGEBV matrix are not the population's, in order")
    else:
        raise ValueError(fac)

    # the declaration handed to the factory is the declaration of the problem it returns
    for er in obs.get("evalrows", []):
        if _fin(er["row"]["latent"]):
            c05.PROP._check_row(er["cfg"], [canon.enc(Fraction(v)) for v in er["x"]], er["row"], bad_spec,
                                "evalfn of the factory-built problem: ")

    return {"corr": not bad_corr, "spec": not bad_spec, "nontrivial": True,
            "detail": f"factory[{fac}/{crit}/{enc}] " + ("; ".join(bad_spec + bad_corr)[:1500] if (bad_spec or bad_corr) else "ok")}


def _kin_close(Km, Kc, jitter=5.1e-7):
    """off-diagonal entries equal (1e-9), diagonal of the factory's matrix within [0, jitter] above the model's"""
    if len(Km) != len(Kc) or not _fin(Kc):
        return False
    for i, (rm, rc) in enumerate(zip(Km, Kc)):
        if len(rm) != len(rc):
            return False
        for j, (a, b) in enumerate(zip(rm, rc)):
            a, b = Fraction(a), Fraction(b)
            if i == j:
                if not (-1e-9 <= float(b - a) <= jitter + 1e-9 * max(1.0, abs(float(a)))):
                    return False
            elif not canon.close(a, b, 1e-9, 1e-11):
                return False
    return True


def _ohv_exact(H, xmap):
    """ploidy * sum over blocks of the max over phases and parents (exact)"""
    out = []
    nph = len(H)
    nblk = len(H[0][0])
    nt = len(H[0][0][0])
    for cc in xmap:
        row = []
        for j in range(nt):
            tot = Fraction(0)
            for b in range(nblk):
                tot += max(Fraction(H[p][i][b][j]) for p in range(nph) for i in cc)
            row.append(canon.enc(nph * tot))
        out.append(row)
    return out


def _check_lookup(case, obs, table, lat, bad_spec):
    """mate-selection latent = -(share-weighted mean of the rows of the cross table)"""
    if lat is None or not _fin(lat) or not _fin(table):
        return
    sh, _ = shares_of(case["enc"], case["decn"], len(table))
    want = [canon.enc(-sum(Fraction(sh[i]) * Fraction(table[i][j]) for i in range(len(table))))
            for j in range(len(table[0]))]
    if not _close(want, lat):
        bad_spec.append(f"latent {lat} is not minus the contribution-weighted mean of the cross values {want}")


def signature(case, obs, verdict):
    return {}


def shrink(case):
    if "pop" in case:
        pop = case["pop"]
        p = len(pop["u"])
        t = len(pop["u"][0])
        if t > 1 and case["factory"] in ("wgebv_gmat", "gebv_gmat"):
            c = dict(case)
            c["pop"] = dict(pop, u=[r[:1] for r in pop["u"]], beta=pop["beta"][:1])
            yield c
    return
