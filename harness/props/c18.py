"""C18 — haplotype blocks: partition of the markers, conservation of value, optimal haploid /
population values.

Implementation under test (imported from /repo, never edited):
  pybrops.core.util.haplo                      nhaploblk_chrom, haplobin, haplobin_bounds, haplomat
  OptimalHaploidValueSubsetSelectionProblem    from_pgmat_gpmod (_calc_haplomat, _calc_xmap, _calc_ohvmat), latentfn
  OptimalPopulationValueSubsetSelectionProblem from_pgmat_gpmod (_calc_haplomat), latentfn
  GenotypeBuilderSubsetSelectionProblem        from_pgmat_gpmod (_calc_haplomat), latentfn
Model: lean/PybropsModel/Model/Haplo.lean through the driver ops `c18.*`; Spec: `c18.spec`.
"""
import contextlib
import math
import os
from fractions import Fraction

import numpy

from .. import canon, compat
from ..core import Prop

compat.install()

_MODS = None
_PROT = None


class _NumpyPoisonedEmpty:
    """Stands in for the `numpy` global of the modules under test.  Everything is numpy's own, except that `empty` /
    `empty_like` hand out arrays whose cells hold a recognisable poison (NaN for inexact dtypes, a large negative
    number for integers) instead of whatever the allocator happens to return.  numpy documents the content of such an
    array as arbitrary, so code that writes every cell before reading it cannot tell the difference; code that reads
    a cell it never wrote now does so deterministically (not only when the heap happens to be dirty)."""

    def __getattr__(self, name):
        return getattr(numpy, name)

    @staticmethod
    def _poison(a):
        if a.dtype.kind in "fc":
            a.fill(numpy.nan)
        elif a.dtype.kind in "iu":
            a.fill(-(2 ** 40) if a.dtype.itemsize >= 8 else (numpy.iinfo(a.dtype).min if a.dtype.kind == "i" else 201))
        return a

    def empty(self, *args, **kw):
        return self._poison(numpy.empty(*args, **kw))

    def empty_like(self, *args, **kw):
        return self._poison(numpy.empty_like(*args, **kw))


NP = _NumpyPoisonedEmpty()


def _mods():
    global _MODS
    if _MODS is None:
        compat.import_pybrops()
        import pybrops.core.util.haplo as haplo
        import pybrops.breed.prot.sel.prob.OptimalHaploidValueSelectionProblem as ohvp
        import pybrops.breed.prot.sel.prob.OptimalPopulationValueSelectionProblem as opvp
        import pybrops.breed.prot.sel.prob.GenotypeBuilderSelectionProblem as gbp
        import pybrops.breed.prot.sel.OptimalHaploidValueSelection as ohvsel
        import pybrops.breed.prot.sel.OptimalPopulationValueSelection as opvsel
        import pybrops.breed.prot.sel.GenotypeBuilderSelection as gbsel
        global _PROT
        _PROT = (opvsel, gbsel)
        from pybrops.popgen.gmat.DensePhasedGenotypeMatrix import DensePhasedGenotypeMatrix
        from pybrops.model.gmod.DenseAdditiveLinearGenomicModel import DenseAdditiveLinearGenomicModel
        for m in (haplo, ohvp, opvp, gbp):
            m.numpy = NP        # uninitialised cells of numpy.empty arrays are visible as NaN / a sentinel
        _MODS = (haplo, ohvp, opvp, gbp, ohvsel, DensePhasedGenotypeMatrix, DenseAdditiveLinearGenomicModel)
    return _MODS


def _fr(x):
    return Fraction(x) if not isinstance(x, str) else canon.dec(x)


def _f(x):
    return float(_fr(x))


def _encpos(chroms):
    """positions as the exact value of the binary64 number the implementation will see"""
    return canon.enc([Fraction(float(x)) for c in chroms for x in c])


def _layout(case):
    sizes = case["chr_sizes"]
    stix, spix, k = [], [], 0
    for s in sizes:
        stix.append(k)
        k += s
        spix.append(k)
    return stix, spix


def _enc_floats(v):
    """canon.enc of a (nested list of) finite Python float(s), without the detour through Fraction objects"""
    if isinstance(v, list):
        return [_enc_floats(x) for x in v]
    n, d = v.as_integer_ratio()
    return n if d == 1 else f"{n}/{d}"


def _finite_enc(arr):
    """(encoded array with non-finite cells replaced by 0, all-finite flag)"""
    a = numpy.asarray(arr, dtype=float)
    fin = bool(numpy.isfinite(a).all())
    if not fin:
        a = numpy.where(numpy.isfinite(a), a, 0.0)
    return _enc_floats(a.tolist()), fin


def _dirty(shape):
    """put recognisable garbage where the next numpy.empty of this shape is likely to land, so that
    cells the code never writes are visibly uninitialised (the verdict never depends on it)"""
    junk = numpy.full(shape, numpy.nan)
    del junk


# The model mirrors the tree WITH the repair of defect D10 (nhaploblk_chrom never gives a chromosome more blocks than
# markers; haplobin falls back to equal-count blocks when an equal-width bin is empty).  C18_VARIANT=prerepair asks the
# driver for the model of the code before that repair (Model/Haplo.lean section 7) -- only ever set by hand, to
# compare with a tree that lacks the fix:  PYBROPS_REPO=<old tree> C18_VARIANT=prerepair ./check C18  (the Spec does
# not change: such a tree violates the property on every layout with an empty equal-width bin).
VARIANT = os.environ.get("C18_VARIANT", "repaired")
_VAR = {"prerepair": True} if VARIANT == "prerepair" else {}


class C18(Prop):
    PID = "C18"
    MODULE = "PybropsModel.Props.C18"
    N_QUICK = 500
    N_THOROUGH = 2000
    CORRESPONDENCE = "functional"
    RULE = ("marker layouts of 1-4 chromosomes x 1-7 markers (integer / dyadic positions: evenly spread, "
            "clustered, duplicated positions, markers exactly on a linspace boundary, zero-length chromosomes, large "
            "common offsets 25000 + k/64 and 1e9 +- 0.5, spans of 1e-8; a second stream with arbitrary floats), every "
            "block total between the chromosome count and the marker count, 0/1 genotypes (random, partly inbred = "
            "phases tied at most loci, monomorphic columns) of 2-5 taxa x 1-4 phases, signed power-of-two / dyadic / "
            "float / 1e-15 / 1e-8 / 1e-5 / 25000 + small / 1e9 +- 0.5 effects for 1-3 traits, parent tuples of size 1-4 with and "
            "without repeated parents; fixed corpus cases with 1081 / 2300 cross configurations (2 and 3 memory chunks of "
            "_calc_ohvmat), a 150-marker block of all-ones genotypes (> 127), 1100 markers, 130 blocks.  Every pipeline "
            "case goes through ALL entry points: haplo.haplomat (other integer dtypes, integer effect arrays, Fortran / "
            "strided arrays), the OHV / OPV / GB factories on containers that optionally carry every piece of metadata "
            "(variant mask with False entries, names, crossover probabilities, taxa groups, non-zero intercept, fixed "
            "effects, no trait names, arbitrary chromosome labels, nhaploblk as numpy.int64), _calc_ohvmat called "
            "directly with two other chunk sizes (1, 2, 3, s-1, s, s+1, 1024, None), the four OHV selection protocols "
            "(subset / real / integer / binary problems; weighted latent functions) and the OPV / GB protocols.  Direct "
            "haplobin / haplobin_bounds calls with arbitrary block counts and label vectors; mutate-then-requery "
            "sequences on ONE OPV / OHV / GB problem object (build from data A, evaluate, assign the matrices of data B "
            "-- other effects, genotypes and possibly ploidy, other nbestfndr -- through the public setters, evaluate, "
            "put A back, evaluate, overwrite the held array IN PLACE with the data of A with reversed taxa, evaluate; then ONE "
            "OHV / OPV / GB protocol object builds problems from data A, from data B, from the SAME container objects after "
            "their arrays were overwritten in place, and -- OHV -- after unique_parents was re-assigned), "
            "Spec on every answer recomputed from the data current at that time.  About a third of the layouts have an empty "
            "equal-width bin or a short chromosome that the uncapped greedy loop would over-fill (regression of the repaired "
            "defect D10: equal-count fallback, marker cap); numpy.empty is poisoned (NaN / sentinel) inside the modules under "
            "test so that unwritten cells show deterministically.  Non-trivial = requery case whose "
            "second or fourth answer differs from the first, or pipeline case with more blocks than chromosomes, >= 2 "
            "taxa and >= 2 markers on some chromosome")
    TRUSTED = ["numpy.dot / max / sort as modelled in Model/Haplo.lean (values compared at 1e-9 relative to the "
               "magnitude of the data, ploidy * sum |u|)",
               "the driver's answers are memoised per process by request text (deterministic ops; only the self-test "
               "re-sends identical requests)",
               "IEEE binary64: the layout part of the model (apportionment, linspace, labels, block bounds) is EXECUTED at "
               "Lean's Float with numpy's operation order and compared bit for bit on every case; the theorems cover it "
               "through the rounding contract RoundOK / ChromRoundOK (monotone rounding, 0 and the first position "
               "representable, last computed point <= stop), whose observable consequence (boundaries sorted and "
               "bracketing the markers) is re-checked on numpy's own linspace output in every case",
               "DensePhasedGenotypeMatrix.group_vrnt and DenseAdditiveLinearGenomicModel only carry the arrays "
               "(checked on every case: positions and chromosome bounds read back unchanged)"]
    ASSUMPTIONS = ["positions sorted within chromosomes, every chromosome has >= 1 marker (what group_vrnt produces), fewer than "
                   "8 chromosomes (numpy sums genlen left to right below 8 elements)",
                   "the exact-arithmetic (Rat) layout model is compared in addition wherever no marker-vs-boundary comparison "
                   "and no greedy tie depends on rounding (decided per case, recorded in the detail); the binary64 layout "
                   "model is compared unconditionally",
                   "an uninitialised numpy.empty cell is modelled as `none`; in the four modules under test the name `numpy` is "
                   "bound to a proxy whose empty()/empty_like() return NaN- / sentinel-filled arrays (everything else is "
                   "numpy's own), so a cell that is read without having been written shows deterministically"]

    # ------------------------------------------------------------------ generation
    @staticmethod
    def _mk(rng, chroms, nhaploblk, ntaxa=None, ploidy=2, ntrait=None, ustyle=None, kind="pipeline", isfloat=False,
            nparent=None, unique=None, gstyle=None, opts=None):
        p = sum(len(c) for c in chroms)
        ntaxa = ntaxa or rng.choice([2, 3, 3, 4, 5])
        ntrait = ntrait or rng.choice([1, 1, 2, 3])
        geno = [[[rng.randint(0, 1) for _ in range(p)] for _ in range(ntaxa)] for _ in range(ploidy)]
        gstyle = gstyle or rng.choice(["random"] * 8 + ["inbred", "inbred", "mono", "mono", "codes"])
        if gstyle == "inbred" and ploidy >= 2:
            # partly inbred parents: every phase copies phase 0 except at a few loci (exact ties between the phases)
            het = set(rng.sample(range(p), rng.randint(0, max(0, p // 3))))
            for m in range(1, ploidy):
                for i in range(ntaxa):
                    geno[m][i] = [g if j not in het else geno[m][i][j] for j, g in enumerate(geno[0][i])]
        elif gstyle == "mono":
            # constant columns next to varying ones
            for j in rng.sample(range(p), rng.randint(1, max(1, p // 2))):
                a = rng.randint(0, 1)
                for m in range(ploidy):
                    for i in range(ntaxa):
                        geno[m][i][j] = a
        elif gstyle == "codes":
            # the genome matrix is an integer matrix, not a boolean one: allele codes 0 / 1 / 2 and (haplo.haplomat only
            # sees numbers) a value is the plain dot product g . u whatever the codes are
            geno = [[[rng.choice([0, 1, 1, 2]) for _ in range(p)] for _ in range(ntaxa)] for _ in range(ploidy)]
        elif gstyle == "ones":
            geno = [[[1] * p for _ in range(ntaxa)] for _ in range(ploidy)]
        ustyle = ustyle or rng.choice(["pow2", "pow2", "small", "small", "dyadic", "dyadic", "float", "float", "tiny", "tiny",
                                       "e5", "e5", "offset", "offset", "big", "big", "femto"])
        u = []
        for i in range(p):
            row = []
            for t in range(ntrait):
                if ustyle == "pow2":
                    v = Fraction(rng.choice([1, -1]) * 2 ** ((i * (t + 1) + t) % 12))
                elif ustyle == "small":
                    v = Fraction(rng.randint(-3, 3))
                elif ustyle == "one":
                    v = Fraction(1)
                elif ustyle == "dyadic":
                    v = Fraction(rng.randint(-40, 40), rng.choice([1, 2, 4, 8]))
                # magnitudes that a tolerance-style "fix" (isclose / clip / eps / float32) would disturb
                elif ustyle == "tiny":      # ~1e-8
                    v = Fraction(rng.randint(-9, 9), 2 ** 30)
                elif ustyle == "femto":     # ~1e-15: below any absolute threshold a "cleanup" might use
                    v = Fraction(rng.randint(-9, 9), 2 ** 50)
                elif ustyle == "e5":        # ~1e-5
                    v = Fraction(rng.randint(-9, 9), 2 ** 17)
                elif ustyle == "offset":    # large common offset + small differences
                    v = Fraction(25000) + Fraction(rng.randint(-8, 8), 16)
                elif ustyle == "big":       # 1e9 +- 0.5
                    v = Fraction(rng.choice([1, -1]) * 10 ** 9) + Fraction(rng.randint(-1, 1), 2)
                else:
                    v = Fraction(rng.uniform(-2, 2))
                row.append(v)
            u.append(row)
        if ntrait >= 2 and rng.random() < 0.06:
            # a trait without any marker effect (magnitude 0: the tolerance collapses to exact equality)
            tz = rng.randrange(ntrait)
            for row in u:
                row[tz] = Fraction(0)
        nparent = nparent or (rng.choice([1, 2, 2, 2, 3, 3, 4]) if ntaxa >= 3 else rng.choice([1, 2]))
        unique = (rng.random() < 0.6) if unique is None else unique
        if unique and nparent > ntaxa:
            nparent = ntaxa
        nx = math.comb(ntaxa, nparent) if unique else math.comb(ntaxa + nparent - 1, nparent)
        # a subset decision holds DISTINCT cross configurations
        x_ohv = rng.sample(range(nx), min(nx, rng.randint(1, 3)))
        kpop = rng.randint(1, ntaxa)
        x_pop = rng.sample(range(ntaxa), kpop)
        nbest = rng.randint(1, kpop)
        dh = [[[rng.randrange(ploidy), rng.randrange(nparent)] for _ in range(max(1, min(nhaploblk, 12)))] for _ in range(3)]
        if nx > 40:         # crosses of the first and of the last memory chunk
            x_ohv = [0, nx - 1] + [i for i in x_ohv if i not in (0, nx - 1)][:1]
        if opts is None:
            opts = C18._opts(rng, p, ntrait, nx, ustyle)
        return {"kind": kind, "float": isfloat, "opts": opts,
                "genpos": _encpos(chroms), "chr_sizes": [len(c) for c in chroms],
                "nhaploblk": nhaploblk, "geno": geno, "u": canon.enc(u),
                "nparent": nparent, "unique": unique, "x_ohv": x_ohv, "x_pop": x_pop, "nbest": nbest, "dh": dh}

    @staticmethod
    def _opts(rng, p, ntrait, nx, ustyle):
        """rarely used options / argument forms / secondary entry points of one pipeline case"""
        o = {}
        # optional metadata of the containers: variant mask with False entries, names, crossover probabilities,
        # taxa labels and groups; a genomic model with a non-zero intercept and fixed effects
        if rng.random() < 0.5:
            mask = [rng.random() < 0.6 for _ in range(p)]
            o["meta"] = {"mask": mask, "beta": [rng.choice([-3, 2, 5, 7]) for _ in range(ntrait)],
                         "u_misc": rng.random() < 0.5, "trait_none": rng.random() < 0.3}
        # memory layout of the arrays handed over: C (default), Fortran order, strided views of larger arrays
        o["layout"] = rng.choice(["C", "C", "F", "strided"])
        # dtypes for the direct call of haplo.haplomat (integer effects only where the effects are integers)
        o["gdtype"] = rng.choice(["int8", "int8", "int16", "int64"])
        o["udtype"] = rng.choice(["float64", "int64"]) if ustyle in ("pow2", "small") else "float64"
        o["nh_numpy"] = rng.random() < 0.3
        # chromosome labels need not be 1..c
        o["chr0"] = rng.choice([1, 1, 0, 3, 11])
        o["chrstep"] = rng.choice([1, 1, 2, 5])
        # chunk sizes for direct calls of _calc_ohvmat (None = Python None)
        cand = [1, 2, 3, max(1, nx - 1), nx, nx + 1, 1024, None]
        o["mems"] = rng.sample(cand, 2) if nx <= 64 else [None, rng.choice([1000, 1024, 512, nx - 1])]
        # weights for the real / integer / binary encodings: x_i derived from (a, b); see _weights
        o["xw"] = [rng.randint(1, 7), rng.randint(0, 7)]
        return o

    @staticmethod
    def _weights(xw, nx):
        """decision vectors of the real / integer / binary OHV problems (one weight per cross configuration)"""
        a, b = xw
        base = [(a * i + b) % 5 for i in range(nx)]
        real = [Fraction(v, 4) for v in base]
        integer = [Fraction(v % 3) for v in base]
        binary = [Fraction(v % 2) for v in base]
        for w in (real, integer, binary):
            if sum(w) == 0:
                w[0] = Fraction(1)
        return real, integer, binary

    @staticmethod
    def _positions(rng, style, n):
        """n sorted positions of one chromosome"""
        if n == 1:
            return [Fraction(rng.randint(-3, 9))]
        if style == "even":
            d = rng.choice([1, 2, 3, Fraction(1, 2)])
            a = rng.randint(-4, 4)
            return [a + d * i for i in range(n)]
        if style == "int":
            return sorted(Fraction(rng.randint(0, 12)) for _ in range(n))
        if style == "dyadic":
            return sorted(Fraction(rng.randint(0, 48), rng.choice([2, 4, 8])) for _ in range(n))
        if style == "cluster":
            a = rng.randint(0, 3)
            xs = [Fraction(a) + Fraction(rng.randint(0, 4), 64) for _ in range(n - 1)] + [Fraction(a + rng.randint(1, 8))]
            return sorted(xs)
        if style == "tie":      # markers on multiples of the step of an integer grid
            step = rng.choice([1, 2, Fraction(1, 2)])
            k = rng.randint(1, 5)
            xs = [Fraction(0), step * k] + [step * rng.randint(0, k) for _ in range(n - 2)]
            return sorted(xs)
        if style == "decimal":  # decimal grid: in exact decimal arithmetic markers sit ON the boundaries, in binary64 the
            k = rng.randint(1, 6)  # rounding of `j*step + start` decides on which side -- only a bit-exact model follows
            xs = [Fraction(0), Fraction(k * rng.choice([1, 2, 3]), 10)] + \
                 [Fraction(rng.randint(0, 3 * k), 10) for _ in range(n - 2)]
            xs = [x for x in xs if x <= xs[1]] + [xs[1]] * sum(1 for x in xs if x > xs[1])
            a = Fraction(rng.choice([0, 0, 1, 3, 7]), 10)
            return sorted(Fraction(float(a + x)) for x in xs)
        # magnitudes that interact with tolerance-style comparisons (isclose / eps) and with float32: a large common
        # offset with small differences, 1e9 +- 0.5, spans of ~1e-8
        if style == "offset":
            return sorted(Fraction(25000) + Fraction(rng.randint(0, 24), 64) for _ in range(n))
        if style == "big":
            return sorted(Fraction(10 ** 9) + Fraction(rng.randint(-6, 6), 2) for _ in range(n))
        if style == "micro":
            a = rng.randint(0, 3)
            return sorted(Fraction(a) + Fraction(rng.randint(0, 12), 2 ** 30) for _ in range(n))
        if style == "flat":
            return [Fraction(rng.randint(0, 3))] * n
        if style == "float":
            a = rng.uniform(-1, 1)
            return sorted(Fraction(a + rng.uniform(0, 3)) for _ in range(n))
        raise ValueError(style)

    def _layout_case(self, rng, style=None):
        nchr = rng.choice([1, 1, 2, 2, 3, 4])
        style = style or rng.choice(["even", "even", "int", "int", "dyadic", "cluster", "tie", "tie", "mixed", "float",
                                      "decimal", "offset", "big", "micro"])
        chroms = []
        for _ in range(nchr):
            n = rng.choice([1, 2, 3, 3, 4, 5, 6, 7])
            s = style if style != "mixed" else rng.choice(["even", "int", "cluster", "tie", "flat", "dyadic", "micro", "offset"])
            chroms.append(self._positions(rng, s, n))
        return chroms, style

    def corpus(self):
        import random
        rng = random.Random(1801)
        F = Fraction
        out = []
        # regression cases of the repaired defect D10 (must PASS): the design's witness -- clustered positions, 4
        # blocks requested, only 2 produced before the fix (equal-count fallback now gives 4)
        out.append(self._mk(rng, [[F(0), F(1, 100), F(2, 100), F(1)]], 4, ntaxa=3, ntrait=1, ustyle="pow2"))
        # the pinned test layout (17 markers, 3 chromosomes, 5 blocks)
        pinned = [[F(s) for s in c] for c in (["0.10", "1.35", "1.56", "2.10", "2.15", "2.72", "3.04"],
                                              ["-0.49", "-0.06", "0.59", "0.81"],
                                              ["-0.18", "-0.04", "0.24", "0.25", "1.04", "1.63"])]
        out.append(self._mk(rng, pinned, 5, ntaxa=3, ntrait=2, ustyle="small"))
        # markers exactly on boundaries: 0,1,2,3,4 in 2 / 4 bins; later bin wins
        out.append(self._mk(rng, [[F(i) for i in range(5)]], 2, ntaxa=3, ntrait=1, ustyle="pow2"))
        out.append(self._mk(rng, [[F(i) for i in range(5)]], 4, ntaxa=3, ntrait=1, ustyle="pow2"))
        # a bin whose only marker sits on its upper boundary: (0,2,3,4) in 4 bins -> label 1 was unused (D10 regression)
        out.append(self._mk(rng, [[F(0), F(2), F(3), F(4)]], 4, ntaxa=2, ntrait=1, ustyle="pow2"))
        # as many blocks as markers, evenly spread: every marker its own block
        out.append(self._mk(rng, [[F(0), F(1), F(2)], [F(5), F(6)]], 5, ntaxa=3, ntrait=2, ustyle="pow2"))
        # one block per chromosome (lower end of the quantifier)
        out.append(self._mk(rng, [[F(0), F(3), F(4)], [F(1), F(2)], [F(7)]], 3, ntaxa=4, ntrait=1, ustyle="small"))
        # zero total genetic length: ideal = NaN, extra blocks go to the first chromosome WITH ROOM (D10 regression:
        # before the fix chromosome 0 got all of them and the marker-count guard raised for 4 blocks)
        out.append(self._mk(rng, [[F(1), F(1)], [F(2), F(2)]], 3, ntaxa=2, ntrait=1, ustyle="pow2"))
        out.append(self._mk(rng, [[F(1), F(1)], [F(2), F(2)]], 4, ntaxa=2, ntrait=1, ustyle="pow2"))
        out.append(self._mk(rng, [[F(1)], [F(2), F(2), F(2)], [F(5)]], 5, ntaxa=3, ntrait=1, ustyle="small"))
        # marker-count guard (D10 regression): 2 markers far apart got 4 of 5 blocks before the fix -> every entry
        # point raised; now the full chromosome is skipped (2 + 3)
        out.append(self._mk(rng, [[F(0), F(100)], [F(0), F(1), F(2), F(3)]], 5, ntaxa=2, ntrait=1, ustyle="pow2"))
        # further D10 regression layouts: blocks == markers on clustered positions over 2 and 3 chromosomes, duplicated
        # positions (equal-count blocks split markers that share a position), one-marker chromosomes next to a long one
        out.append(self._mk(rng, [[F(0), F(1, 64), F(2, 64), F(9)], [F(0), F(5)]], 6, ntaxa=3, ntrait=2, ustyle="small"))
        out.append(self._mk(rng, [[F(3)], [F(0), F(0), F(0), F(7)], [F(2)]], 5, ntaxa=3, ploidy=3, ntrait=1, ustyle="dyadic"))
        out.append(self._mk(rng, [[F(0), F(0), F(1), F(1), F(1), F(8)]], 5, ntaxa=2, ploidy=1, ntrait=1, ustyle="pow2"))
        out.append(self._mk(rng, [[F(0), F(1000)], [F(0), F(1), F(2)], [F(0), F(1)]], 6, ntaxa=3, ntrait=1, ustyle="offset"))
        # exact tie of the greedy loop between chromosomes of equal length
        out.append(self._mk(rng, [[F(0), F(1), F(2)], [F(0), F(1), F(2)]], 3, ntaxa=3, ntrait=1, ustyle="pow2"))
        # rejected: fewer blocks than chromosomes
        out.append(self._mk(rng, [[F(0), F(1)], [F(0), F(1)]], 1, ntaxa=2, ntrait=1, kind="reject"))
        # mutate-then-requery on one problem object (a stale cache behind the public setters would show here)
        out.append(self._mk_requery(rng, [[F(i) for i in range(5)]], 4))
        out.append(self._mk_requery(rng, [[F(0), F(1), F(2)], [F(5), F(6)]], 3))
        # sizes past internal constants -------------------------------------------------------------------
        # more cross configurations than the memory chunk of _calc_ohvmat (mem = 1024 in every factory):
        # 47 taxa, two-way, unique -> 1081 (2 chunks); 25 taxa, three-way, triploid -> 2300 (3 chunks);
        # 46 taxa, two-way with selfs -> 1081
        out.append(self._mk(rng, [[F(0), F(1), F(2)], [F(0), F(2)]], 3, ntaxa=47, ploidy=2, ntrait=2, ustyle="small",
                            nparent=2, unique=True))
        out.append(self._mk(rng, [[F(0), F(1), F(2), F(3)]], 2, ntaxa=25, ploidy=3, ntrait=1, ustyle="pow2",
                            nparent=3, unique=True))
        out.append(self._mk(rng, [[F(0), F(1)], [F(3)]], 2, ntaxa=46, ploidy=2, ntrait=1, ustyle="small",
                            nparent=2, unique=False))
        # a block of 150 markers, all alleles 1, all effects 1: block value 150 > 127 (int8 genotypes)
        out.append(self._mk(rng, [[F(i) for i in range(300)]], 2, ntaxa=2, ploidy=2, ntrait=1, ustyle="one",
                            gstyle="ones", nparent=2, unique=False))
        # more markers than 1024, three chromosomes
        out.append(self._mk(rng, [[F(i) for i in range(400)], [F(2 * i) for i in range(400)], [F(i, 2) for i in range(300)]],
                            5, ntaxa=2, ploidy=2, ntrait=1, ustyle="small", nparent=2, unique=True))
        # more blocks than 127 (130 blocks on 300 evenly spread markers: boundaries are not representable)
        out.append(self._mk(rng, [[F(i) for i in range(300)]], 130, ntaxa=2, ploidy=2, ntrait=1, ustyle="small",
                            nparent=2, unique=True))
        # rarely used options, fixed: variant mask with False entries on markers with non-zero effects, non-zero
        # intercept, Fortran-ordered arrays, non-consecutive chromosome labels, nhaploblk as numpy.int64
        out.append(self._mk(rng, [[F(0), F(1), F(2)], [F(5), F(6)]], 4, ntaxa=3, ntrait=2, ustyle="pow2", nparent=2,
                            unique=True, opts={"meta": {"mask": [True, False, True, False, True], "beta": [5, -3],
                                                        "u_misc": True, "trait_none": True},
                                               "layout": "F", "gdtype": "int64", "udtype": "int64", "nh_numpy": True,
                                               "chr0": 3, "chrstep": 4, "mems": [1, None], "xw": [3, 1]}))
        out.append(self._mk(rng, [[F(0), F(1), F(2), F(3)]], 3, ntaxa=4, ploidy=1, ntrait=1, ustyle="tiny", nparent=3,
                            unique=False, opts={"meta": {"mask": [False, True, True, False], "beta": [7],
                                                         "u_misc": False, "trait_none": False},
                                                "layout": "strided", "gdtype": "int16", "udtype": "float64",
                                                "nh_numpy": False, "chr0": 0, "chrstep": 1, "mems": [2, 3], "xw": [2, 5]}))
        # direct calls
        out.append({"kind": "haplobin", "float": False, "nblk": [3], "genpos": [0, 1, 2, 3, 4, 5, 6], "chr_sizes": [7]})
        out.append({"kind": "haplobin", "float": False, "nblk": [2, 1, 2], "chr_sizes": [7, 4, 6],
                    "genpos": _encpos(pinned)})
        out.append({"kind": "bounds", "hbin": [0, 0, 0, 0, 0, 1, 1, 1, 1, 1, 1, 1, 2, 2, 2, 2, 2, 2, 3, 3, 3]})
        out.append({"kind": "bounds", "hbin": [4]})
        out.append({"kind": "bounds", "hbin": [1, 0, 0, 1, 1, 0]})
        return out

    def _has_empty_bin_exact(self, chroms, nblk):
        for c, nb in zip(chroms, nblk):
            a, b = c[0], c[-1]
            for j in range(nb - 1):
                lo = a + j * (b - a) / nb
                hi = a + (j + 1) * (b - a) / nb
                if not any(lo <= x < hi for x in c):
                    return True
        return False

    def generate(self, rng, n, tier):
        out = []
        tries = 0
        while len(out) < n:
            tries += 1
            r = rng.random()
            if r < 0.07:
                lab = []
                k = rng.randint(0, 3)
                for _ in range(rng.randint(1, 6)):
                    lab += [k] * rng.randint(1, 4)
                    k += rng.choice([1, 1, 1, 2, -1])
                out.append({"kind": "bounds", "hbin": lab})
                continue
            if tier == "thorough" and rng.random() < 0.0015:
                out.append(self._big_case(rng))
                continue
            chroms, style = self._layout_case(rng)
            p = sum(len(c) for c in chroms)
            nchr = len(chroms)
            isfloat = style in ("float", "decimal")
            if r < 0.17:
                nblk = [rng.randint(1, max(1, len(c))) for c in chroms]
                out.append({"kind": "haplobin", "float": isfloat, "nblk": nblk,
                            "genpos": _encpos(chroms), "chr_sizes": [len(c) for c in chroms]})
                continue
            if r < 0.20 and nchr >= 2:
                out.append(self._mk(rng, chroms, rng.randint(0, nchr - 1), kind="reject", isfloat=isfloat))
                continue
            if r < 0.34:
                c = self._mk_requery(rng)
                if c is not None:
                    out.append(c)
                continue
            nh = rng.randint(nchr, p)
            if rng.random() < 0.3:
                nh = rng.choice([nchr, min(p, nchr + 1), p])
            # layouts with an empty equal-width bin (about a third of the stream) take the equal-count fallback of
            # haplobin and the capped greedy loop of nhaploblk_chrom; the others keep the equal-width labels
            ploidy = rng.choice([2, 2, 2, 2, 1, 3, 4])
            out.append(self._mk(rng, chroms, nh, ploidy=ploidy, isfloat=isfloat))
        return out

    def _big_case(self, rng):
        """more cross configurations than the memory chunk (1024) of _calc_ohvmat, on a small layout without empty bin"""
        ntaxa, nparent, unique = rng.choice([(rng.randint(47, 52), 2, True), (rng.randint(46, 50), 2, False),
                                             (rng.randint(20, 22), 3, True), (rng.randint(18, 19), 3, False),
                                             (15, 4, True), (65, 2, True)])
        F = Fraction
        chroms = rng.choice([[[F(0), F(1), F(2)], [F(0), F(2)]], [[F(0), F(1), F(2), F(3)]], [[F(0), F(1)], [F(3)]]])
        nh = rng.choice([len(chroms), len(chroms) + 1])
        return self._mk(rng, chroms, nh, ntaxa=ntaxa, ploidy=rng.choice([2, 2, 3, 4]), ntrait=rng.choice([1, 2]),
                        ustyle=rng.choice(["small", "pow2", "dyadic"]), nparent=nparent, unique=unique)

    def _mk_requery(self, rng, chroms=None, nh=None):
        """a layout (exact arithmetic styles only; clustered ones take the equal-count fallback), two data sets A and B on it"""
        for _ in range(40):
            if chroms is None:
                cs, _ = self._layout_case(rng, style=rng.choice(["even", "even", "int", "tie", "cluster"]))
                n_ = rng.randint(len(cs), sum(len(c) for c in cs))
            else:
                cs, n_ = chroms, nh
            ploidy = rng.choice([2, 2, 2, 1, 3, 4])
            c = self._mk(rng, cs, n_, ploidy=ploidy, kind="requery")
            ntaxa, p, ntrait = len(c["geno"][0]), len(c["genpos"]), len(c["u"][0])
            ploidy2 = rng.choice([ploidy, ploidy, 1, 2, 3, 4])
            c["geno2"] = [[[rng.randint(0, 1) for _ in range(p)] for _ in range(ntaxa)] for _ in range(ploidy2)]
            c["u2"] = canon.enc([[Fraction(rng.choice([1, -1]) * rng.choice([3, 5, 7, 9, 11, 13]) * 2 ** ((i + t) % 5))
                                  for t in range(ntrait)] for i in range(p)])
            c["nbest2"] = rng.randint(1, len(c["x_pop"]))
            c["dh"] = [[[rng.randrange(8), d] for _, d in ch] for ch in c["dh"]]
            # other genetic positions for the same markers and chromosomes (assigned to the container later on)
            cs2 = [self._positions(rng, rng.choice(["even", "int", "cluster", "tie"]), len(ch)) for ch in cs]
            c["genpos2"] = _encpos(cs2)
            return c
        return None

    def exhaustive(self, tier):
        """thorough tier: every layout of 1-2 chromosomes whose positions are sorted multisets over {0,1,2,3} (size 1-3
        for the first chromosome, 1-2 for the second), with every block total between the chromosome count and the
        marker count (fixed genotypes)"""
        if tier != "thorough":
            return None
        import itertools
        import random
        rng = random.Random(18)
        multis = [list(map(Fraction, c)) for k in (1, 2, 3)
                  for c in itertools.combinations_with_replacement(range(4), k)]
        out = []
        layouts = [[a] for a in multis] + [[a, b] for a in multis for b in multis if len(b) <= 2]
        for chroms in layouts:
            p = sum(len(c) for c in chroms)
            for nh in range(len(chroms), p + 1):
                out.append(self._mk(rng, chroms, nh, ntaxa=2, ploidy=2, ntrait=1, ustyle="pow2"))
        return out

    @staticmethod
    def _apportion_exact(nh, gl):
        """generator-side helper only (steers the mix of the stream; no verdict uses it)"""
        nchr = len(gl)
        nb = [1] * nchr
        s = sum(gl)
        for _ in range(nh - nchr):
            if s == 0:
                ix = 0
            else:
                d = [nb[i] - nh * gl[i] / s for i in range(nchr)]
                ix = d.index(min(d))
            nb[ix] += 1
        return nb

    # ------------------------------------------------------------------ implementation
    def run_impl(self, case):
        haplo, ohvp, opvp, gbp, ohvsel, PG, GM = _mods()
        k = case["kind"]
        if k == "bounds":
            hb = numpy.array(case["hbin"], dtype=int)
            st, sp, ln = haplo.haplobin_bounds(hb)
            return {"hstix": canon.enc(st), "hspix": canon.enc(sp), "hlen": canon.enc(ln)}
        genpos = numpy.array([_f(x) for x in case["genpos"]], dtype=float)
        stix_l, spix_l = _layout(case)
        stix, spix = numpy.array(stix_l), numpy.array(spix_l)
        if k == "haplobin":
            nblk = numpy.array(case["nblk"], dtype=int)
            g0 = genpos.copy()
            hbin = haplo.haplobin(nblk, genpos, stix, spix)
            st, sp, ln = haplo.haplobin_bounds(hbin)
            return {"hbin": canon.enc(hbin), "hstix": canon.enc(st), "hspix": canon.enc(sp), "hlen": canon.enc(ln),
                    "hbs": self._float_bounds(genpos, stix_l, spix_l, case["nblk"]),
                    "untouched": bool((g0 == genpos).all())}
        nh = case["nhaploblk"]
        if k == "reject":
            # the request is below the chromosome count: the function must refuse.  (As the tree stands the
            # refusal surfaces as IndexError, because the ValueError's message is built with "{1}".format(nchr);
            # the input is outside the property's quantifier, so only "refused, nothing returned" is demanded.)
            try:
                haplo.nhaploblk_chrom(nh, genpos, stix, spix)
                return {"raised": None}
            except (ValueError, IndexError) as e:
                return {"raised": type(e).__name__}
        if k == "requery":
            return self._run_requery(case, genpos, stix_l, spix_l)
        # ---- pipeline
        obs = {}
        opts = case.get("opts") or {}
        nblk = haplo.nhaploblk_chrom(nh, genpos, stix, spix)
        hbin = haplo.haplobin(nblk, genpos, stix, spix)
        st, sp, ln = haplo.haplobin_bounds(hbin)
        obs.update(nblk=canon.enc(nblk), hbin=canon.enc(hbin), hstix=canon.enc(st), hspix=canon.enc(sp),
                   hlen=canon.enc(ln), hbs=self._float_bounds(genpos, stix_l, spix_l, [int(v) for v in nblk]))
        geno = numpy.array(case["geno"], dtype="int8")
        u = numpy.array([[_f(v) for v in r] for r in case["u"]], dtype=float)
        m, n, p = geno.shape
        t = u.shape[1]
        hshape = (m, n, nh, t)
        hmats, finite, guard = {}, True, []
        nhx = numpy.int64(nh) if opts.get("nh_numpy") else nh
        # copy 1: pybrops.core.util.haplo.haplomat (other integer dtypes of the genome matrix, integer-valued effects
        # as an integer array, non-contiguous arrays)
        g1, gp1, u1 = self._relayout(opts.get("layout", "C"), geno.astype(opts.get("gdtype", "int8")), genpos,
                                     u.astype(opts.get("udtype", "float64")))
        _dirty(hshape)
        try:
            hm = haplo.haplomat(nhx, g1, gp1, stix, spix, spix - stix, u1)
            hmats["haplo"], f = _finite_enc(hm)
            finite &= f
        except RuntimeError as e:
            if "greater than number of available markers" not in str(e):
                raise
            guard.append("haplo")
        # the three problem classes, through the real container classes
        pg, gm = self._containers(case, geno, genpos, stix, spix, u)
        nx = len(case["x_ohv"])
        common = dict(decn_space_lower=None, decn_space_upper=None, nobj=t)

        def guarded(name, fn):
            try:
                return fn()
            except (ValueError, RuntimeError) as e:
                if "greater than number of available markers" not in str(e):
                    raise
                guard.append(name)
                return None

        def fenc(a):
            nonlocal finite
            e, f = _finite_enc(a)
            finite &= f
            return e

        xo = numpy.array(case["x_ohv"], dtype=int)
        xp = numpy.array(case["x_pop"], dtype=int)
        OHV = ohvp.OptimalHaploidValueSubsetSelectionProblem
        _dirty(hshape)
        prob = guarded("ohv", lambda: OHV.from_pgmat_gpmod(
            nparent=case["nparent"], nhaploblk=nhx, unique_parents=case["unique"], pgmat=pg, gpmod=gm,
            ndecn=nx, decn_space=numpy.arange(max(1, math.comb(n + case["nparent"], case["nparent"]))), **common))
        if prob is not None:
            xmap = prob.decn_space_xmap
            obs["xmap"] = canon.enc(xmap)
            obs["ohvmat"] = fenc(prob.ohvmat)
            obs["ohv_latent"] = fenc(prob.latentfn(xo))
            # the same query again after another one on the same object (a query must not disturb the next)
            prob.latentfn(xo[::-1])
            obs["again"] = {"ohv": fenc(prob.latentfn(xo))}
            # the haplotype matrix this class computed (static method, same arguments)
            _dirty(hshape)
            H = OHV._calc_haplomat(pg, gm, nh)
            hmats["ohv"] = fenc(H)
            # ---- secondary entry points of the same mechanism
            # (a) _calc_ohvmat called directly with other memory-chunk sizes
            obs["ohvmat_mem"] = []
            for mem in opts.get("mems", []):
                _dirty((len(xmap), t))
                obs["ohvmat_mem"].append(fenc(OHV._calc_ohvmat(H.shape[0], H, xmap, mem)))
            # (b) the selection protocols build the problem from (pgmat, gpmod): subset / real / integer / binary
            # (a subset decision holds distinct cross configurations: ncross <= number of configurations)
            pk = dict(ntrait=t, nhaploblk=nhx, unique_parents=case["unique"], ncross=min(nx, len(xmap)), nparent=case["nparent"],
                      nmating=1, nprogeny=1, nobj=t)
            if "xw" in opts:
                ws = self._weights(opts["xw"], len(xmap))
                ent = {"xmap": [], "ohvmat": [], "latent": []}
                q = ohvsel.OptimalHaploidValueSubsetSelection(**pk).problem(pg, None, None, None, gm, 0, 1)
                obs["prot_subset"] = {"xmap": canon.enc(q.decn_space_xmap), "ohvmat": fenc(q.ohvmat),
                                      "latent": fenc(q.latentfn(xo)), "eval": fenc(q.evalfn(xo)[0])}
                for nm, w, dt in (("Real", ws[0], float), ("Integer", ws[1], int), ("Binary", ws[2], int)):
                    q = getattr(ohvsel, "OptimalHaploidValue%sSelection" % nm)(**pk).problem(pg, None, None, None, gm, 0, 1)
                    ent["xmap"].append(canon.enc(q.decn_space_xmap))
                    ent["ohvmat"].append(fenc(q.ohvmat))
                    ent["latent"].append(fenc(q.latentfn(numpy.array([float(v) for v in w]).astype(dt))))
                obs["enc"] = ent
        OPV = opvp.OptimalPopulationValueSubsetSelectionProblem
        _dirty(hshape)
        prob2 = guarded("opv", lambda: OPV.from_pgmat_gpmod(
            nhaploblk=nhx, pgmat=pg, gpmod=gm, ndecn=len(xp), decn_space=numpy.arange(n), **common))
        if prob2 is not None:
            hmats["opv"] = fenc(prob2.haplomat)
            obs["opv_latent"] = fenc(prob2.latentfn(xp))
            prob2.latentfn(numpy.arange(n)[::-1].copy())
            obs.setdefault("again", {})["opv"] = fenc(prob2.latentfn(xp))
            if "xw" in opts:
                q = _PROT[0].OptimalPopulationValueSubsetSelection(
                    ntrait=t, nhaploblk=nhx, ncross=1, nparent=len(xp), nmating=1, nprogeny=1, nobj=t
                ).problem(pg, None, None, None, gm, 0, 1)
                hmats["opv_prot"] = fenc(q.haplomat)
                obs["opv_prot"] = fenc(q.latentfn(xp))
        GB = gbp.GenotypeBuilderSubsetSelectionProblem
        _dirty(hshape)
        prob3 = guarded("gb", lambda: GB.from_pgmat_gpmod(
            pgmat=pg, gpmod=gm, nhaploblk=nhx, nbestfndr=case["nbest"], ndecn=len(xp),
            decn_space=numpy.arange(n), **common))
        if prob3 is not None:
            hmats["gb"] = fenc(prob3.haplomat)
            obs["gb_latent"] = fenc(prob3.latentfn(xp))
            prob3.latentfn(numpy.arange(n)[::-1].copy())
            obs.setdefault("again", {})["gb"] = fenc(prob3.latentfn(xp))
            if "xw" in opts:
                q = _PROT[1].GenotypeBuilderSubsetSelection(
                    ntrait=t, nhaploblk=nhx, nbestfndr=case["nbest"], ncross=1, nparent=len(xp), nmating=1,
                    nprogeny=1, nobj=t
                ).problem(pg, None, None, None, gm, 0, 1)
                hmats["gb_prot"] = fenc(q.haplomat)
                obs["gb_prot"] = fenc(q.latentfn(xp))
        # the containers and the arrays handed over are read-only inputs of every entry point
        obs["inputs_untouched"] = bool(numpy.array_equal(pg.mat, geno) and numpy.array_equal(gm.u_a, u)
                                       and numpy.array_equal(pg.vrnt_genpos, genpos)
                                       and numpy.array_equal(g1, geno) and numpy.array_equal(u1, u))
        obs.update(hmats=hmats, finite=finite, guard=guard)
        return obs

    @staticmethod
    def _relayout(layout, geno, genpos, u):
        """the same values in another memory layout: Fortran order, or strided views into larger buffers"""
        if layout == "F":
            return numpy.asfortranarray(geno), genpos.copy(), numpy.asfortranarray(u)
        if layout == "strided":
            G = numpy.full((geno.shape[0], 2 * geno.shape[1], geno.shape[2] + 3), 7, dtype=geno.dtype)
            gv = G[:, ::2, 1:-2]
            gv[...] = geno
            P = numpy.full(2 * len(genpos), numpy.nan)
            pv = P[::2]
            pv[...] = genpos
            U = numpy.full((u.shape[0], u.shape[1] + 2), 99, dtype=u.dtype)
            uv = U[:, 1:-1]
            uv[...] = u
            return gv, pv, uv
        return geno, genpos.copy(), u.copy()

    def _containers(self, case, geno, genpos, stix, spix, u):
        """DensePhasedGenotypeMatrix + DenseAdditiveLinearGenomicModel carrying the case's arrays (and, when the case
        says so, every optional piece of metadata the classes accept)"""
        haplo, ohvp, opvp, gbp, ohvsel, PG, GM = _mods()
        opts = case.get("opts") or {}
        meta = opts.get("meta")
        m, n, p = geno.shape
        t = u.shape[1]
        lens = spix - stix
        chrlab = opts.get("chr0", 1) + opts.get("chrstep", 1) * numpy.arange(len(stix))
        g, gp, uu = self._relayout(opts.get("layout", "C"), geno, genpos, u)
        kw = {}
        if meta:
            kw = dict(vrnt_mask=numpy.array(meta["mask"], dtype=bool),
                      vrnt_name=numpy.array(["mk%03d" % i for i in range(p)], dtype=object),
                      vrnt_xoprob=numpy.array([0.5 if i in set(stix.tolist()) else 0.125 for i in range(p)]),
                      vrnt_hapgrp=numpy.arange(p) // 2,
                      taxa=numpy.array(["tx%02d" % i for i in range(n)], dtype=object),
                      taxa_grp=numpy.arange(n) // 2)
        pg = PG(mat=g, vrnt_chrgrp=numpy.repeat(chrlab, lens), vrnt_phypos=numpy.arange(p), vrnt_genpos=gp, **kw)
        pg.group_vrnt()
        carried = (numpy.array_equal(pg.vrnt_genpos, genpos) and numpy.array_equal(pg.vrnt_chrgrp_stix, stix)
                   and numpy.array_equal(pg.vrnt_chrgrp_spix, spix) and numpy.array_equal(pg.mat, geno))
        if not carried:
            raise RuntimeError("container changed the layout handed to it")
        beta = numpy.array([meta["beta"]], dtype=float) if meta else numpy.zeros((1, t))
        gm = GM(beta=beta, u_misc=(numpy.full((2, t), 0.5) if meta and meta["u_misc"] else None), u_a=uu,
                trait=None if meta and meta["trait_none"] else numpy.array(["t%d" % i for i in range(t)], dtype=object))
        return pg, gm

    def _run_requery(self, case, genpos, stix_l, spix_l):
        """mutate-then-requery on ONE problem object per class: build from data set A, evaluate, replace the
        value matrix (and nbestfndr) through the PUBLIC setters by that of data set B (other effects, other
        genotypes, possibly another ploidy), evaluate again, put A back, evaluate a third time"""
        haplo, ohvp, opvp, gbp, ohvsel, PG, GM = _mods()
        stix, spix = numpy.array(stix_l), numpy.array(spix_l)
        nh = case["nhaploblk"]
        nblk = haplo.nhaploblk_chrom(nh, genpos, stix, spix)
        hbin = haplo.haplobin(nblk, genpos, stix, spix)
        st, sp, ln = haplo.haplobin_bounds(hbin)
        obs = dict(nblk=canon.enc(nblk), hbin=canon.enc(hbin), hstix=canon.enc(st), hspix=canon.enc(sp),
                   hlen=canon.enc(ln), hbs=self._float_bounds(genpos, stix_l, spix_l, [int(v) for v in nblk]))
        if len(st) != nh or numpy.any(nblk > (spix - stix)):
            # fewer blocks than requested / more blocks than markers on a chromosome: the layout itself violates the
            # property (the repaired defect D10 is back); nothing further can be built on it
            obs["broken_layout"] = f"{len(st)} blocks for nhaploblk={nh}, nblk={nblk.tolist()}"
            return obs

        def data(gk, uk, reverse=False):
            geno = numpy.array(case[gk], dtype="int8")
            if reverse:
                geno = geno[:, ::-1, :].copy()
            u = numpy.array([[_f(v) for v in r] for r in case[uk]], dtype=float)
            p = geno.shape[2]
            pg = PG(mat=geno, vrnt_chrgrp=numpy.repeat(numpy.arange(1, len(stix_l) + 1), spix - stix),
                    vrnt_phypos=numpy.arange(p), vrnt_genpos=genpos.copy())
            pg.group_vrnt()
            gm = GM(beta=numpy.zeros((1, u.shape[1])), u_misc=None, u_a=u.copy(),
                    trait=numpy.array(["t%d" % i for i in range(u.shape[1])], dtype=object))
            return pg, gm

        pgA, gmA = data("geno", "u")
        pgB, gmB = data("geno2", "u2")
        n = pgA.ntaxa
        t = gmA.u_a.shape[1]
        common = dict(decn_space_lower=None, decn_space_upper=None, nobj=t)
        xp = numpy.array(case["x_pop"], dtype=int)
        xo = numpy.array(case["x_ohv"], dtype=int)
        fin = [True]

        def enc(a):
            e, f = _finite_enc(a)
            fin[0] &= f
            return e

        # --- OPV
        P = opvp.OptimalPopulationValueSubsetSelectionProblem
        p = P.from_pgmat_gpmod(nhaploblk=nh, pgmat=pgA, gpmod=gmA, ndecn=len(xp), decn_space=numpy.arange(n), **common)
        HA = p.haplomat.copy()
        r = {"first": enc(p.latentfn(xp)), "first_eval": enc(p.evalfn(xp)[0])}
        p.haplomat = P._calc_haplomat(pgB, gmB, nh)
        r.update(second=enc(p.latentfn(xp)), second_eval=enc(p.evalfn(xp)[0]), hmat2=enc(p.haplomat),
                 ploidy2=int(p.ploidy), nlatent2=int(p.nlatent))
        p.haplomat = HA
        r.update(third=enc(p.latentfn(xp)), hmat3=enc(p.haplomat))
        # fourth: the array the problem holds is edited IN PLACE (same object, new content = data A with the taxa in
        # reverse order); a value remembered from an earlier query would now be stale
        pgC, gmC = data("geno", "u", reverse=True)
        HC = P._calc_haplomat(pgC, gmC, nh)
        p.haplomat[...] = HC
        r.update(fourth=enc(p.latentfn(xp)), hmat4=enc(p.haplomat))
        obs["opv"] = r
        # --- OHV
        Q = ohvp.OptimalHaploidValueSubsetSelectionProblem
        q = Q.from_pgmat_gpmod(nparent=case["nparent"], nhaploblk=nh, unique_parents=case["unique"], pgmat=pgA,
                               gpmod=gmA, ndecn=len(xo),
                               decn_space=numpy.arange(max(1, math.comb(n + case["nparent"], case["nparent"]))), **common)
        OA = q.ohvmat.copy()
        r = {"first": enc(q.latentfn(xo)), "xmap": canon.enc(q.decn_space_xmap)}
        HB = Q._calc_haplomat(pgB, gmB, nh)
        q.ohvmat = Q._calc_ohvmat(HB.shape[0], HB, q.decn_space_xmap)
        r.update(second=enc(q.latentfn(xo)), second_eval=enc(q.evalfn(xo)[0]), ohvmat2=enc(q.ohvmat))
        q.ohvmat = OA
        r.update(third=enc(q.latentfn(xo)), ohvmat3=enc(q.ohvmat))
        q.ohvmat[...] = Q._calc_ohvmat(HC.shape[0], HC, q.decn_space_xmap)
        r.update(fourth=enc(q.latentfn(xo)), ohvmat4=enc(q.ohvmat))
        obs["ohv"] = r
        # --- GB
        G = gbp.GenotypeBuilderSubsetSelectionProblem
        g = G.from_pgmat_gpmod(pgmat=pgA, gpmod=gmA, nhaploblk=nh, nbestfndr=case["nbest"], ndecn=len(xp),
                               decn_space=numpy.arange(n), **common)
        GA = g.haplomat.copy()
        r = {"first": enc(g.latentfn(xp))}
        g.haplomat = G._calc_haplomat(pgB, gmB, nh)
        g.nbestfndr = case["nbest2"]
        r.update(second=enc(g.latentfn(xp)), second_eval=enc(g.evalfn(xp)[0]), hmat2=enc(g.haplomat),
                 nbest2=int(g.nbestfndr))
        g.haplomat = GA
        g.nbestfndr = case["nbest"]
        r.update(third=enc(g.latentfn(xp)))
        g.haplomat[...] = HC
        r.update(fourth=enc(g.latentfn(xp)), hmat4=enc(g.haplomat))
        obs["gb"] = r
        # --- ONE protocol object per class builds several problems in a row: other containers (data B); then the SAME
        # container objects with their arrays overwritten IN PLACE (identity unchanged, content = data A with the taxa
        # reversed); then -- OHV -- the protocol's unique_parents attribute re-assigned.  Anything remembered between
        # calls (per protocol, per container identity, per class) shows as a stale answer.
        nxA = len(q.decn_space_xmap)
        pk = dict(ntrait=t, nhaploblk=nh, ncross=max(1, min(len(xo), nxA)), nparent=case["nparent"], nmating=1,
                  nprogeny=1, nobj=t)
        P1 = ohvsel.OptimalHaploidValueSubsetSelection(unique_parents=case["unique"], **dict(pk, ncross=1))
        P2 = _PROT[0].OptimalPopulationValueSubsetSelection(**dict(pk, ncross=1, nparent=len(xp)))
        P3 = _PROT[1].GenotypeBuilderSubsetSelection(nbestfndr=case["nbest"], **dict(pk, ncross=1, nparent=len(xp)))
        args = lambda pg, gm: (pg, None, None, None, gm, 0, 1)
        for Pk in (P1, P2, P3):
            Pk.problem(*args(pgA, gmA))
        r = {}
        q1, q2, q3 = P1.problem(*args(pgB, gmB)), P2.problem(*args(pgB, gmB)), P3.problem(*args(pgB, gmB))
        r["second"] = {"xmap": canon.enc(q1.decn_space_xmap), "ohvmat": enc(q1.ohvmat), "opv_hmat": enc(q2.haplomat),
                       "opv": enc(q2.latentfn(xp)), "gb_hmat": enc(q3.haplomat), "gb": enc(q3.latentfn(xp))}
        pgA.mat[...] = pgC.mat                       # same objects, new content
        q1, q2, q3 = P1.problem(*args(pgA, gmA)), P2.problem(*args(pgA, gmA)), P3.problem(*args(pgA, gmA))
        r["fourth"] = {"xmap": canon.enc(q1.decn_space_xmap), "ohvmat": enc(q1.ohvmat), "opv_hmat": enc(q2.haplomat),
                       "opv": enc(q2.latentfn(xp)), "gb_hmat": enc(q3.haplomat), "gb": enc(q3.latentfn(xp))}
        flip = not case["unique"]
        if not (flip and case["nparent"] > n):
            P1.unique_parents = flip
            q1 = P1.problem(*args(pgB, gmB))
            r["fifth"] = {"xmap": canon.enc(q1.decn_space_xmap), "ohvmat": enc(q1.ohvmat), "unique": flip}
        if "genpos2" in case:
            # sixth: the genetic positions held by the container are RE-ASSIGNED (same markers, same chromosomes, other
            # map): every block boundary may move; a layout remembered per container / per protocol is stale now
            gp2 = numpy.array([_f(x) for x in case["genpos2"]], dtype=float)
            pgB.vrnt_genpos = gp2.copy()
            nb2 = haplo.nhaploblk_chrom(nh, gp2, stix, spix)
            hb2 = haplo.haplobin(nb2, gp2, stix, spix)
            s2, e2, l2 = haplo.haplobin_bounds(hb2)
            q1, q2, q3 = P1.problem(*args(pgB, gmB)), P2.problem(*args(pgB, gmB)), P3.problem(*args(pgB, gmB))
            r["sixth"] = {"nblk": canon.enc(nb2), "hbin": canon.enc(hb2), "hstix": canon.enc(s2), "hspix": canon.enc(e2),
                          "hlen": canon.enc(l2), "hbs": self._float_bounds(gp2, stix_l, spix_l, [int(v) for v in nb2]),
                          "xmap": canon.enc(q1.decn_space_xmap), "ohvmat": enc(q1.ohvmat),
                          "opv_hmat": enc(q2.haplomat), "opv": enc(q2.latentfn(xp)),
                          "gb_hmat": enc(q3.haplomat), "gb": enc(q3.latentfn(xp)),
                          "unique": bool(P1.unique_parents)}
        obs["prot"] = r
        obs["finite"] = fin[0]
        return obs

    @staticmethod
    def _float_bounds(genpos, stix, spix, nblk):
        """numpy's own boundaries for every chromosome (same call as the code under test), exact"""
        return [canon.enc(numpy.linspace(genpos[a], genpos[b - 1], nb + 1)) for a, b, nb in zip(stix, spix, nblk)]

    # ------------------------------------------------------------------ model requests
    # answers of the (deterministic) driver ops, memoised per process by request text: the self-test evaluates the
    # same cases under every mutant, and most requests -- the model of the unchanged code, the Spec of outputs the
    # mutant did not change -- repeat verbatim.  A request whose answer is known is not sent again; the answer list
    # handed to the judge is re-assembled from the memo and the fresh answers, in request order.
    _MEMO = {}
    _PENDING = {}
    _MEMO_MAX = 60000

    def requests(self, case, obs):
        import hashlib
        import json
        reqs = self._requests(case, obs)
        keys, out = [], []
        for r in reqs:
            k = hashlib.sha1(json.dumps(r, sort_keys=True).encode()).digest()
            hit = k in self._MEMO
            keys.append((k, hit))
            if not hit:
                out.append(r)
        self._PENDING[id(obs)] = keys
        return out

    def judge(self, case, obs, answers):
        keys = self._PENDING.pop(id(obs), None)
        if keys is not None and sum(1 for _, hit in keys if not hit) == len(answers):
            full, it = [], iter(answers)
            for k, hit in keys:
                if hit:
                    full.append({"ok": self._MEMO[k]})
                else:
                    a = next(it)
                    if "ok" in a and len(self._MEMO) < self._MEMO_MAX:
                        self._MEMO[k] = a["ok"]
                    full.append(a)
            answers = full
        return self._judge(case, obs, answers)

    def _requests(self, case, obs):
        k = case["kind"]
        if k == "bounds":
            return [{"op": "c18.bounds", "hbin": case["hbin"]}]
        stix, spix = _layout(case)
        lay = {"genpos": case["genpos"], "stix": stix, "spix": spix}
        if k == "haplobin":
            return [{"op": "c18.haplobin", "nblk": case["nblk"], "hbs": obs["hbs"], **lay, **_VAR},
                    {"op": "c18.bounds", "hbin": obs["hbin"]}]
        if k == "reject":
            return [{"op": "c18.nblk", "nhaploblk": case["nhaploblk"], **lay, **_VAR}]
        nh = case["nhaploblk"]
        if k == "requery":
            reqs = [{"op": "c18.nblk", "nhaploblk": nh, **lay, **_VAR},
                    {"op": "c18.haplobin", "nblk": obs["nblk"], "hbs": obs["hbs"], **lay, **_VAR}]
            if "broken_layout" in obs:
                return reqs
            base = {"nhaploblk": nh, "nparent": case["nparent"], "unique": case["unique"], "x_ohv": case["x_ohv"],
                    "x_pop": case["x_pop"], **lay}
            sbase = {"op": "c18.spec", "nblk": obs["nblk"], "hbin": obs["hbin"], "hstix": obs["hstix"],
                     "hspix": obs["hspix"], "hlen": obs["hlen"], "dh": case["dh"], "xmap": obs["ohv"]["xmap"], **base}
            reqs += [
                {"op": "c18.model", "guard": True, "geno": case["geno"], "u": case["u"], "nbest": case["nbest"],
                 **base, **_VAR},
                {"op": "c18.model", "guard": True, "geno": case["geno2"], "u": case["u2"], "nbest": case["nbest2"],
                 **base, **_VAR},
                # Spec on the SECOND answers against the NEW data (B) ...
                {**sbase, "geno": case["geno2"], "u": case["u2"], "hmats": [obs["opv"]["hmat2"], obs["gb"]["hmat2"]],
                 "ohvmat": obs["ohv"]["ohvmat2"], "opv_latent": obs["opv"]["second"],
                 "ohv_latent": obs["ohv"]["second"], "gb_latent": obs["gb"]["second"], "nbest": case["nbest2"]},
                # ... and on the THIRD answers against the data put back (A)
                {**sbase, "geno": case["geno"], "u": case["u"], "hmats": [obs["opv"]["hmat3"]],
                 "ohvmat": obs["ohv"]["ohvmat3"], "opv_latent": obs["opv"]["third"],
                 "ohv_latent": obs["ohv"]["third"], "gb_latent": obs["gb"]["third"], "nbest": case["nbest"]},
            ]
            if "fourth" in obs["opv"]:
                genoC = [[row for row in reversed(gm)] for gm in case["geno"]]
                reqs += [
                    {"op": "c18.model", "guard": True, "geno": genoC, "u": case["u"], "nbest": case["nbest"],
                     **base, **_VAR},
                    # ... and on the FOURTH answers against the data written in place (A, taxa reversed)
                    {**sbase, "geno": genoC, "u": case["u"], "hmats": [obs["opv"]["hmat4"], obs["gb"]["hmat4"]],
                     "ohvmat": obs["ohv"]["ohvmat4"], "opv_latent": obs["opv"]["fourth"],
                     "ohv_latent": obs["ohv"]["fourth"], "gb_latent": obs["gb"]["fourth"], "nbest": case["nbest"]},
                ]
            if "prot" in obs:
                pr = obs["prot"]
                psb = {k: v for k, v in sbase.items() if k not in ("x_ohv",)}
                for step, g_, u_ in (("second", case["geno2"], case["u2"]), ("fourth", genoC, case["u"])):
                    o = pr[step]
                    reqs.append({**psb, "geno": g_, "u": u_, "xmap": o["xmap"], "hmats": [o["opv_hmat"], o["gb_hmat"]],
                                 "ohvmat": o["ohvmat"], "opv_latent": o["opv"], "gb_latent": o["gb"],
                                 "nbest": case["nbest"]})
                if "fifth" in pr:
                    o = pr["fifth"]
                    reqs.append({"op": "c18.model", "guard": True, "geno": case["geno2"], "u": case["u2"],
                                 "nbest": case["nbest"], **dict(base, unique=o["unique"], x_ohv=[]), **_VAR})
                    reqs.append({**psb, "geno": case["geno2"], "u": case["u2"], "xmap": o["xmap"], "hmats": [],
                                 "ohvmat": o["ohvmat"], "unique": o["unique"]})
                if "sixth" in pr:
                    o = pr["sixth"]
                    lay2 = {"genpos": case["genpos2"], "stix": stix, "spix": spix}
                    b2 = dict(base, unique=o["unique"], x_ohv=[], **lay2)
                    reqs += [{"op": "c18.nblk", "nhaploblk": nh, **lay2, **_VAR},
                             {"op": "c18.haplobin", "nblk": o["nblk"], "hbs": o["hbs"], **lay2, **_VAR},
                             {"op": "c18.model", "guard": True, "geno": case["geno2"], "u": case["u2"],
                              "nbest": case["nbest"], **b2, **_VAR},
                             {"op": "c18.spec", "nblk": o["nblk"], "hbin": o["hbin"], "hstix": o["hstix"],
                              "hspix": o["hspix"], "hlen": o["hlen"], "dh": case["dh"], "xmap": o["xmap"],
                              "nhaploblk": nh, "nparent": case["nparent"], "unique": o["unique"],
                              "x_pop": case["x_pop"], **lay2, "geno": case["geno2"], "u": case["u2"],
                              "hmats": [o["opv_hmat"], o["gb_hmat"]], "ohvmat": o["ohvmat"], "opv_latent": o["opv"],
                              "gb_latent": o["gb"], "nbest": case["nbest"]}]
            return reqs
        opts = case.get("opts") or {}
        model = {"op": "c18.model", "nhaploblk": nh, "guard": True, "geno": case["geno"], "u": case["u"],
                 "nparent": case["nparent"], "unique": case["unique"], "x_ohv": case["x_ohv"],
                 "x_pop": case["x_pop"], "nbest": case["nbest"], **lay, **_VAR}
        ws = None
        if "xmap" in obs and "xw" in opts:
            ws = [canon.enc(w) for w in self._weights(opts["xw"], len(obs["xmap"]))]
            model["xw"] = ws[0]
        if "ohvmat_mem" in obs:
            model["mems"] = opts.get("mems", [])
        reqs = [{"op": "c18.nblk", "nhaploblk": nh, **lay, **_VAR},
                {"op": "c18.haplobin", "nblk": obs["nblk"], "hbs": obs["hbs"], **lay, **_VAR},
                {"op": "c18.bounds", "hbin": obs["hbin"]},
                model]
        spec = {"op": "c18.spec", "nhaploblk": nh, "nblk": obs["nblk"], "hbin": obs["hbin"],
                "hstix": obs["hstix"], "hspix": obs["hspix"], "hlen": obs["hlen"],
                "geno": case["geno"], "u": case["u"], "hmats": list(obs["hmats"].values()), "dh": case["dh"], **lay}
        for key in ("xmap", "ohvmat", "opv_latent", "ohv_latent", "gb_latent"):
            if key in obs:
                spec[key] = obs[key]
        if "opv_latent" in obs or "gb_latent" in obs:
            spec["x_pop"] = case["x_pop"]
        if "ohv_latent" in obs:
            spec["x_ohv"] = case["x_ohv"]
        if "gb_latent" in obs:
            spec["nbest"] = case["nbest"]
        # the same quantities obtained through the secondary entry points: each must meet the definition
        more = list(obs.get("ohvmat_mem", []))
        if "prot_subset" in obs:
            more.append(obs["prot_subset"]["ohvmat"])
        if "enc" in obs:
            more += obs["enc"]["ohvmat"]
            spec.update(xws=ws, ohvmat_w=obs["enc"]["ohvmat"], ohv_latent_w=obs["enc"]["latent"])
        if more:
            spec["ohvmats"] = more
        if "opv_prot" in obs:
            spec["opv_latents"] = [obs["opv_prot"]]
        if "gb_prot" in obs:
            spec["gb_latents"] = [obs["gb_prot"]]
        ag = obs.get("again", {})
        if "opv" in ag:
            spec.setdefault("opv_latents", []).append(ag["opv"])
        if "gb" in ag:
            spec.setdefault("gb_latents", []).append(ag["gb"])
        reqs.append(spec)
        return reqs

    # ------------------------------------------------------------------ judge
    @staticmethod
    def _faithful(case, hbs_float, hbs_exact):
        """no comparison `x >= hb[j]` / `x <= hb[j+1]` differs between numpy's and the exact boundaries"""
        pos = [_fr(x) for x in case["genpos"]]
        stix, spix = _layout(case)
        for a, b, hf, he in zip(stix, spix, hbs_float, hbs_exact):
            for x in pos[a:b]:
                for f, e in zip(canon.dec(hf), canon.dec(he)):
                    if (x >= f) != (x >= e) or (x <= f) != (x <= e):
                        return False
        return True

    @staticmethod
    def _contract(case, hbs_float, nblk):
        """the rounding contract the theorems assume of `numpy.linspace` (`BoundsOK`): nhap+1 boundaries,
        sorted, first <= every marker of the chromosome <= last.  Re-checked on every concrete output."""
        pos = [_fr(x) for x in case["genpos"]]
        stix, spix = _layout(case)
        for a, b, hf, nb in zip(stix, spix, hbs_float, nblk):
            hb = canon.dec(hf)
            if len(hb) != nb + 1 or any(x > y for x, y in zip(hb, hb[1:])):
                return False
            if any(not (hb[0] <= x <= hb[-1]) for x in pos[a:b]):
                return False
        return True

    @staticmethod
    def _empty_bin(case, hbs_float):
        """the D10 condition on the INPUT: some equal-width bin [hb[j], hb[j+1]) (j not the last bin of its
        chromosome), with the boundaries numpy computes, holds no marker of the chromosome"""
        pos = [_fr(x) for x in case["genpos"]]
        stix, spix = _layout(case)
        for a, b, hf in zip(stix, spix, hbs_float):
            hb = canon.dec(hf)
            for j in range(len(hb) - 2):
                if not any(hb[j] <= x < hb[j + 1] for x in pos[a:b]):
                    return True
        return False

    def _judge(self, case, obs, answers):
        k = case["kind"]
        for a in answers:
            if "err" in a:
                raise RuntimeError("driver error: " + a["err"])
        ans = [a["ok"] for a in answers]
        if k == "bounds":
            m = ans[0]
            corr = all(m.get(x) == obs[x] for x in ("hstix", "hspix", "hlen"))
            spec, why = self._spec_bounds(case["hbin"], obs)
            return {"corr": corr, "spec": spec, "nontrivial": len(set(case["hbin"])) > 1,
                    "detail": f"bounds model={m} impl={obs} {why}"}
        if k == "haplobin":
            mb, mbd = ans
            faithful = self._faithful(case, obs["hbs"], mb["hbs"])
            corr = (self._contract(case, obs["hbs"], case["nblk"])
                    and mb["hbin_hb"] == obs["hbin"] and mb["hbin_f"] == obs["hbin"]
                    and (not faithful or mb["hbin"] == obs["hbin"])
                    and all(mbd.get(x) == obs[x] for x in ("hstix", "hspix", "hlen")))
            # Spec of a direct call: every marker labelled inside its chromosome's label range, labels
            # non-decreasing, bounds tile the markers, input untouched
            stix, spix = _layout(case)
            lab = obs["hbin"]
            ok = obs["untouched"] and len(lab) == len(case["genpos"])
            k0 = 0
            for a, b, nb in zip(stix, spix, case["nblk"]):
                ok = ok and all(k0 <= v < k0 + nb for v in lab[a:b])
                k0 += nb
            ok = ok and all(x <= y for x, y in zip(lab, lab[1:]))
            s2, why = self._spec_bounds(lab, obs)
            return {"corr": corr, "spec": ok and s2, "nontrivial": max(case["nblk"]) > 1,
                    "detail": f"haplobin faithful={faithful} model={mb['hbin']} model_hb={mb['hbin_hb']} impl={lab} {why}"}
        if k == "reject":
            m = ans[0]
            corr = (m.get("error") == "value") == (obs["raised"] is not None)
            return {"corr": corr, "spec": obs["raised"] is not None, "nontrivial": False,
                    "detail": f"reject model={m} impl={obs}"}
        if k == "requery":
            return self._judge_requery(case, obs, ans)
        # ---- pipeline
        mn, mb, mbd, mm, sp = ans
        notes = []
        robust = "nblk" in mn and canon.dec(mn["margin"]) > Fraction(1, 10 ** 9)
        faithful = self._faithful(case, obs["hbs"], mb["hbs"])
        corr = True
        if mn.get("nblk_f") != obs["nblk"]:
            corr = False
            notes.append(f"nblk model(binary64)={mn.get('nblk_f')} impl={obs['nblk']}")
        if robust and mn["nblk"] != obs["nblk"]:
            corr = False
            notes.append(f"nblk model(exact)={mn['nblk']} impl={obs['nblk']}")
        if not self._contract(case, obs["hbs"], obs["nblk"]):
            corr = False
            notes.append("numpy.linspace output violates the BoundsOK contract assumed by the theorems")
        if mb["hbin_hb"] != obs["hbin"]:
            corr = False
            notes.append(f"hbin(model on numpy's boundaries)={mb['hbin_hb']} impl={obs['hbin']}")
        if mb["hbin_f"] != obs["hbin"]:
            corr = False
            notes.append(f"hbin(model at binary64)={mb['hbin_f']} impl={obs['hbin']}")
        if faithful and mb["hbin"] != obs["hbin"]:
            corr = False
            notes.append(f"hbin(model, exact linspace)={mb['hbin']} impl={obs['hbin']}")
        if not all(mbd.get(x) == obs[x] for x in ("hstix", "hspix", "hlen")):
            corr = False
            notes.append(f"bounds model={mbd}")
        model_d10 = ("error" in mm) or any(c is None for a in mm["hmat"] for b in a for r in b for c in r)
        if True:        # the pipeline model takes its layout at binary64: compared on EVERY case
            if "error" in mm:
                # the model rejects exactly when every guarded entry point raised
                if mm["error"] != "value" or sorted(obs["guard"]) != ["gb", "haplo", "ohv", "opv"]:
                    corr = False
                    notes.append(f"model error={mm['error']} impl guard={obs['guard']}")
            else:
                if obs["guard"]:
                    corr = False
                    notes.append(f"impl raised the marker-count guard in {obs['guard']}, model did not")
                c2, n2 = self._corr_model(mm, obs, case)
                corr = corr and c2
                notes += n2
        if not (robust and faithful):
            notes.append(f"exact-arithmetic layout not compared (robust={robust} faithful={faithful}); binary64 layout is")
        failed = list(sp["failed"])
        if not obs["finite"]:
            failed.append("finite")
        if "ohv" in obs.get("again", {}) and not canon.close_enc(obs["again"]["ohv"], obs["ohv_latent"], rel=1e-9,
                                                                  abs_=1e-9 * self._scale(case)):
            failed.append("ohv_latent_def[same query again]")
        if obs["guard"]:
            failed.append("guard:" + "+".join(obs["guard"]))
        spec = not failed
        stix, spix = _layout(case)
        nontriv = (case["nhaploblk"] > len(stix) and len(case["geno"][0]) >= 2 and max(case["chr_sizes"]) >= 2)
        return {"corr": corr, "spec": spec, "nontrivial": nontriv, "failed": failed,
                "empty_bin": self._empty_bin(case, obs["hbs"]),
                # (informational) the model itself leaves block columns unwritten / refuses: only with C18_VARIANT=prerepair
                "model_predicts": bool(model_d10),
                "detail": f"spec failed={failed} checked={sp['checked']} nblk={obs['nblk']} hbin={obs['hbin']} "
                          f"blocks={len(obs['hstix'])}/{case['nhaploblk']} guard={obs['guard']} finite={obs['finite']} "
                          + "; ".join(notes)}

    def _judge_requery(self, case, obs, ans):
        mn, mb = ans[0], ans[1]
        if "broken_layout" in obs:
            return {"corr": mn.get("nblk_f") == obs["nblk"] and mb["hbin_f"] == obs["hbin"], "spec": False,
                    "nontrivial": False, "failed": ["total"], "detail": "requery: " + obs["broken_layout"]}
        mA, mB, sB, sA = ans[2:6]
        mC, sC = (ans[6], ans[7]) if len(ans) >= 8 else (None, None)
        notes, failed = [], []
        tol = 1e-9 * max(self._scale(case), self._scale(case, "u2", "geno2"))
        close = lambda a, b: canon.close_enc(a, b, rel=1e-9, abs_=tol)
        # ---- Spec: definitions re-evaluated on the data that is CURRENT at the time of the answer
        for tag, sp in (("second/new-data", sB), ("third/restored", sA)) + ((("fourth/in-place", sC),) if sC else ()):
            failed += [f"{c}[{tag}]" for c in sp["failed"]]
        if not obs["finite"]:
            failed.append("finite")
        for name in ("opv", "ohv", "gb"):
            # evalfn goes through latentfn (identity transformation, unit weights)
            if not close(obs[name]["second_eval"], obs[name]["second"]):
                failed.append(f"evalfn_vs_latentfn[{name}]")
        if obs["opv"]["ploidy2"] != len(case["geno2"]) or obs["opv"]["nlatent2"] != len(case["u2"][0]):
            failed.append("ploidy/nlatent after the setter")
        if obs["gb"]["nbest2"] != case["nbest2"]:
            failed.append("nbestfndr after the setter")
        # ---- correspondence with the model: first/third = model(A), second = model(B)
        corr = True
        if mn.get("nblk_f") != obs["nblk"] or mb["hbin_f"] != obs["hbin"]:
            corr = False
            notes.append("layout differs from the binary64 model")
        if "error" in mA or "error" in mB:
            corr = False
            notes.append(f"model refused: {mA.get('error')} {mB.get('error')}")
        else:
            pairs = [("opv", "opv_latent"), ("ohv", "ohv_latent"), ("gb", "gb_latent")]
            for name, key in pairs:
                for step, mm in (("first", mA), ("second", mB), ("third", mA)) + ((("fourth", mC),) if mC else ()):
                    if "error" in mm:
                        corr = False
                        continue
                    if None in mm[key] or not close(mm[key], obs[name][step]):
                        corr = False
                        notes.append(f"{name}.{step}: model={mm[key]} impl={obs[name][step]}")
            if not close(mB["ohvmat"], obs["ohv"]["ohvmat2"]) or not close(mB["hmat"], obs["opv"]["hmat2"]) \
                    or not close(mB["hmat"], obs["gb"]["hmat2"]) or mB["xmap"] != obs["ohv"]["xmap"]:
                corr = False
                notes.append("matrices read back after the setter differ from the model of the new data")
        # ---- protocol objects reused for several problems
        if "prot" in obs and mC is not None:
            pr = obs["prot"]
            rest = ans[8:]
            sPb, sPc = rest[0], rest[1]
            for tag, sp in (("protocol second/new-containers", sPb), ("protocol fourth/in-place", sPc)):
                failed += [f"{c}[{tag}]" for c in sp["failed"]]
            for step, mm in (("second", mB), ("fourth", mC)):
                o = pr[step]
                if "error" in mm:
                    continue
                if o["xmap"] != mm["xmap"] or not close(mm["ohvmat"], o["ohvmat"]) or not close(mm["hmat"], o["opv_hmat"]) \
                        or not close(mm["hmat"], o["gb_hmat"]) or not close(mm["opv_latent"], o["opv"]):
                    corr = False
                    notes.append(f"protocol.{step}: differs from the model of the data current at that call")
            if "fifth" in pr:
                mD, sPd = rest[2], rest[3]
                failed += [f"{c}[protocol fifth/unique_parents re-assigned]" for c in sPd["failed"]]
                if "error" in mD or pr["fifth"]["xmap"] != mD["xmap"] or not close(mD["ohvmat"], pr["fifth"]["ohvmat"]):
                    corr = False
                    notes.append("protocol.fifth: cross map / ohvmat differ from the model with unique_parents re-assigned")
            if "sixth" in pr:
                o = pr["sixth"]
                mn6, mb6, mm6, sP6 = rest[-4:]
                failed += [f"{c}[protocol sixth/genetic positions re-assigned]" for c in sP6["failed"]]
                if mn6.get("nblk_f") != o["nblk"] or mb6["hbin_f"] != o["hbin"] or mb6["hbin_hb"] != o["hbin"]:
                    corr = False
                    notes.append("protocol.sixth: layout of the re-assigned positions differs from the binary64 model")
                if "error" in mm6 or mm6["hstix"] != o["hstix"] or o["xmap"] != mm6["xmap"] \
                        or not close(mm6["ohvmat"], o["ohvmat"]) or not close(mm6["hmat"], o["opv_hmat"]) \
                        or not close(mm6["hmat"], o["gb_hmat"]) or not close(mm6["opv_latent"], o["opv"]) \
                        or not close(mm6["gb_latent"], o["gb"]):
                    corr = False
                    notes.append("protocol.sixth: differs from the model of the re-assigned positions")
        steps = ("first", "second", "third", "fourth")
        changed = any(not close(obs[nm]["first"], obs[nm][k2]) for nm in ("opv", "ohv", "gb")
                      for k2 in ("second", "fourth") if k2 in obs[nm])
        return {"corr": corr, "spec": not failed, "nontrivial": changed, "failed": failed,
                "detail": f"requery failed={failed} opv={ {k: obs['opv'].get(k) for k in steps} } "
                          f"ohv={ {k: obs['ohv'].get(k) for k in steps} } "
                          f"gb={ {k: obs['gb'].get(k) for k in steps} } " + "; ".join(notes[:6])}

    @staticmethod
    def _scale(case, ukey="u", gkey="geno"):
        """magnitude of the data: ploidy * max over traits of sum |u| (tolerances are relative to it)"""
        cols = list(zip(*[[abs(_fr(v)) for v in r] for r in case[ukey]]))
        return float(len(case[gkey]) * max((sum(c) for c in cols), default=Fraction(0)))

    def _corr_model(self, mm, obs, case):
        notes = []
        ok = True
        tol = 1e-9 * self._scale(case)
        if mm["nblk"] != obs["nblk"] or mm["hbin"] != obs["hbin"] or mm["hstix"] != obs["hstix"] \
                or mm["hspix"] != obs["hspix"]:
            ok = False
            notes.append("pipeline blocks differ")

        def cmp(model, impl, what):
            """model cells that are null (uninitialised) match anything"""
            nonlocal ok
            if isinstance(model, list):
                if not isinstance(impl, list) or len(model) != len(impl):
                    ok = False
                    notes.append(f"{what}: shape")
                    return
                for a, b in zip(model, impl):
                    cmp(a, b, what)
            elif model is not None:
                if isinstance(impl, list) or not canon.close(canon.dec(model), canon.dec(impl), rel=1e-9, abs_=tol):
                    ok = False
                    if len(notes) < 6:
                        notes.append(f"{what}: model={model} impl={impl}")

        for name, h in obs["hmats"].items():
            cmp(mm["hmat"], h, "hmat[" + name + "]")
        if "xmap" in obs and mm["xmap"] != obs["xmap"]:
            ok = False
            notes.append(f"xmap model={mm['xmap']} impl={obs['xmap']}"[:300])
        for key in ("ohvmat", "ohv_latent", "opv_latent", "gb_latent"):
            if key in obs:
                cmp(mm[key], obs[key], key)
        # secondary entry points
        for i, o in enumerate(obs.get("ohvmat_mem", [])):
            mo = mm["ohvmat_mem"][i] if i < len(mm.get("ohvmat_mem", [])) else None
            if isinstance(mo, dict) or mo is None:
                ok = False
                notes.append(f"_calc_ohvmat(mem={case['opts']['mems'][i]}): model {mo}")
            else:
                cmp(mo, o, f"_calc_ohvmat(mem={case['opts']['mems'][i]})")
        if "prot_subset" in obs:
            q = obs["prot_subset"]
            if q["xmap"] != mm["xmap"]:
                ok = False
                notes.append("protocol[subset]: cross map differs")
            cmp(mm["ohvmat"], q["ohvmat"], "protocol[subset].ohvmat")
            cmp(mm["ohv_latent"], q["latent"], "protocol[subset].latentfn")
            cmp(mm["ohv_latent"], q["eval"], "protocol[subset].evalfn")
        if "enc" in obs:
            e = obs["enc"]
            ws = self._weights(case["opts"]["xw"], len(mm["xmap"]))
            for k, nm in enumerate(("real", "integer", "binary")):
                if e["xmap"][k] != mm["xmap"]:
                    ok = False
                    notes.append(f"protocol[{nm}]: cross map differs")
                cmp(mm["ohvmat"], e["ohvmat"][k], f"protocol[{nm}].ohvmat")
                if all(c is not None for r in mm["ohvmat"] for c in r):
                    cols = list(zip(*[[canon.dec(c) for c in r] for r in mm["ohvmat"]]))
                    want = [canon.enc(-sum(w * v for w, v in zip(ws[k], col)) / sum(ws[k])) for col in cols]
                    cmp(want, e["latent"][k], f"protocol[{nm}].latentfn")
            if mm.get("ohv_latent_w") is not None:
                cmp(mm["ohv_latent_w"], e["latent"][0], "model ohvLatentW")
        if "opv_prot" in obs:
            cmp(mm["opv_latent"], obs["opv_prot"], "protocol[opv].latentfn")
        if "gb_prot" in obs:
            cmp(mm["gb_latent"], obs["gb_prot"], "protocol[gb].latentfn")
        if obs.get("inputs_untouched") is False:
            ok = False
            notes.append("an entry point modified its input arrays")
        return ok, notes[:6]

    @staticmethod
    def _spec_bounds(lab, obs):
        """(hstix, hspix, hlen) tile [0, len) by the maximal runs of the labels"""
        st, sp, ln = obs["hstix"], obs["hspix"], obs["hlen"]
        n = len(lab)
        ok = (len(st) == len(sp) == len(ln) >= 1 and st[0] == 0 and sp[-1] == n
              and all(a < b and b - a == c for a, b, c in zip(st, sp, ln))
              and all(sp[i] == st[i + 1] for i in range(len(st) - 1))
              and all(len(set(lab[a:b])) == 1 for a, b in zip(st, sp))
              and all(lab[st[i]] != lab[st[i + 1]] for i in range(len(st) - 1)))
        return ok, ("bounds tile the labels" if ok else "bounds do NOT tile the labels by maximal runs")

    # ------------------------------------------------------------------ findings / shrinking
    def signature(self, case, obs, verdict):
        """no finding of C18 is open (D10 is repaired): the signature only names the site of a failure"""
        sig = {"kind": case.get("kind"), "site": "haplobin", "cond": "none"}
        if case.get("kind") == "requery":
            sig["site"] = "problem-object"
        sig["failed"] = sorted(set(f.split("[")[0] for f in verdict.get("failed", [])))
        if verdict.get("empty_bin"):
            sig["cond"] = "empty_equal_width_bin"
        return sig

    def shrink(self, case):
        """smaller variants that are still VALID inputs (block total between chromosome count and marker count)"""
        if case.get("kind") not in ("pipeline", "requery"):
            return
        yield from self._shrink_raw(case)

    def _shrink_raw(self, case):
        rq = case["kind"] == "requery"          # second data set shrinks along with the first
        sizes = case["chr_sizes"]
        p = sum(sizes)
        nchr = len(sizes)
        # fewer blocks
        if case["nhaploblk"] > nchr:
            c = dict(case)
            c["nhaploblk"] = case["nhaploblk"] - 1
            yield c
        # drop one marker
        k = 0
        for ci, s in enumerate(sizes):
            for o in range(s):
                i = k + o
                if s == 1 and nchr == 1:
                    continue
                c = dict(case)
                ns = list(sizes)
                ns[ci] -= 1
                ns = [v for v in ns if v > 0]
                if case["nhaploblk"] < len(ns) or case["nhaploblk"] > p - 1:
                    continue
                c["chr_sizes"] = ns
                c["genpos"] = case["genpos"][:i] + case["genpos"][i + 1:]
                c["geno"] = [[g[:i] + g[i + 1:] for g in gm] for gm in case["geno"]]
                c["u"] = case["u"][:i] + case["u"][i + 1:]
                if (case.get("opts") or {}).get("meta"):
                    o = dict(case["opts"])
                    o["meta"] = dict(o["meta"], mask=o["meta"]["mask"][:i] + o["meta"]["mask"][i + 1:])
                    c["opts"] = o
                if rq:
                    c["geno2"] = [[g[:i] + g[i + 1:] for g in gm] for gm in case["geno2"]]
                    c["u2"] = case["u2"][:i] + case["u2"][i + 1:]
                yield c
            k += s
        # one trait only
        if len(case["u"][0]) > 1:
            c = dict(case)
            c["u"] = [r[:1] for r in case["u"]]
            if (case.get("opts") or {}).get("meta"):
                o = dict(case["opts"])
                o["meta"] = dict(o["meta"], beta=o["meta"]["beta"][:1])
                c["opts"] = o
            if rq:
                c["u2"] = [r[:1] for r in case["u2"]]
            yield c
        # plain options (no metadata, C order, default dtypes)
        if case.get("opts") and case["kind"] == "pipeline":
            o = case["opts"]
            if o.get("meta") or o.get("layout", "C") != "C" or o.get("gdtype", "int8") != "int8" \
                    or o.get("udtype", "float64") != "float64" or o.get("nh_numpy"):
                c = dict(case)
                c["opts"] = {k: v for k, v in o.items() if k in ("mems", "xw")}
                yield c
        # drop the last taxon
        ntaxa = len(case["geno"][0])
        if ntaxa > max(1, case["nparent"] if case["unique"] else 1):
            c = dict(case)
            c["geno"] = [gm[:-1] for gm in case["geno"]]
            nt = ntaxa - 1
            c["x_pop"] = [i for i in case["x_pop"] if i < nt] or [0]
            c["nbest"] = min(case["nbest"], len(c["x_pop"]))
            if rq:
                c["geno2"] = [gm[:-1] for gm in case["geno2"]]
                c["nbest2"] = min(case["nbest2"], len(c["x_pop"]))
            nx = math.comb(nt, case["nparent"]) if case["unique"] else math.comb(nt + case["nparent"] - 1, case["nparent"])
            c["x_ohv"] = sorted(set(i % nx for i in case["x_ohv"]))
            yield c
        # one phase less (first data set)
        if rq and len(case["geno2"]) > 1:
            c = dict(case)
            c["geno2"] = case["geno2"][:-1]
            yield c
        if len(case["geno"]) > 1:
            c = dict(case)
            c["geno"] = case["geno"][:-1]
            c["dh"] = [[[m % (len(case["geno"]) - 1), d] for m, d in ch] for ch in case["dh"]]
            yield c

    # ------------------------------------------------------------------ self-test mutants
    def mutants(self):
        haplo, ohvp, opvp, gbp, ohvsel, PG, GM = _mods()
        users = [haplo, ohvp, opvp, gbp]

        @contextlib.contextmanager
        def patch(pairs):
            """pairs: [(object, attribute, new value)]"""
            old = [(o, a, o.__dict__[a] if a in getattr(o, "__dict__", {}) else getattr(o, a)) for o, a, _ in pairs]
            for o, a, v in pairs:
                setattr(o, a, v)
            try:
                yield
            finally:
                for o, a, v in old:
                    setattr(o, a, v)

        def everywhere(name, fn):
            return [(m, name, fn) for m in users if hasattr(m, name)]

        # 1. greedy apportionment: one iteration short
        def nblk_short(nhaploblk, genpos, chrgrp_stix, chrgrp_spix):
            nchr = len(chrgrp_stix)
            if nhaploblk < nchr:
                raise ValueError("too few")
            genlen = genpos[chrgrp_spix - 1] - genpos[chrgrp_stix]
            with numpy.errstate(all="ignore"):
                ideal = (nhaploblk / genlen.sum()) * genlen
            out = numpy.ones(nchr, dtype="int")
            lens = chrgrp_spix - chrgrp_stix
            for _ in range(nhaploblk - nchr - 1):
                diff = out - ideal
                full = out >= lens              # the marker cap of the repaired code is kept
                if not full.all():
                    diff = numpy.where(full, numpy.inf, diff)
                out[diff.argmin()] += 1
            return out

        # 1b. argmax instead of argmin (total kept, blocks go to the wrong chromosome)
        def nblk_argmax(nhaploblk, genpos, chrgrp_stix, chrgrp_spix):
            nchr = len(chrgrp_stix)
            if nhaploblk < nchr:
                raise ValueError("too few")
            genlen = genpos[chrgrp_spix - 1] - genpos[chrgrp_stix]
            with numpy.errstate(all="ignore"):
                ideal = (nhaploblk / genlen.sum()) * genlen
            out = numpy.ones(nchr, dtype="int")
            lens = chrgrp_spix - chrgrp_stix
            for _ in range(nhaploblk - nchr):
                diff = out - ideal
                full = out >= lens              # the marker cap of the repaired code is kept
                if not full.all():
                    diff = numpy.where(full, -numpy.inf, diff)
                out[diff.argmax()] += 1
            return out

        # 1c. the repaired defect D10 coming back: the greedy loop without the marker cap / haplobin without the
        # equal-count fallback (the code before the fix)
        def nblk_uncapped(nhaploblk, genpos, chrgrp_stix, chrgrp_spix):
            nchr = len(chrgrp_stix)
            if nhaploblk < nchr:
                raise ValueError("too few")
            genlen = genpos[chrgrp_spix - 1] - genpos[chrgrp_stix]
            with numpy.errstate(all="ignore"):
                ideal = (nhaploblk / genlen.sum()) * genlen
            out = numpy.ones(nchr, dtype="int")
            for _ in range(nhaploblk - nchr):
                out[(out - ideal).argmin()] += 1
            return out

        def haplobin_no_fallback(nhaploblk_chrom, genpos, chrgrp_stix, chrgrp_spix):
            out = numpy.zeros(len(genpos), dtype="int")
            k = 0
            for i in range(len(chrgrp_stix)):
                nhap = nhaploblk_chrom[i]
                stix, spix = chrgrp_stix[i], chrgrp_spix[i]
                hbound = numpy.linspace(genpos[stix], genpos[spix - 1], nhap + 1)
                for j in range(nhap):
                    chrmap = genpos[stix:spix]
                    out[stix:spix][(chrmap >= hbound[j]) & (chrmap <= hbound[j + 1])] = k
                    k += 1
            return out

        # 1d. fallback variants that keep the block count but break another conjunct: the fallback labels restart at 0
        # on every chromosome (labels shared between chromosomes -> blocks merge across a chromosome boundary)
        def haplobin_fallback_restarts(nhaploblk_chrom, genpos, chrgrp_stix, chrgrp_spix):
            out = haplobin_no_fallback(nhaploblk_chrom, genpos, chrgrp_stix, chrgrp_spix)
            for i in range(len(chrgrp_stix)):
                nhap = int(nhaploblk_chrom[i])
                stix, spix = chrgrp_stix[i], chrgrp_spix[i]
                nmkr = spix - stix
                if nhap <= nmkr and len(numpy.unique(out[stix:spix])) < nhap:
                    out[stix:spix] = (numpy.arange(nmkr) * nhap) // nmkr
            return out

        # 2. bins: strict lower bound / earlier bin keeps boundary markers
        def mk_haplobin(lower_strict=False, first_wins=False):
            def haplobin(nhaploblk_chrom, genpos, chrgrp_stix, chrgrp_spix):
                out = numpy.zeros(len(genpos), dtype="int")
                k = 0
                for i in range(len(chrgrp_stix)):
                    nhap = nhaploblk_chrom[i]
                    stix, spix = chrgrp_stix[i], chrgrp_spix[i]
                    hbound = numpy.linspace(genpos[stix], genpos[spix - 1], nhap + 1)
                    done = numpy.zeros(spix - stix, dtype=bool)
                    for j in range(nhap):
                        chrmap = genpos[stix:spix]
                        lmask = (chrmap > hbound[j]) if lower_strict else (chrmap >= hbound[j])
                        mask = lmask & (chrmap <= hbound[j + 1])
                        if first_wins:
                            mask = mask & ~done
                            done |= mask
                        out[stix:spix][mask] = k
                        k += 1
                    nmkr = spix - stix          # the equal-count fallback of the repaired code is kept
                    if nhap <= nmkr and len(numpy.unique(out[stix:spix])) < nhap:
                        out[stix:spix] = (k - nhap) + (numpy.arange(nmkr) * nhap) // nmkr
                return out
            return haplobin

        # 3. run-length boundaries: start index one late
        def bounds_late(haplobin):
            hstix, hspix = [0], []
            prev = haplobin[0]
            for i in range(1, len(haplobin)):
                if haplobin[i] != prev:
                    hspix.append(i)
                    prev = haplobin[i]
                    hstix.append(min(i + 1, len(haplobin) - 1))
            hspix.append(len(haplobin))
            hstix, hspix = numpy.int_(hstix), numpy.int_(hspix)
            return hstix, hspix, hspix - hstix

        # 4. block value over st:sp-1, one mutant per copy of the fill loop
        def fill(nh, mat, genpos, stix, spix, u):
            nblk = haplo.nhaploblk_chrom(nh, genpos, stix, spix)
            if numpy.any(nblk > (spix - stix)):
                raise ValueError("number of haplotype blocks assigned to a chromosome greater than number of available markers")
            hbin = haplo.haplobin(nblk, genpos, stix, spix)
            hmat = numpy.zeros((mat.shape[0], mat.shape[1], nh, u.shape[1]), dtype=u.dtype)
            hst, hsp, _ = haplo.haplobin_bounds(hbin)
            for i in range(hmat.shape[3]):
                for j, (st, sp) in enumerate(zip(hst, hsp)):
                    hmat[:, :, j, i] = mat[:, :, st:sp - 1].dot(u[st:sp - 1, i])
            return hmat

        def haplomat_short(nhaploblk, genomemat, genpos, chrgrp_stix, chrgrp_spix, chrgrp_len, u_a):
            try:
                return fill(nhaploblk, genomemat, genpos, chrgrp_stix, chrgrp_spix, u_a)
            except ValueError as e:
                raise RuntimeError(str(e))

        def calc_short(pgmat, gpmod, nhaploblk):
            return fill(nhaploblk, pgmat.mat, pgmat.vrnt_genpos, pgmat.vrnt_chrgrp_stix, pgmat.vrnt_chrgrp_spix,
                        gpmod.u_a)

        OHV = ohvp.OptimalHaploidValueSubsetSelectionProblem
        OPV = opvp.OptimalPopulationValueSubsetSelectionProblem
        GB = gbp.GenotypeBuilderSubsetSelectionProblem
        mix_ohv = ohvp.OptimalHaploidValueSelectionProblemMixin
        mix_opv = opvp.OptimalPopulationValueSelectionProblemMixin
        mix_gb = gbp.GenotypeBuilderSelectionProblemMixin

        # 5. optimal values
        def ohvmat_phase_only(ploidy, haplomat, xmap, mem=1024):
            # best phase of the FIRST parent only
            return ploidy * haplomat[:, xmap[:, 0], :, :].max(0).sum(1)

        def ohvmat_no_ploidy(ploidy, haplomat, xmap, mem=1024):
            return haplomat[:, xmap, :, :].max((0, 2)).sum(1).astype(haplomat.dtype)

        def opv_mean(self, x, *a, **k):
            return -self.ploidy * self._haplomat[:, x, :, :].max(0).mean(0).sum(0)

        # 6. stale caches behind the public setters (only visible in build / evaluate / assign / re-evaluate)
        def opv_cached_bestphase(self, x, *a, **k):
            if "_c18_bp" not in self.__dict__:                      # lazily computed, never invalidated
                self.__dict__["_c18_bp"] = self._haplomat.max(0)
            return -self.ploidy * self.__dict__["_c18_bp"][x, :, :].max(0).sum(0)

        def opv_memo_by_x(self, x, *a, **k):
            memo = self.__dict__.setdefault("_c18_memo", {})
            key = tuple(int(v) for v in x)
            if key not in memo:
                memo[key] = -self.ploidy * self._haplomat[:, x, :, :].max((0, 1)).sum(0)
            return memo[key]

        stale_ploidy = property(lambda self: self.__dict__.setdefault("_c18_pl", self._haplomat.shape[0]))

        def _set_once(self, value):
            if "_haplomat" not in self.__dict__:                     # later assignments are silently dropped
                self._haplomat = value
        haplomat_set_once = property(lambda self: self._haplomat, _set_once)

        def ohv_cached_ohvmat(self, x, *a, **k):
            if "_c18_om" not in self.__dict__:
                self.__dict__["_c18_om"] = self._ohvmat.copy()
            return -(1.0 / len(x)) * (self.__dict__["_c18_om"][x, :].sum(0))

        def gb_cached(which):
            def latentfn(self, x, *a, **k):
                d = self.__dict__
                if "_c18_bp" not in d:
                    d["_c18_bp"] = self._haplomat.max(0)
                    d["_c18_nb"] = self.nbestfndr
                bp = d["_c18_bp"] if which == "bestphase" else self._haplomat.max(0)
                nb = d["_c18_nb"] if which == "nbestfndr" else self.nbestfndr
                best = bp[x, :, :].copy()
                best.sort(0)
                return -(self.ploidy / nb) * best[len(x) - nb:len(x), :, :].sum((0, 1))
            return latentfn

        # 7. the memory-chunk loop of _calc_ohvmat
        from pybrops.core.util.subroutines import srange as _srange

        def mk_ohvmat(kind):
            def calc(ploidy, haplomat, xmap, mem=1024):
                nconfig = xmap.shape[0]
                out = numpy.zeros((nconfig, haplomat.shape[3]), dtype=haplomat.dtype)
                step = nconfig if mem is None else mem
                bad = kind.endswith("[factories]") and mem != 1024      # the change only shows at the hard-coded size
                k = kind.split("[")[0]
                for rst, rsp in zip(range(0, nconfig, step), _srange(step, nconfig, step)):
                    xconfig = xmap[rst:rsp, :]
                    val = haplomat[:, xconfig, :, :].max((0, 2)).sum(1)
                    if kind.endswith("[factories]") and bad:
                        out[rst:rsp, :] = ploidy * val
                    elif k == "rescale":            # `out *= ploidy` inside the loop: earlier chunks rescaled again
                        out[rst:rsp, :] = val
                        out *= ploidy
                    elif k == "stop_short":         # last row of every full chunk left unwritten
                        e = rsp - 1 if rsp - rst == step and rsp < nconfig else rsp
                        out[rst:e, :] = ploidy * val[:e - rst]
                    elif k == "first_chunk_only":
                        out[rst:rsp, :] = ploidy * val
                        break
                return out
            return staticmethod(calc)

        # 8. rarely used metadata "honoured" / intercept added (one per copy of _calc_haplomat)
        def honour(mix, what):
            orig = mix.__dict__["_calc_haplomat"].__func__

            def calc(pgmat, gpmod, nhaploblk):
                class G:
                    pass
                g = G()
                g.u_a = gpmod.u_a
                if what == "mask" and pgmat.vrnt_mask is not None:
                    g.u_a = gpmod.u_a * pgmat.vrnt_mask[:, None]
                h = orig(pgmat, g, nhaploblk)
                if what == "beta":
                    h[:, :, 0, :] += numpy.asarray(gpmod.beta).sum(0) / h.shape[0]
                return h
            return staticmethod(calc)

        # 9. magnitudes / dtypes / memory layout inside the fill loop
        def mk_fill(kind):
            def fill2(nh, mat, genpos, stix, spix, u):
                nblk = haplo.nhaploblk_chrom(nh, genpos, stix, spix)
                if numpy.any(nblk > (spix - stix)):
                    raise ValueError("number of haplotype blocks assigned to a chromosome greater than number of available markers")
                hbin = haplo.haplobin(nblk, genpos, stix, spix)
                hmat = numpy.zeros((mat.shape[0], mat.shape[1], nh, u.shape[1]), dtype=u.dtype)
                hst, hsp, _ = haplo.haplobin_bounds(hbin)
                if kind == "assume_c_order":
                    mat = mat.ravel(order="K").reshape(mat.shape)
                for i in range(hmat.shape[3]):
                    for j, (st, sp) in enumerate(zip(hst, hsp)):
                        if kind == "float32":
                            hmat[:, :, j, i] = mat[:, :, st:sp].astype("float32").dot(u[st:sp, i].astype("float32"))
                        elif kind == "int8" and numpy.all(u[st:sp, i] == numpy.round(u[st:sp, i])) \
                                and numpy.all(numpy.abs(u[st:sp, i]) < 100):
                            hmat[:, :, j, i] = mat[:, :, st:sp].astype("int8").dot(u[st:sp, i].astype("int8"))
                        else:
                            hmat[:, :, j, i] = mat[:, :, st:sp].dot(u[st:sp, i])
                if kind == "flush_1e-12":
                    hmat[numpy.abs(hmat) < 1e-12] = 0.0
                if kind == "flush_tiny":
                    hmat[numpy.isclose(hmat, 0.0)] = 0.0          # numpy.isclose: atol = 1e-8
                if kind == "clip_negative":
                    hmat = numpy.clip(hmat, 0, None) if False else numpy.where(numpy.abs(hmat) < 1e-6, 0.0, hmat)
                return hmat

            def calc(pgmat, gpmod, nhaploblk):
                return fill2(nhaploblk, pgmat.mat, pgmat.vrnt_genpos, pgmat.vrnt_chrgrp_stix, pgmat.vrnt_chrgrp_spix,
                             gpmod.u_a)

            def hm(nhaploblk, genomemat, genpos, chrgrp_stix, chrgrp_spix, chrgrp_len, u_a):
                try:
                    return fill2(nhaploblk, genomemat, genpos, chrgrp_stix, chrgrp_spix, u_a)
                except ValueError as e:
                    raise RuntimeError(str(e))
            return [(haplo, "haplomat", hm)] + [(mx, "_calc_haplomat", staticmethod(calc))
                                                for mx in (mix_ohv, mix_opv, mix_gb)]

        # 10. the real / integer / binary encodings and the protocols
        OHVR = ohvp.OptimalHaploidValueRealSelectionProblem
        OHVI = ohvp.OptimalHaploidValueIntegerSelectionProblem
        OHVB = ohvp.OptimalHaploidValueBinarySelectionProblem

        def lat_unnormalised(self, x, *a, **k):
            return -x.dot(self._ohvmat)

        def lat_mean_of_selected(self, x, *a, **k):
            return -(1.0 / numpy.count_nonzero(x)) * self._ohvmat[x > 0, :].sum(0)

        orig_calc = mix_ohv.__dict__["_calc_ohvmat"].__func__
        diploid_only = staticmethod(lambda ploidy, haplomat, xmap, mem=1024: orig_calc(2, haplomat, xmap, mem))
        always_unique = property(lambda self: True, lambda self, v: None)
        opvsel_, gbsel_ = _PROT
        nh_minus = property(lambda self: max(1, self._nhaploblk - 1), lambda self, v: setattr(self, "_nhaploblk", v))
        nbest_one = property(lambda self: 1, lambda self, v: setattr(self, "_nbestfndr", v))

        # 11. a cache keyed by the identity of the array (survives an in-place edit of the data)
        def opv_cache_by_id(self, x, *a, **k):
            d = self.__dict__
            if d.get("_c18_id") != id(self._haplomat):
                d["_c18_id"] = id(self._haplomat)
                d["_c18_bp2"] = self._haplomat.max(0)
            return -self.ploidy * d["_c18_bp2"][x, :, :].max(0).sum(0)

        def ohv_cache_by_id(self, x, *a, **k):
            d = self.__dict__
            if d.get("_c18_id") != id(self._ohvmat):
                d["_c18_id"] = id(self._ohvmat)
                d["_c18_om2"] = self._ohvmat.copy()
            return -(1.0 / len(x)) * (d["_c18_om2"][x, :].sum(0))

        def gb_cache_by_id(self, x, *a, **k):
            d = self.__dict__
            if d.get("_c18_id") != id(self._haplomat):
                d["_c18_id"] = id(self._haplomat)
                d["_c18_bp2"] = self._haplomat.max(0)
            best = d["_c18_bp2"][x, :, :].copy()
            best.sort(0)
            return -(self.ploidy / self.nbestfndr) * best[len(x) - self.nbestfndr:len(x), :, :].sum((0, 1))

        # 12. round 4 -- classes of the second independent batch and protocol-level histories
        # (a) effects taken from gpmod.u (= concatenate(u_misc, u_a)) instead of gpmod.u_a: rows shifted by len(u_misc)
        def all_random_effects(mix):
            orig = mix.__dict__["_calc_haplomat"].__func__

            def calc(pgmat, gpmod, nhaploblk):
                class G:
                    pass
                g = G()
                g.u_a = gpmod.u
                return orig(pgmat, g, nhaploblk)
            return staticmethod(calc)

        # (b) maximum over the parents taken pairwise with a binary ufunc: the third parent is ignored
        def ohvmat_two_parents(ploidy, haplomat, xmap, mem=1024):
            best = haplomat.max(0)
            blk = best[xmap[:, 0], :, :]
            if xmap.shape[1] > 1:
                blk = numpy.maximum(blk, best[xmap[:, 1], :, :])
            return ploidy * blk.sum(1)

        # (c) the dot product is skipped for blocks without effect on a trait; the numpy.empty cell stays unwritten
        def mk_skip():
            def fill3(nh, mat, genpos, stix, spix, u):
                nblk = haplo.nhaploblk_chrom(nh, genpos, stix, spix)
                if numpy.any(nblk > (spix - stix)):
                    raise ValueError("number of haplotype blocks assigned to a chromosome greater than number of available markers")
                hbin = haplo.haplobin(nblk, genpos, stix, spix)
                hmat = NP.empty((mat.shape[0], mat.shape[1], nh, u.shape[1]), dtype=u.dtype)
                hst, hsp, _ = haplo.haplobin_bounds(hbin)
                for i in range(hmat.shape[3]):
                    for j, (st, sp) in enumerate(zip(hst, hsp)):
                        if not u[st:sp, i].any():
                            continue
                        hmat[:, :, j, i] = mat[:, :, st:sp].dot(u[st:sp, i])
                return hmat

            def calc(pgmat, gpmod, nhaploblk):
                return fill3(nhaploblk, pgmat.mat, pgmat.vrnt_genpos, pgmat.vrnt_chrgrp_stix, pgmat.vrnt_chrgrp_spix,
                             gpmod.u_a)

            def hm(nhaploblk, genomemat, genpos, chrgrp_stix, chrgrp_spix, chrgrp_len, u_a):
                try:
                    return fill3(nhaploblk, genomemat, genpos, chrgrp_stix, chrgrp_spix, u_a)
                except ValueError as e:
                    raise RuntimeError(str(e))
            return hm, staticmethod(calc)
        skip_hm, skip_calc = mk_skip()

        # (d) protocol objects that remember something between two calls of problem()
        def memo_problem(cls, key):
            orig = cls.__dict__["problem"]

            def problem(self, pgmat, gmat, ptdf, bvmat, gpmod, t_cur, t_max, **kw):
                memo = self.__dict__.setdefault("_c18_problems", {})
                k = key(self, pgmat, gpmod)
                if k not in memo:
                    memo[k] = orig(self, pgmat, gmat, ptdf, bvmat, gpmod, t_cur, t_max, **kw)
                return memo[k]
            return problem
        OHVS = ohvsel.OptimalHaploidValueSubsetSelection
        OPVS = opvsel_.OptimalPopulationValueSubsetSelection
        GBS = gbsel_.GenotypeBuilderSubsetSelection
        by_protocol = lambda self, pg, gm: (self.nhaploblk,)
        by_identity = lambda self, pg, gm: (id(pg), id(gm), self.nhaploblk, getattr(self, "unique_parents", None))
        by_shape = lambda self, pg, gm: (pg.mat.shape, self.nhaploblk, getattr(self, "unique_parents", None))
        xmap_memo = {}
        orig_xmap = mix_ohv.__dict__["_calc_xmap"].__func__

        def xmap_cached(ntaxa, nparent, unique_parents=True):
            k = (int(ntaxa), int(nparent))
            if k not in xmap_memo:
                xmap_memo[k] = orig_xmap(ntaxa, nparent, unique_parents)
            return xmap_memo[k]

        @contextlib.contextmanager
        def fresh_xmap_memo():
            xmap_memo.clear()
            with patch([(mix_ohv, "_calc_xmap", staticmethod(xmap_cached))]):
                yield
            xmap_memo.clear()

        # (e) the block layout remembered on the container / on the protocol (stale after vrnt_genpos is re-assigned)
        def layout_cached(where):
            def calc(pgmat, gpmod, nhaploblk):
                holder = pgmat.__dict__ if where == "container" else layout_memo
                key = ("_c18_lay", int(nhaploblk), pgmat.mat.shape[2]) if where == "container" else \
                      (id(pgmat), int(nhaploblk))
                if key not in holder:
                    gp, st, sp = pgmat.vrnt_genpos, pgmat.vrnt_chrgrp_stix, pgmat.vrnt_chrgrp_spix
                    nb = haplo.nhaploblk_chrom(nhaploblk, gp, st, sp)
                    if numpy.any(nb > (sp - st)):
                        raise ValueError("number of haplotype blocks assigned to a chromosome greater than number of available markers")
                    holder[key] = haplo.haplobin_bounds(haplo.haplobin(nb, gp, st, sp))[:2]
                hst, hsp = holder[key]
                mat, u = pgmat.mat, gpmod.u_a
                hmat = numpy.zeros((mat.shape[0], mat.shape[1], nhaploblk, u.shape[1]), dtype=u.dtype)
                for i in range(u.shape[1]):
                    for j, (a_, b_) in enumerate(zip(hst, hsp)):
                        hmat[:, :, j, i] = mat[:, :, a_:b_].dot(u[a_:b_, i])
                return hmat
            return staticmethod(calc)
        layout_memo = {}

        @contextlib.contextmanager
        def layout_by_identity(mix):
            layout_memo.clear()
            with patch([(mix, "_calc_haplomat", layout_cached("identity"))]):
                yield
            layout_memo.clear()

        # (f) a query that is right itself but disturbs the object for the next one
        orig_gb_lat = GB.__dict__["latentfn"]
        orig_opv_lat = OPV.__dict__["latentfn"]
        orig_ohv_lat = OHV.__dict__["latentfn"]

        def gb_sorts_held_matrix(self, x, *a, **k):
            out = orig_gb_lat(self, x, *a, **k)
            self._haplomat.sort(1)                       # "pre-sorted for the next call"
            return out

        def opv_negates_held_matrix(self, x, *a, **k):
            out = orig_opv_lat(self, x, *a, **k)
            numpy.negative(self._haplomat, out=self._haplomat)
            return out

        def ohv_scales_held_matrix(self, x, *a, **k):
            out = orig_ohv_lat(self, x, *a, **k)
            self._ohvmat *= (1.0 / len(x))
            return out

        return [
            ("apportion_one_iteration_short", lambda: patch(everywhere("nhaploblk_chrom", nblk_short))),
            ("apportion_argmax", lambda: patch(everywhere("nhaploblk_chrom", nblk_argmax))),
            ("D10_regression[greedy loop without marker cap]", lambda: patch(everywhere("nhaploblk_chrom", nblk_uncapped))),
            ("D10_regression[haplobin without equal-count fallback]",
             lambda: patch(everywhere("haplobin", haplobin_no_fallback))),
            ("haplobin_fallback_labels_restart_at_zero", lambda: patch(everywhere("haplobin", haplobin_fallback_restarts))),
            ("haplobin_lower_bound_strict", lambda: patch(everywhere("haplobin", mk_haplobin(lower_strict=True)))),
            ("haplobin_first_bin_wins", lambda: patch(everywhere("haplobin", mk_haplobin(first_wins=True)))),
            ("bounds_start_one_late", lambda: patch(everywhere("haplobin_bounds", bounds_late))),
            ("haplomat_slice_short[haplo]", lambda: patch([(haplo, "haplomat", haplomat_short)])),
            ("haplomat_slice_short[ohv]", lambda: patch([(mix_ohv, "_calc_haplomat", staticmethod(calc_short))])),
            ("haplomat_slice_short[opv]", lambda: patch([(mix_opv, "_calc_haplomat", staticmethod(calc_short))])),
            ("haplomat_slice_short[gb]", lambda: patch([(mix_gb, "_calc_haplomat", staticmethod(calc_short))])),
            ("ohvmat_first_parent_only", lambda: patch([(mix_ohv, "_calc_ohvmat", staticmethod(ohvmat_phase_only))])),
            ("ohvmat_without_ploidy", lambda: patch([(mix_ohv, "_calc_ohvmat", staticmethod(ohvmat_no_ploidy))])),
            ("opv_mean_over_parents", lambda: patch([(OPV, "latentfn", opv_mean)])),
            ("stale[opv: cached best-phase values]", lambda: patch([(OPV, "latentfn", opv_cached_bestphase)])),
            ("stale[opv: latentfn memoised by x]", lambda: patch([(OPV, "latentfn", opv_memo_by_x)])),
            ("stale[opv: cached ploidy]", lambda: patch([(mix_opv, "ploidy", stale_ploidy)])),
            ("stale[opv: haplomat setter ignored after construction]",
             lambda: patch([(mix_opv, "haplomat", haplomat_set_once)])),
            ("stale[ohv: cached ohvmat]", lambda: patch([(OHV, "latentfn", ohv_cached_ohvmat)])),
            ("stale[gb: cached best-phase values]", lambda: patch([(GB, "latentfn", gb_cached("bestphase"))])),
            ("stale[gb: cached nbestfndr]", lambda: patch([(GB, "latentfn", gb_cached("nbestfndr"))])),
            # round 3: sizes past the memory chunk, rarely used options, secondary entry points, magnitudes, in-place edits
            ("ohvmat_rescaled_inside_chunk_loop", lambda: patch([(mix_ohv, "_calc_ohvmat", mk_ohvmat("rescale"))])),
            ("ohvmat_rescaled_inside_chunk_loop[factories]",
             lambda: patch([(mix_ohv, "_calc_ohvmat", mk_ohvmat("rescale[factories]"))])),
            ("ohvmat_chunk_stop_short", lambda: patch([(mix_ohv, "_calc_ohvmat", mk_ohvmat("stop_short"))])),
            ("ohvmat_chunk_stop_short[factories]",
             lambda: patch([(mix_ohv, "_calc_ohvmat", mk_ohvmat("stop_short[factories]"))])),
            ("ohvmat_first_chunk_only[factories]",
             lambda: patch([(mix_ohv, "_calc_ohvmat", mk_ohvmat("first_chunk_only[factories]"))])),
            ("haplomat_honours_vrnt_mask[ohv]", lambda: patch([(mix_ohv, "_calc_haplomat", honour(mix_ohv, "mask"))])),
            ("haplomat_honours_vrnt_mask[opv]", lambda: patch([(mix_opv, "_calc_haplomat", honour(mix_opv, "mask"))])),
            ("haplomat_honours_vrnt_mask[gb]", lambda: patch([(mix_gb, "_calc_haplomat", honour(mix_gb, "mask"))])),
            ("haplomat_adds_intercept[opv]", lambda: patch([(mix_opv, "_calc_haplomat", honour(mix_opv, "beta"))])),
            ("haplomat_float32", lambda: patch(mk_fill("float32"))),
            ("haplomat_int8_accumulation", lambda: patch(mk_fill("int8"))),
            ("haplomat_flush_isclose_zero", lambda: patch(mk_fill("flush_tiny"))),
            ("haplomat_flush_below_1e-12", lambda: patch(mk_fill("flush_1e-12"))),
            ("haplomat_flush_below_1e-6", lambda: patch(mk_fill("clip_negative"))),
            ("haplomat_assumes_c_order", lambda: patch(mk_fill("assume_c_order"))),
            ("ohv_real_latent_not_normalised", lambda: patch([(OHVR, "latentfn", lat_unnormalised)])),
            ("ohv_integer_latent_mean_of_selected", lambda: patch([(OHVI, "latentfn", lat_mean_of_selected)])),
            ("ohv_binary_factory_assumes_diploid", lambda: patch([(OHVB, "_calc_ohvmat", diploid_only)])),
            ("ohv_protocol_ignores_unique_parents",
             lambda: patch([(ohvsel.OptimalHaploidValueSelectionMixin, "unique_parents", always_unique)])),
            ("opv_protocol_one_block_short",
             lambda: patch([(opvsel_.OptimalPopulationValueSelectionMixin, "nhaploblk", nh_minus)])),
            ("gb_protocol_ignores_nbestfndr",
             lambda: patch([(gbsel_.GenotypeBuilderSubsetSelection, "nbestfndr", nbest_one)])),
            ("stale[opv: best-phase cache keyed by array identity]", lambda: patch([(OPV, "latentfn", opv_cache_by_id)])),
            ("stale[ohv: ohvmat copy keyed by array identity]", lambda: patch([(OHV, "latentfn", ohv_cache_by_id)])),
            ("stale[gb: best-phase cache keyed by array identity]", lambda: patch([(GB, "latentfn", gb_cache_by_id)])),
            # round 4
            ("haplomat_effects_from_gpmod_u[ohv]", lambda: patch([(mix_ohv, "_calc_haplomat", all_random_effects(mix_ohv))])),
            ("haplomat_effects_from_gpmod_u[opv]", lambda: patch([(mix_opv, "_calc_haplomat", all_random_effects(mix_opv))])),
            ("haplomat_effects_from_gpmod_u[gb]", lambda: patch([(mix_gb, "_calc_haplomat", all_random_effects(mix_gb))])),
            ("ohvmat_third_parent_ignored", lambda: patch([(mix_ohv, "_calc_ohvmat", staticmethod(ohvmat_two_parents))])),
            ("haplomat_skips_blocks_without_effect[haplo]", lambda: patch([(haplo, "haplomat", skip_hm)])),
            ("haplomat_skips_blocks_without_effect[ohv]", lambda: patch([(mix_ohv, "_calc_haplomat", skip_calc)])),
            ("haplomat_skips_blocks_without_effect[opv]", lambda: patch([(mix_opv, "_calc_haplomat", skip_calc)])),
            ("haplomat_skips_blocks_without_effect[gb]", lambda: patch([(mix_gb, "_calc_haplomat", skip_calc)])),
            ("stale[ohv protocol: first problem returned for ever]",
             lambda: patch([(OHVS, "problem", memo_problem(OHVS, by_protocol))])),
            ("stale[ohv protocol: problem memoised by container identity]",
             lambda: patch([(OHVS, "problem", memo_problem(OHVS, by_identity))])),
            ("stale[opv protocol: problem memoised by container identity]",
             lambda: patch([(OPVS, "problem", memo_problem(OPVS, by_identity))])),
            ("stale[gb protocol: problem memoised by matrix shape]",
             lambda: patch([(GBS, "problem", memo_problem(GBS, by_shape))])),
            ("stale[ohv: cross map cached per (ntaxa, nparent), unique_parents ignored]", fresh_xmap_memo),
            ("query_disturbs_object[gb latentfn sorts the held matrix]", lambda: patch([(GB, "latentfn", gb_sorts_held_matrix)])),
            ("query_disturbs_object[opv latentfn negates the held matrix]",
             lambda: patch([(OPV, "latentfn", opv_negates_held_matrix)])),
            ("query_disturbs_object[ohv latentfn rescales ohvmat]", lambda: patch([(OHV, "latentfn", ohv_scales_held_matrix)])),
            ("stale[opv: block layout cached on the container]",
             lambda: patch([(mix_opv, "_calc_haplomat", layout_cached("container"))])),
            ("stale[ohv: block layout cached on the container]",
             lambda: patch([(mix_ohv, "_calc_haplomat", layout_cached("container"))])),
            ("stale[gb: block layout cached by container identity]", lambda: layout_by_identity(mix_gb)),
        ]


PROP = C18()
