"""C02 — realised recombination and segregation match the crossover probabilities.

Four case kinds:
  scripted  mat_meiosis / mat_dh / mat_mate (breed/prot/mate/util.py) and dense_meiosis / dense_dh /
            dense_cross (core/util/mate.py) driven by a ScriptedGenerator (ties r = xoprob, r = 0,
            r = xoprob +- 2^-53, xoprob in {0, 1/2, 1, ...}); functional correspondence with the Lean
            model + the recorded call pattern (exactly one uniform(0, 1, (nsel, nvrnt)) per meiosis);
  protocol  the seven mating protocols through the public mate() with a recording wrapper around a
            genuine seeded Generator / RandomState: call pattern, and the copy switches of the last
            meiosis (read from unique allele codes) against the recorded draws;
  embv      DenseExpectedMaximumBreedingValueMatrix.from_gmod (uses dense_dh with the global generator):
            a recorder stands in for `global_prng`, the doubled haploids are captured at the call of
            dense_dh; call pattern and copy switches against the recorded draws;
  xoprob    crossover probabilities assigned from a genetic map (gdist1g + map function, directly and
            through DensePhasedGenotypeMatrix.interp_xoprob): 1/2 exactly at every chromosome start,
            map function of the distance to the previous marker elsewhere;
  statistical-support
            statistical support (fixed seeds, corpus only): empirical segregation / pairwise
            recombination / joint frequencies of 2*10^4 (quick) or 2*10^5 (thorough) gametes against the
            exact probabilities of the Lean model, Bernstein budget (>= 7.5 sigma + 19 counts).
"""
import contextlib
import math
from fractions import Fraction

import numpy

from .. import canon, compat
from ..core import Prop

compat.install()

EPS = Fraction(1, 2 ** 53)
PROTOS = ["SelfCross", "TwoWayCross", "TwoWayDHCross", "ThreeWayCross", "ThreeWayDHCross",
          "FourWayCross", "FourWayDHCross"]
NPARENT = {"SelfCross": 1, "TwoWayCross": 2, "TwoWayDHCross": 2, "ThreeWayCross": 3,
           "ThreeWayDHCross": 3, "FourWayCross": 4, "FourWayDHCross": 4}
# false-alarm bound per statistic of the statistical support run
DELTA = 1e-12
LOGD = math.log(2.0 / DELTA)


def _mods():
    compat.import_pybrops()
    import importlib
    import pybrops.breed.prot.mate.util as mutil
    import pybrops.core.util.mate as cmate
    import pybrops.popgen.gmap.StandardGeneticMap as sgm
    import pybrops.popgen.gmap.HaldaneMapFunction as hal
    import pybrops.popgen.gmap.KosambiMapFunction as kos
    import pybrops.popgen.gmat.DensePhasedGenotypeMatrix as dpgm
    protos = {n: getattr(importlib.import_module(f"pybrops.breed.prot.mate.{n}"), n) for n in PROTOS}
    return mutil, cmate, sgm, hal, kos, dpgm, protos


def _embv_mods():
    compat.import_pybrops()
    import pybrops.model.embvmat.DenseExpectedMaximumBreedingValueMatrix as embv
    import pybrops.model.gmod.DenseAdditiveLinearGenomicModel as dalgm
    return embv, dalgm


def _f(x):
    return float(Fraction(x))


# ---------------------------------------------------------------------------------- generators
def _gen_classes():
    class Scripted:
        """mixin: `uniform` pops scripted matrices and logs (low, high, size)"""

        def _init_script(self, script):
            self.script = [numpy.array([[_f(v) for v in row] for row in m], dtype=float) for m in script]
            self.log = []

        def uniform(self, low=0.0, high=1.0, size=None):
            shape = tuple(int(s) for s in (size if isinstance(size, (tuple, list)) else
                                           (() if size is None else (size,))))
            self.log.append([canon.enc(low), canon.enc(high), list(shape)])
            nxt = self.script.pop(0) if self.script else numpy.zeros(shape)
            if int(numpy.prod(shape)) == nxt.size:
                return nxt.reshape(shape).copy()
            return numpy.resize(nxt if nxt.size else numpy.zeros(1), shape)

    class Recording:
        """mixin: genuine draws, logged with their arguments"""

        def _init_rec(self):
            self.log = []
            self.draws = []

        def uniform(self, low=0.0, high=1.0, size=None):
            out = super().uniform(low, high, size)
            shape = tuple(numpy.shape(out))
            self.log.append([canon.enc(low), canon.enc(high), list(shape)])
            self.draws.append(numpy.array(out, dtype=float, copy=True))
            return out

    class ScriptedGenerator(Scripted, numpy.random.Generator):
        def __init__(self, script):
            numpy.random.Generator.__init__(self, numpy.random.PCG64(0))
            self._init_script(script)

    class ScriptedRandomState(Scripted, numpy.random.RandomState):
        def __init__(self, script):
            numpy.random.RandomState.__init__(self, 0)
            self._init_script(script)

    class RecGenerator(Recording, numpy.random.Generator):
        def __init__(self, seed):
            numpy.random.Generator.__init__(self, numpy.random.PCG64(seed))
            self._init_rec()

    class RecRandomState(Recording, numpy.random.RandomState):
        def __init__(self, seed):
            numpy.random.RandomState.__init__(self, seed)
            self._init_rec()

    class CraftedGenerator(Recording, numpy.random.Generator):
        """a genuine Generator(MT19937) whose state is set so that its next doubles are `values`"""

        def __init__(self, values):
            bg = numpy.random.MT19937(0)
            st = bg.state
            st["state"]["key"] = _craft_key(values)
            st["state"]["pos"] = 0
            bg.state = st
            numpy.random.Generator.__init__(self, bg)
            self._init_rec()

    class CraftedRandomState(Recording, numpy.random.RandomState):
        """a genuine RandomState (MT19937) whose state is set so that its next doubles are `values`"""

        def __init__(self, values):
            numpy.random.RandomState.__init__(self, 0)
            self.set_state(("MT19937", _craft_key(values), 0, 0, 0.0))
            self._init_rec()

    return ScriptedGenerator, ScriptedRandomState, RecGenerator, RecRandomState, CraftedGenerator, CraftedRandomState


def _untemper(y):
    """inverse of the MT19937 output tempering"""
    y &= 0xFFFFFFFF
    y ^= y >> 18
    y ^= (y << 15) & 0xEFC60000
    t = y
    for _ in range(5):
        t = y ^ ((t << 7) & 0x9D2C5680)
    y = t & 0xFFFFFFFF
    t = y
    for _ in range(3):
        t = y ^ (t >> 11)
    return t & 0xFFFFFFFF


MT_MAX_DOUBLES = 312


def _craft_key(values):
    """624-word MT19937 key such that, read from position 0, the generator's next doubles
    ((a >> 5) * 2^26 + (b >> 6)) / 2^53 are exactly `values` (Fractions k / 2^53, at most 312)"""
    key = numpy.random.RandomState(12345).get_state()[1].copy()
    assert len(values) <= MT_MAX_DOUBLES
    for i, v in enumerate(values):
        k = Fraction(v) * (1 << 53)
        assert k.denominator == 1 and 0 <= k < (1 << 53)
        k = int(k)
        key[2 * i] = _untemper((k >> 26) << 5)
        key[2 * i + 1] = _untemper((k & ((1 << 26) - 1)) << 6)
    return key


(ScriptedGenerator, ScriptedRandomState, RecGenerator, RecRandomState,
 CraftedGenerator, CraftedRandomState) = _gen_classes()


def _code(t, p, j, off=0):
    """allele code unique per (taxon, phase) at every marker and varying along the chromosome"""
    return ((2 * t + p + 5 * j + off) % 256) - 128


def _geno(ntaxa, nvrnt, off=0):
    return [[[_code(t, p, j, off) for j in range(nvrnt)] for t in range(ntaxa)] for p in range(2)]


def _decode(mat, off=0):
    """(n, m) int8 codes -> (taxon, phase) arrays"""
    m = mat.shape[-1]
    v = (mat.astype(numpy.int64) + 128 - 5 * numpy.arange(m)[None, :] - off) % 256
    return v // 2, v % 2


def _xo_vector(rng, m, style=None):
    pool = [Fraction(0), Fraction(1, 2), Fraction(1), Fraction(1, 4), Fraction(1, 8), Fraction(3, 8),
            Fraction(1, 16), Fraction(3, 4), Fraction(1, 2), Fraction(1, 4)]
    xo = [rng.choice(pool) for _ in range(m)]
    if m and rng.random() < 0.6:
        xo[0] = Fraction(1, 2)
    return xo


def _draw(rng, x):
    """a scripted uniform value in [0, 1) that probes the comparison with `x`"""
    c = rng.random()
    if c < 0.22 and x < 1:
        return x                                   # exact tie
    if c < 0.32:
        return Fraction(0)
    if c < 0.42 and x > 0:
        return x - EPS
    if c < 0.52 and x + EPS < 1:
        return x + EPS
    if c < 0.57:
        return 1 - EPS
    return Fraction(rng.randrange(16), 16)


def _budget(n, p):
    """Bernstein: P(|k - n p| >= sqrt(2 L v) + 2L/3) <= 2 exp(-L) = DELTA, v = n p (1 - p)"""
    v = n * p * (1.0 - p)
    return math.sqrt(2.0 * LOGD * max(v, 0.0)) + 2.0 * LOGD / 3.0


def _haldane(d):
    return 0.5 * (1.0 - math.exp(-2.0 * d))


def _kosambi(d):
    return 0.5 * math.tanh(2.0 * d)


class C02(Prop):
    PID = "C02"
    MODULE = "PybropsModel.Props.C02"
    N_QUICK = 500
    N_THOROUGH = 6000
    RULE = ("scripted: 1-6 taxa x 0-12 markers, unique allele code per (taxon, phase, marker), xoprob from "
            "{0,1/16,1/8,1/4,3/8,1/2,3/4,1}, draws with exact ties r=xoprob, r=0, xoprob+-2^-53, 1-2^-53, both "
            "source twins (util.py / core/util/mate.py), meiosis/dh/mate, stub generators and genuine Generator(MT19937) / "
            "RandomState objects whose crafted state emits exactly the scripted values; "
            "protocol: the 7 mating protocols, 1-3 crosses, array/scalar nmating,nprogeny, nself 0-1, genuine "
            "seeded generators behind a recorder; xoprob: 1-5 chromosomes (single-marker ones included), "
            "dyadic positions with zero distances, Haldane and Kosambi, rprob1g on StandardGeneticMap and on "
            "ExtendedGeneticMap and via interp_xoprob; "
            "stat (fixed seeds): all 6 functions + 7 protocols, explicit vectors and Haldane/Kosambi maps. "
            "Non-trivial = scripted/protocol/embv case with >= 1 crossover and >= 2 gametes with different masks, "
            "xoprob case with >= 2 chromosomes, any stat case")
    TRUSTED = ["numpy Generator/RandomState.uniform(0,1,shape) delivers independent draws, each uniform on the "
               "grid k/2^53 (the theorem `draws_pushforward` turns exactly this into the Bernoulli product law)",
               "float comparison rnd < xoprob is exact (IEEE comparison of two doubles)",
               "math.exp / numpy.exp / numpy.tanh agree to 1e-12 relative"]
    ASSUMPTIONS = ["crossover probabilities and scripted draws are dyadic rationals, so the float values are exact",
                   "chromosome labels are sorted (documented precondition of gdist1g / interp_xoprob)",
                   "sel indices are non-negative (negative numpy indices are not modelled)",
                   "provenance is observable: the two copies of every parent differ at every marker",
                   "statistical cases: fixed seeds, budget sqrt(2 L v) + 2L/3 with L = ln(2e12) (Bernstein), i.e. "
                   ">= 7.5 sigma; they support the trusted generator contract, they are not what proves C02"]

    # ------------------------------------------------------------------ corpus
    def corpus(self):
        h = "1/2"
        out = [
            # ties: r == xoprob must NOT cross over; r = 0 with xoprob = 0 must not cross over
            {"kind": "scripted", "impl": "mat", "fn": "meiosis", "gen": "Generator", "geno": _geno(1, 4),
             "sel": [0, 0, 0], "xoprob": [h, 0, h, "1/4"],
             "rnd": [[[h, 0, "1/4", "1/4"], ["1/4", 0, "1/4", "1/8"], [0, 0, 0, 0]]]},
            {"kind": "scripted", "impl": "dense", "fn": "meiosis", "gen": "RandomState", "geno": _geno(2, 5),
             "sel": [1, 0, 1], "xoprob": [h, 1, 0, h, "1/8"],
             "rnd": [[[canon.enc(Fraction(1, 2) - EPS), canon.enc(1 - EPS), 0, h, "1/8"],
                      [h, 0, 0, canon.enc(Fraction(1, 2) + EPS), canon.enc(Fraction(1, 8) - EPS)],
                      ["3/4", "1/2", "1/2", "1/4", 0]]]},
            {"kind": "scripted", "impl": "mat", "fn": "mate", "gen": "Generator", "geno": _geno(3, 4),
             "mgeno": _geno(3, 4, off=64), "sel": [0, 2], "msel": [1, 1], "xoprob": [h, "1/4", "1/4", h],
             "rnd": [[["1/4", "1/8", "1/2", "3/4"], ["3/4", "1/4", "1/8", "1/4"]],
                     [["3/4", "3/4", "1/8", "1/4"], ["1/4", "1/8", "1/8", "1/8"]]]},
            {"kind": "scripted", "impl": "dense", "fn": "dh", "gen": "Generator", "geno": _geno(2, 3),
             "sel": [1, 1], "xoprob": [h, h, h], "rnd": [[["1/4", "3/4", "1/4"], ["3/4", "1/4", "3/4"]]]},
            # the same ties delivered by genuine numpy generators (crafted MT19937 states): r = 0.0 exactly
            # against xoprob 0, r = 1 - 2^-53 against xoprob 1, r = xoprob = 1/2
            {"kind": "scripted", "impl": "mat", "fn": "meiosis", "gen": "MT19937-RandomState", "geno": _geno(1, 4),
             "sel": [0, 0], "xoprob": [0, 1, h, h],
             "rnd": [[[0, canon.enc(1 - EPS), h, canon.enc(Fraction(1, 2) - EPS)], [0, 0, h, "1/4"]]]},
            {"kind": "scripted", "impl": "dense", "fn": "mate", "gen": "MT19937-Generator", "geno": _geno(2, 3),
             "mgeno": _geno(2, 3, off=32), "sel": [0, 1], "msel": [1, 0], "xoprob": [0, h, 1],
             "rnd": [[[0, h, canon.enc(1 - EPS)], [0, "1/4", 0]], [[0, "3/4", h], ["1/8", h, "1/4"]]]},
            # empty selections / no markers
            {"kind": "scripted", "impl": "mat", "fn": "meiosis", "gen": "Generator", "geno": _geno(2, 3),
             "sel": [], "xoprob": [h, h, h], "rnd": [[]]},
            {"kind": "scripted", "impl": "mat", "fn": "meiosis", "gen": "Generator", "geno": _geno(2, 0),
             "sel": [0, 1], "xoprob": [], "rnd": [[[], []]]},
            {"kind": "scripted", "impl": "mat", "fn": "meiosis", "gen": "Generator", "geno": _geno(1, 1),
             "sel": [0, 0], "xoprob": [h], "rnd": [[["1/4"], [h]]]},
            {"kind": "scripted", "impl": "dense", "fn": "meiosis", "gen": "Generator", "geno": _geno(2, 2),
             "sel": [0, 2], "xoprob": [h, h], "rnd": [[["1/4", "1/4"], ["1/4", "1/4"]]], "reject": True},
            {"kind": "xoprob", "fn": "haldane", "via": "rprob1g", "chr": [1, 1, 1, 2, 2, 3, 3, 3],
             "pos": [0, "1/8", h, 0, "1/4", "1/4", h, 1]},
            {"kind": "xoprob", "fn": "kosambi", "via": "interp", "chr": [1, 1, 1, 2, 2, 3, 3, 3],
             "pos": [0, "1/8", h, 0, "1/4", "1/4", h, 1]},
            {"kind": "xoprob", "fn": "haldane", "via": "rprob1g", "chr": [4, 7, 7, 9], "pos": [h, 0, 0, 2]},
            {"kind": "xoprob", "fn": "kosambi", "via": "extended", "chr": [4, 7, 7, 9], "pos": [h, 0, 0, 2]},
            {"kind": "xoprob", "fn": "haldane", "via": "extended", "chr": [1, 1, 1, 2, 2, 3, 3, 3],
             "pos": [0, "1/8", h, 0, "1/4", "1/4", h, 1]},
        ]
        for p in PROTOS:
            np_ = NPARENT[p]
            out.append({"kind": "protocol", "proto": p, "gen": "Generator", "seed": 11, "ntaxa": 5,
                        "xconfig": [list(range(np_)), [4 - i for i in range(np_)]] if np_ < 4 else
                        [[0, 1, 2, 3], [4, 3, 1, 0]],
                        "nmating": [2, 1], "nprogeny": [2, 3], "nself": 0,
                        "xoprob": [h, "1/4", "1/8", h, "3/8", 0, 1]})
        out.append({"kind": "embv", "gen": "Generator", "seed": 5, "ntaxa": 3,
                    "xoprob": [h, "1/8", "1/4", h, "3/8"], "nprogeny": [2, 3, 1], "nrep": 2})
        out += self._stat_cases(20000)
        return out

    def _stat_cases(self, n):
        """fixed-seed statistical support; `n` gametes each"""
        h = Fraction(1, 2)
        v1 = [h, Fraction(1, 10), Fraction(1, 5), h, Fraction(1, 20), Fraction(3, 10), h, Fraction(1, 4)]
        v2 = [h, Fraction(1, 100), Fraction(2, 5), Fraction(0), Fraction(1), h, Fraction(1, 8)]
        v3 = [Fraction(1, 5), Fraction(1, 10), Fraction(3, 10)]       # start phase NOT randomised
        maps = [("haldane", [1, 1, 1, 1, 2, 2, 2, 3, 3], ["0", "1/16", "1/4", "1/2", "0", "1/8", "3/8", "1/4", "5/4"]),
                ("kosambi", [1, 1, 1, 2, 2, 2], ["0", "1/8", "1/4", "0", "1/16", "1/2"])]
        out = []
        seed = 9000
        for tgt, xo in [("mat_meiosis", v1), ("dense_meiosis", v2), ("mat_dh", v2), ("dense_dh", v1),
                        ("mat_mate", v1), ("dense_cross", v3), ("mat_meiosis", v3)]:
            seed += 1
            out.append({"kind": "statistical-support", "target": tgt, "gen": "Generator" if seed % 2 else "RandomState",
                        "seed": seed, "n": n, "xoprob": canon.enc(xo)})
        for fn, chr_, pos in maps:
            for tgt in ("mat_meiosis", "dense_meiosis"):
                seed += 1
                out.append({"kind": "statistical-support", "target": tgt, "gen": "Generator", "seed": seed, "n": n,
                            "map": {"fn": fn, "chr": chr_, "pos": pos}})
        for i, p in enumerate(PROTOS):
            seed += 1
            c = {"kind": "statistical-support", "target": "proto:" + p, "gen": "Generator" if i % 2 == 0 else "RandomState",
                 "seed": seed, "n": n}
            if i % 3 == 0:
                c["map"] = {"fn": maps[0][0], "chr": maps[0][1], "pos": maps[0][2]}
            else:
                c["xoprob"] = canon.enc(v1 if i % 3 == 1 else v2)
            out.append(c)
        return out

    def exhaustive(self, tier):
        if tier == "thorough":
            # the same statistical cases at ten times the sample size (other seeds)
            big = self._stat_cases(200000)
            for c in big:
                c["seed"] += 500
            return big
        return None

    # ------------------------------------------------------------------ generation
    def generate(self, rng, n, tier):
        out = []
        for _ in range(n):
            r = rng.random()
            if r < 0.62:
                out.append(self._gen_scripted(rng))
            elif r < 0.80:
                out.append(self._gen_protocol(rng))
            elif r < 0.84:
                out.append(self._gen_embv(rng))
            else:
                out.append(self._gen_xoprob(rng))
        return out

    def _gen_scripted(self, rng):
        ntaxa = rng.choice([1, 1, 2, 3, 4, 6])
        m = rng.choice([1, 2, 3, 4, 5, 6, 8, 12])
        nsel = rng.choice([1, 2, 2, 3, 4, 6])
        fn = rng.choice(["meiosis", "meiosis", "dh", "mate"])
        xo = _xo_vector(rng, m)
        off = rng.randrange(256)
        case = {"kind": "scripted", "impl": rng.choice(["mat", "dense"]), "fn": fn,
                "gen": rng.choice(["Generator", "RandomState", "MT19937-Generator", "MT19937-RandomState"]),
                "geno": _geno(ntaxa, m, off), "sel": [rng.randrange(ntaxa) for _ in range(nsel)],
                "xoprob": canon.enc(xo)}
        ncall = 2 if fn == "mate" else 1
        case["rnd"] = [canon.enc([[_draw(rng, x) for x in xo] for _ in range(nsel)]) for _ in range(ncall)]
        if fn == "mate":
            mt = rng.choice([1, 2, 3])
            case["mgeno"] = _geno(mt, m, (off + 100) % 256)
            case["msel"] = [rng.randrange(mt) for _ in range(nsel)]
        if rng.random() < 0.06:
            # malformed stream: one index of sel is outside the population
            case["sel"][rng.randrange(nsel)] = ntaxa + rng.randrange(3)
            case["reject"] = True
        return case

    def _gen_protocol(self, rng):
        p = rng.choice(PROTOS)
        np_ = NPARENT[p]
        ntaxa = rng.choice([np_, np_ + 1, 6]) if np_ > 1 else rng.choice([1, 2, 4])
        ntaxa = max(ntaxa, np_)
        ncross = rng.choice([1, 1, 2, 3])
        # distinct parents inside a cross (so that the source of every cell is observable)
        xconfig = [rng.sample(range(ntaxa), np_) for _ in range(ncross)]
        scalar = rng.random() < 0.4
        nmating = rng.choice([1, 2]) if scalar else [rng.choice([1, 2, 3]) for _ in range(ncross)]
        nprogeny = rng.choice([1, 2, 4]) if scalar else [rng.choice([1, 2, 3]) for _ in range(ncross)]
        m = rng.choice([2, 3, 5, 8])
        xo = _xo_vector(rng, m)
        return {"kind": "protocol", "proto": p, "gen": rng.choice(["Generator", "RandomState"]),
                "seed": rng.randrange(1 << 30), "ntaxa": ntaxa, "xconfig": xconfig, "nmating": nmating,
                "nprogeny": nprogeny, "nself": rng.choice([0, 0, 0, 1]), "xoprob": canon.enc(xo)}

    def _gen_embv(self, rng):
        ntaxa = rng.choice([1, 2, 3, 4])
        m = rng.choice([2, 3, 5, 8])
        scalar = rng.random() < 0.4
        return {"kind": "embv", "gen": rng.choice(["Generator", "RandomState"]), "seed": rng.randrange(1 << 30),
                "ntaxa": ntaxa, "xoprob": canon.enc(_xo_vector(rng, m)),
                "nprogeny": rng.choice([1, 2, 4]) if scalar else [rng.choice([1, 2, 3, 5]) for _ in range(ntaxa)],
                "nrep": rng.choice([1, 2]) if scalar else [rng.choice([1, 2, 3]) for _ in range(ntaxa)]}

    def _gen_xoprob(self, rng):
        nchr = rng.choice([1, 2, 3, 5])
        via = rng.choice(["rprob1g", "extended", "interp"])
        labels = sorted(rng.sample(range(1, 30), nchr))
        chr_, pos = [], []
        for c in labels:
            k = rng.choice([2, 3, 4]) if via == "interp" else rng.choice([1, 1, 2, 3, 5])
            g = Fraction(rng.randrange(0, 8), 16)
            for _ in range(k):
                chr_.append(c)
                pos.append(g)
                # interp builds a spline on the knots: keep them strictly increasing there
                g += Fraction(rng.choice([1, 2, 4, 8, 16, 24] if via == "interp" else [0, 1, 2, 4, 8, 16, 24]), 32)
        return {"kind": "xoprob", "fn": rng.choice(["haldane", "haldane", "kosambi"]), "via": via,
                "chr": chr_, "pos": canon.enc(pos)}

    # ------------------------------------------------------------------ implementation
    @staticmethod
    def _k(case):
        return {"statistical-support": "stat"}.get(case["kind"], case["kind"])

    def run_impl(self, case):
        return getattr(self, "_impl_" + self._k(case))(case)

    @staticmethod
    def _fn(impl, fn):
        mutil, cmate = _mods()[:2]
        if impl == "mat":
            return {"meiosis": mutil.mat_meiosis, "dh": mutil.mat_dh, "mate": mutil.mat_mate}[fn]
        return {"meiosis": cmate.dense_meiosis, "dh": cmate.dense_dh, "mate": cmate.dense_cross}[fn]

    def _impl_scripted(self, case):
        f = self._fn(case["impl"], case["fn"])
        m = len(case["xoprob"])
        geno = numpy.array(case["geno"], dtype="int8").reshape(2, len(case["geno"][0]), m)
        sel = numpy.array(case["sel"], dtype=int)
        xo = numpy.array([_f(v) for v in case["xoprob"]], dtype=float)
        flat = [Fraction(v) for mtx in case["rnd"] for row in mtx for v in row]
        if case["gen"].startswith("MT19937") and len(flat) <= MT_MAX_DOUBLES:
            # a genuine numpy generator whose crafted state emits exactly the scripted values
            g = (CraftedGenerator if case["gen"] == "MT19937-Generator" else CraftedRandomState)(flat)
        else:
            g = (ScriptedRandomState if case["gen"].endswith("RandomState") else ScriptedGenerator)(case["rnd"])
        try:
            if case["fn"] == "mate":
                mgeno = numpy.array(case["mgeno"], dtype="int8").reshape(2, len(case["mgeno"][0]), m)
                out = f(geno, mgeno, sel, numpy.array(case["msel"], dtype=int), xo, g)
            else:
                out = f(geno, sel, xo, g)
        except IndexError as e:
            if not case.get("reject"):
                raise
            return {"rejected": canon.exc_tag(e), "calls": g.log}
        obs = {"out": canon.enc(out), "shape": list(out.shape), "calls": g.log}
        if hasattr(g, "draws"):
            got = [Fraction(float(v)) for d in g.draws for v in numpy.ravel(d)]
            if got != flat:
                raise RuntimeError("harness: crafted MT19937 state did not reproduce the scripted draws")
            obs["genuine_generator"] = True
        return obs

    def _pgmat(self, ntaxa, xo, chr_=None, pos=None):
        dpgm = _mods()[5]
        m = len(xo)
        geno = numpy.array(_geno(ntaxa, m), dtype="int8").reshape(2, ntaxa, m)
        pg = dpgm.DensePhasedGenotypeMatrix(
            geno, taxa=numpy.array(["t%02d" % i for i in range(ntaxa)], dtype=object),
            taxa_grp=numpy.arange(ntaxa),
            vrnt_chrgrp=numpy.array(chr_ if chr_ is not None else [1] * m, dtype=int),
            vrnt_phypos=numpy.arange(1, m + 1), vrnt_xoprob=numpy.array(xo, dtype=float))
        pg.group_vrnt()
        return pg

    @staticmethod
    def _labels(proto, xconfig_rows, mat):
        """observed copy in use in the LAST meiosis, per chromosome copy of the progeny.
        xconfig_rows: (nprogeny_total, nparent) parents of each progeny.  Returns
        ([label matrices], observable)"""
        labs, ok = [], True
        par = numpy.asarray(xconfig_rows)
        if proto in ("SelfCross", "TwoWayCross"):
            for c in range(2):
                t, p = _decode(mat[c])
                src = par[:, 0 if proto == "SelfCross" else c][:, None]
                ok = ok and bool((t == src).all())
                labs.append(p.astype(bool))
        elif proto == "ThreeWayCross":
            t, p = _decode(mat[0])
            ok = ok and bool((t == par[:, 0][:, None]).all())
            labs.append(p.astype(bool))
            t, p = _decode(mat[1])
            ok = ok and bool(((t == par[:, 1][:, None]) | (t == par[:, 2][:, None])).all())
            labs.append(t == par[:, 2][:, None])
        elif proto == "FourWayCross":
            t, p = _decode(mat[0])       # gamete of the (f1 x m1) hybrid = xconfig columns 2, 3
            ok = ok and bool(((t == par[:, 2][:, None]) | (t == par[:, 3][:, None])).all())
            labs.append(t == par[:, 3][:, None])
            t, p = _decode(mat[1])       # gamete of the (f2 x m2) hybrid = xconfig columns 0, 1
            ok = ok and bool(((t == par[:, 0][:, None]) | (t == par[:, 1][:, None])).all())
            labs.append(t == par[:, 1][:, None])
        else:
            ok = ok and bool((mat[0] == mat[1]).all())
            t, p = _decode(mat[0])
            if proto == "TwoWayDHCross":
                first = (t == par[:, 0][:, None])
                second = (t == par[:, 1][:, None])
            elif proto == "ThreeWayDHCross":
                first = (t == par[:, 0][:, None])
                second = (t == par[:, 1][:, None]) | (t == par[:, 2][:, None])
            else:
                first = (t == par[:, 2][:, None]) | (t == par[:, 3][:, None])
                second = (t == par[:, 0][:, None]) | (t == par[:, 1][:, None])
            ok = ok and bool((first ^ second).all())
            labs.append(second)
        return labs, ok

    def _run_proto(self, proto, gen, seed, ntaxa, xconfig, nmating, nprogeny, nself, xo, chr_=None):
        protos = _mods()[6]
        g = (RecGenerator if gen == "Generator" else RecRandomState)(seed)
        pg = self._pgmat(ntaxa, xo, chr_)
        xc = numpy.array(xconfig, dtype=int).reshape(len(xconfig), NPARENT[proto])
        nm = nmating if isinstance(nmating, int) else numpy.array(nmating, dtype=int)
        npg = nprogeny if isinstance(nprogeny, int) else numpy.array(nprogeny, dtype=int)
        out = protos[proto](rng=g).mate(pg, xc, nm, npg, nself=nself)
        nm_a = numpy.repeat(nm, len(xc)) if isinstance(nm, int) else nm
        np_a = numpy.repeat(npg, len(xc)) if isinstance(npg, int) else npg
        rows = numpy.repeat(xc, nm_a * np_a, axis=0)
        return out, g, rows, int(nm_a.sum()), int((nm_a * np_a).sum())

    def _impl_protocol(self, case):
        xo = [_f(v) for v in case["xoprob"]]
        out, g, rows, M, N = self._run_proto(case["proto"], case["gen"], case["seed"], case["ntaxa"],
                                             case["xconfig"], case["nmating"], case["nprogeny"],
                                             case["nself"], xo)
        obs = {"calls": g.log, "M": M, "N": N, "shape": list(out.mat.shape)}
        if case["nself"] == 0:
            labs, ok = self._labels(case["proto"], rows, out.mat)
            obs["labels"] = [canon.enc(l) for l in labs]
            obs["observable"] = ok
            obs["rnd"] = [canon.enc(d) for d in g.draws[-len(labs):]]
        return obs

    def _impl_embv(self, case):
        embv, dalgm = _embv_mods()
        xo = [_f(v) for v in case["xoprob"]]
        m, nt = len(xo), case["ntaxa"]
        pg = self._pgmat(nt, xo)
        gm = dalgm.DenseAdditiveLinearGenomicModel(beta=numpy.array([[1.0]]), u_misc=None, u_a=numpy.ones((m, 1)),
                                                   trait=numpy.array(["y"], dtype=object))
        g = (RecGenerator if case["gen"] == "Generator" else RecRandomState)(case["seed"])
        captured = []
        orig_dh, orig_rng = embv.dense_dh, embv.global_prng

        def rec(geno, sel, xoprob, rng):
            out = orig_dh(geno, sel, xoprob, rng)
            captured.append((numpy.array(sel).copy(), numpy.array(out).copy()))
            return out
        embv.dense_dh, embv.global_prng = rec, g
        try:
            as_arg = lambda v: v if isinstance(v, int) else numpy.array(v, dtype=int)
            res = embv.DenseExpectedMaximumBreedingValueMatrix.from_gmod(gm, pg, as_arg(case["nprogeny"]),
                                                                       as_arg(case["nrep"]))
        finally:
            embv.dense_dh, embv.global_prng = orig_dh, orig_rng
        labels, ok = [], len(captured) == len(g.draws)
        for sel, out in captured:
            t, p = _decode(out[0])
            ok = ok and bool((out[0] == out[1]).all()) and bool((t == sel[:, None]).all())
            labels.append(canon.enc(p.astype(bool)))
        return {"calls": g.log, "labels": labels, "rnd": [canon.enc(d) for d in g.draws], "observable": ok,
                "sels": [s_.tolist() for s_, _ in captured], "shape": list(res.mat.shape)}

    def _map_xoprob(self, fn, via, chr_, pos):
        mutil, cmate, sgm, hal, kos, dpgm, protos = _mods()
        chr_a = numpy.array(chr_, dtype=int)
        gen = numpy.array([_f(v) for v in pos], dtype=float)
        phy = numpy.arange(1, len(chr_) + 1) * 10
        gmap = sgm.StandardGeneticMap(chr_a, phy, gen)
        mf = (hal.HaldaneMapFunction if fn == "haldane" else kos.KosambiMapFunction)()
        if via == "rprob1g":
            return mf.rprob1g(gmap, chr_a, gen), gen
        if via == "extended":
            import pybrops.popgen.gmap.ExtendedGeneticMap as egm
            emap = egm.ExtendedGeneticMap(chr_a, phy, phy + 1, gen)
            return mf.rprob1g(emap, chr_a, gen), gen
        pg = dpgm.DensePhasedGenotypeMatrix(numpy.zeros((2, 1, len(chr_)), dtype="int8"),
                                            vrnt_chrgrp=chr_a, vrnt_phypos=phy)
        pg.group_vrnt()
        pg.interp_xoprob(gmap, mf)
        return pg.vrnt_xoprob, pg.vrnt_genpos

    def _impl_xoprob(self, case):
        xo, gp = self._map_xoprob(case["fn"], case["via"], case["chr"], case["pos"])
        return {"xoprob": canon.enc(xo), "genpos": canon.enc(gp)}

    def _impl_stat(self, case):
        n = case["n"]
        chr_ = None
        if "map" in case:
            mp = case["map"]
            xo_a, _ = self._map_xoprob(mp["fn"], "rprob1g", mp["chr"], mp["pos"])
            xo = [float(v) for v in xo_a]
            chr_ = mp["chr"]
        else:
            xo = [_f(v) for v in case["xoprob"]]
        m = len(xo)
        tgt = case["target"]
        L = []          # label matrices (n, m) of independent gametes
        ncalls = 0
        if tgt.startswith("proto:"):
            proto = tgt[6:]
            np_ = NPARENT[proto]
            out, g, rows, M, N = self._run_proto(proto, case["gen"], case["seed"], 4, [list(range(np_))],
                                                 1, n, 0, xo, chr_)
            labs, ok = self._labels(proto, rows, out.mat)
            if not ok:
                return {"observable": False}
            L = labs
            ncalls = len(g.log)
        else:
            mutil, cmate = _mods()[:2]
            f = getattr(mutil if tgt.startswith("mat_") else cmate, tgt)
            g = (RecGenerator if case["gen"] == "Generator" else RecRandomState)(case["seed"])
            geno = numpy.array(_geno(2, m), dtype="int8").reshape(2, 2, m)
            xoa = numpy.array(xo, dtype=float)
            if tgt in ("mat_mate", "dense_cross"):
                out = f(geno, geno, numpy.repeat(0, n), numpy.repeat(1, n), xoa, g)
                mats = [(out[0], 0), (out[1], 1)]
            elif tgt in ("mat_dh", "dense_dh"):
                out = f(geno, numpy.repeat(1, n), xoa, g)
                if not (out[0] == out[1]).all():
                    return {"observable": False}
                mats = [(out[0], 1)]
            else:
                out = f(geno, numpy.repeat(0, n), xoa, g)
                mats = [(out, 0)]
            for mat, src in mats:
                t, p = _decode(mat)
                if not (t == src).all():
                    return {"observable": False}
                L.append(p.astype(bool))
            ncalls = len(g.log)
        Lall = numpy.concatenate(L, axis=0)
        nn = Lall.shape[0]
        Li = Lall.astype(numpy.int64)
        T = Li.copy()
        T[:, 1:] = Li[:, 1:] ^ Li[:, :-1]
        diff = [[int((Li[:, i] != Li[:, j]).sum()) if i < j else 0 for j in range(m)] for i in range(m)]
        both = (Li.T @ Li).tolist()
        tboth = (T.T @ T).tolist()
        return {"observable": True, "n": nn, "xoprob": canon.enc(xo), "phase1": Li.sum(0).tolist(), "diff": diff,
                "both": both, "xo_count": T.sum(0).tolist(), "xo_both": tboth, "ncalls": ncalls,
                "distinct_rows": int(len(numpy.unique(Lall[: min(nn, 2000)], axis=0)))}

    # ------------------------------------------------------------------ model requests
    def requests(self, case, obs):
        k = self._k(case)
        if k == "scripted":
            req = {"op": "c02.meiosis", "fn": case["fn"], "geno": case["geno"], "sel": case["sel"],
                   "xoprob": case["xoprob"], "rnd": case["rnd"]}
            if case["fn"] == "mate":
                req["mgeno"] = case["mgeno"]
                req["msel"] = case["msel"]
            reqs = [req]
            if "rejected" in obs:
                return reqs
            out = obs["out"]
            if case["fn"] == "meiosis":
                gam = [(case["geno"], case["sel"], case["rnd"][0], out)]
            elif case["fn"] == "dh":
                gam = [(case["geno"], case["sel"], case["rnd"][0], out[0]),
                       (case["geno"], case["sel"], case["rnd"][0], out[1])]
            else:
                gam = [(case["geno"], case["sel"], case["rnd"][0], out[0]),
                       (case["mgeno"], case["msel"], case["rnd"][1], out[1])]
            for geno, sel, rnd, g in gam:
                reqs.append({"op": "c02.spec_meiosis", "geno": geno, "sel": sel, "xoprob": case["xoprob"],
                             "rnd": rnd, "gamete": g})
            return reqs
        if k == "protocol":
            reqs = [{"op": "c02.proto_calls", "proto": case["proto"], "M": obs["M"], "N": obs["N"],
                     "nself": case["nself"]}]
            if case["nself"] == 0:
                reqs += [{"op": "c02.spec_labels", "labels": l, "rnd": r, "xoprob": case["xoprob"]}
                         for l, r in zip(obs["labels"], obs["rnd"])]
            return reqs
        if k == "embv":
            full = lambda v: [v] * case["ntaxa"] if isinstance(v, int) else v
            reqs = [{"op": "c02.embv_calls", "nprogeny": full(case["nprogeny"]), "nrep": full(case["nrep"])}]
            if obs["observable"]:
                reqs += [{"op": "c02.spec_labels", "labels": l, "rnd": r, "xoprob": case["xoprob"]}
                         for l, r in zip(obs["labels"], obs["rnd"])]
            return reqs
        if k == "xoprob":
            return [{"op": "c02.gdist", "chr": case["chr"], "pos": case["pos"]}]
        if k == "stat":
            if not obs.get("observable"):
                return []
            return [{"op": "c02.probs", "xoprob": obs["xoprob"]}]
        raise ValueError(k)

    # ------------------------------------------------------------------ judge
    def judge(self, case, obs, answers):
        for a in answers:
            if "err" in a:
                raise RuntimeError("driver error: " + a["err"])
        return getattr(self, "_judge_" + self._k(case))(case, obs, [a["ok"] for a in answers])

    def _judge_scripted(self, case, obs, ans):
        model = ans[0]
        m = len(case["xoprob"])
        nsel = len(case["sel"])
        if case.get("reject") or "rejected" in obs:
            # an index of `sel` outside the population: both sides must reject (the property is silent)
            both = "rejected" in obs and model["out"].get("error") == obs.get("rejected") == "index"
            return {"corr": bool(both) and bool(case.get("reject")), "spec": True, "nontrivial": False,
                    "detail": f"scripted[{case['impl']}.{case['fn']}] rejected input: impl={obs.get('rejected')} "
                              f"model={model['out']}"}
        want_calls = [[0, 1, [nsel, m]]] * model["ncalls"]
        calls_ok = obs["calls"] == want_calls
        mo = model["out"]
        out_ok = "value" in mo and self._same_cells(mo["value"], obs["out"])
        specs = ans[1:]
        spec = all(s["ok"] for s in specs)
        ph = model["phases"]
        nontriv = any(any(r) for r in ph) and len({tuple(r) for r in ph}) >= 2
        return {"corr": bool(out_ok and calls_ok), "spec": bool(spec), "nontrivial": nontriv,
                "detail": f"scripted[{case['impl']}.{case['fn']}] out_equal={out_ok} calls={obs['calls']} "
                          f"want_calls={want_calls} spec={[s['detail'] for s in specs]}"}

    @staticmethod
    def _same_cells(a, b):
        def empty(x):
            return isinstance(x, list) and all(empty(v) for v in x)
        return a == b or (empty(a) and empty(b))

    def _judge_protocol(self, case, obs, ans):
        m = len(case["xoprob"])
        want = [[0, 1, [rows, m]] for rows in (ans[0] or [])]
        ans = ans[1:]
        calls_ok = ans is not None and obs["calls"] == want
        if case["nself"] != 0:
            return {"corr": calls_ok, "spec": True, "nontrivial": False,
                    "detail": f"protocol[{case['proto']}] nself={case['nself']} calls={obs['calls']} want={want}"}
        spec = obs["observable"] and all(a["ok"] for a in ans)
        lab_ok = all(a["phases"] == l for a, l in zip(ans, obs["labels"]))
        rows = [tuple(r) for l in obs["labels"] for r in l]
        nontriv = any(any(r) for r in rows) and len(set(rows)) >= 2
        return {"corr": bool(calls_ok and lab_ok), "spec": bool(spec), "nontrivial": nontriv,
                "detail": f"protocol[{case['proto']}] observable={obs['observable']} calls_ok={calls_ok} "
                          f"labels_equal_model={lab_ok} spec={[a['detail'] for a in ans]}"}

    def _judge_embv(self, case, obs, ans):
        m = len(case["xoprob"])
        want = [[0, 1, [rows, m]] for rows in ans[0]]
        ans = ans[1:]
        calls_ok = obs["calls"] == want
        full = lambda v: [v] * case["ntaxa"] if isinstance(v, int) else v
        want_sel = [[i] * p for i, (p, r) in enumerate(zip(full(case["nprogeny"]), full(case["nrep"]))) for _ in range(r)]
        spec = obs["observable"] and len(ans) == len(obs["labels"]) and all(a["ok"] for a in ans)
        lab_ok = obs["observable"] and all(a["phases"] == l for a, l in zip(ans, obs["labels"]))
        rows = [tuple(r) for l in obs["labels"] for r in l]
        return {"corr": bool(calls_ok and lab_ok and obs["sels"] == want_sel), "spec": bool(spec),
                "nontrivial": any(any(r) for r in rows) and len(set(rows)) >= 2,
                "detail": f"embv observable={obs['observable']} calls_ok={calls_ok} calls={obs['calls']} "
                          f"labels_equal_model={lab_ok} spec={[a['detail'] for a in ans][:3]}"}

    def _judge_xoprob(self, case, obs, ans):
        dist = ans[0]["dist"]
        fn = _haldane if case["fn"] == "haldane" else _kosambi
        xo = obs["xoprob"]
        pos = [Fraction(v) for v in case["pos"]]
        chr_ = case["chr"]
        # correspondence with the model's distances
        corr = len(dist) == len(xo)
        if corr:
            for d, x in zip(dist, xo):
                if d is None:
                    corr = corr and x == "1/2"
                else:
                    corr = corr and not isinstance(canon.dec(x), str) and \
                        canon.close(canon.dec(x), Fraction(fn(float(canon.dec(d)))), rel=1e-12, abs_=1e-15)
        # Spec, from the positions alone
        spec, why = len(xo) == len(chr_), "ok"
        for j in range(min(len(xo), len(chr_))):
            x = canon.dec(xo[j])
            if j == 0 or chr_[j] != chr_[j - 1]:
                if x != Fraction(1, 2):
                    spec, why = False, f"chromosome start {j} has xoprob {xo[j]} instead of 1/2"
                    break
            else:
                w = fn(float(pos[j] - pos[j - 1]))
                if isinstance(x, str) or not canon.close(x, Fraction(w), rel=1e-12, abs_=1e-15):
                    spec, why = False, f"marker {j}: xoprob {xo[j]} != mapfn(distance) {w}"
                    break
        if case["via"] == "interp":
            gp_ok = canon.close_enc(obs["genpos"], case["pos"], rel=1e-12, abs_=1e-15)
            corr = corr and gp_ok
        return {"corr": bool(corr), "spec": bool(spec), "nontrivial": len(set(chr_)) >= 2,
                "detail": f"xoprob[{case['fn']},{case['via']}] impl={xo} model_dist={dist} {why}"}

    def _judge_stat(self, case, obs, ans):
        if not obs.get("observable"):
            return {"corr": False, "spec": False, "nontrivial": True,
                    "detail": f"stat[{case['target']}] a progeny cell does not come from a permitted parental copy"}
        pr = ans[0]
        n = obs["n"]
        xo = [float(canon.dec(v)) for v in obs["xoprob"]]
        m = len(xo)
        pair = [[float(canon.dec(v)) for v in r] for r in pr["pair"]]
        phase = [float(canon.dec(v)) for v in pr["phase"]]
        both = [[float(canon.dec(v)) for v in r] for r in pr["both"]]
        bad = []
        worst = 0.0

        def chk(name, k, p):
            nonlocal worst
            b = _budget(n, p)
            z = abs(k - n * p) / b
            worst = max(worst, z)
            if z > 1.0:
                bad.append(f"{name}: {k}/{n}={k / n:.5f} expected {p:.5f} (|dev|={abs(k - n * p):.0f} > {b:.0f})")
        for j in range(m):
            chk(f"segregation P(copy1 at {j})", obs["phase1"][j], phase[j])
            chk(f"crossover frequency in interval {j}", obs["xo_count"][j], xo[j])
        for i in range(m):
            for j in range(i + 1, m):
                chk(f"recombination({i},{j})", obs["diff"][i][j], pair[i][j])
                chk(f"joint copy1({i},{j})", obs["both"][i][j], both[i][j])
                chk(f"joint crossover({i},{j})", obs["xo_both"][i][j], xo[i] * xo[j])
        # Haldane map: pairwise value must be the map function of the genetic distance; different
        # chromosomes: 1/2 and independent assortment
        hal_ok = True
        if "map" in case:
            mp = case["map"]
            pos = [float(Fraction(v)) for v in mp["pos"]]
            for i in range(m):
                for j in range(i + 1, m):
                    if mp["chr"][i] != mp["chr"][j]:
                        chk(f"unlinked recombination({i},{j})", obs["diff"][i][j], 0.5)
                        hal_ok = hal_ok and abs(pair[i][j] - 0.5) < 1e-12
                    elif mp["fn"] == "haldane":
                        w = _haldane(pos[j] - pos[i])
                        chk(f"haldane recombination({i},{j})", obs["diff"][i][j], w)
                        hal_ok = hal_ok and abs(pair[i][j] - w) < 1e-12
        spec = not bad
        corr = bool(pr["enum_ok"]) and hal_ok and obs["distinct_rows"] >= 2
        return {"corr": corr, "spec": spec, "nontrivial": True,
                "detail": f"stat[{case['target']},{case['gen']},seed={case['seed']}] n={n} statistics="
                          f"{2 * m + 3 * m * (m - 1) // 2} worst |dev|/budget={worst:.3f} enum_ok={pr['enum_ok']} "
                          f"haldane_model_ok={hal_ok} " + ("; ".join(bad[:4]) if bad else "all within budget")}

    # ------------------------------------------------------------------ findings / shrinking
    def signature(self, case, obs, verdict):
        sig = {"kind": case["kind"]}
        for k in ("impl", "fn", "proto", "target", "via"):
            if k in case:
                sig[k] = case[k]
        return sig

    def shrink(self, case):
        k = self._k(case)
        if k == "scripted":
            nsel = len(case["sel"])
            for i in range(nsel):
                if nsel > 1:
                    c = dict(case)
                    c["sel"] = case["sel"][:i] + case["sel"][i + 1:]
                    if "msel" in case:
                        c["msel"] = case["msel"][:i] + case["msel"][i + 1:]
                    c["rnd"] = [mtx[:i] + mtx[i + 1:] for mtx in case["rnd"]]
                    yield c
            m = len(case["xoprob"])
            for j in range(m):
                if m > 1:
                    c = dict(case)
                    cut = lambda row: row[:j] + row[j + 1:]
                    c["xoprob"] = cut(case["xoprob"])
                    c["geno"] = [[cut(r) for r in ph] for ph in case["geno"]]
                    if "mgeno" in case:
                        c["mgeno"] = [[cut(r) for r in ph] for ph in case["mgeno"]]
                    c["rnd"] = [[cut(r) for r in mtx] for mtx in case["rnd"]]
                    yield c
        elif k == "protocol":
            if len(case["xconfig"]) > 1:
                for i in range(len(case["xconfig"])):
                    c = dict(case)
                    c["xconfig"] = case["xconfig"][:i] + case["xconfig"][i + 1:]
                    for f in ("nmating", "nprogeny"):
                        if isinstance(case[f], list):
                            c[f] = case[f][:i] + case[f][i + 1:]
                    yield c
            m = len(case["xoprob"])
            for j in range(m):
                if m > 1:
                    c = dict(case)
                    c["xoprob"] = case["xoprob"][:j] + case["xoprob"][j + 1:]
                    yield c
            for f in ("nmating", "nprogeny"):
                if isinstance(case[f], list):
                    if any(v > 1 for v in case[f]):
                        c = dict(case)
                        c[f] = [1] * len(case[f])
                        yield c
                elif case[f] > 1:
                    c = dict(case)
                    c[f] = 1
                    yield c
        elif k == "xoprob":
            n = len(case["chr"])
            labels = sorted(set(case["chr"]))
            if len(labels) > 1:
                for lab in labels:            # drop a whole chromosome
                    keep = [i for i, v in enumerate(case["chr"]) if v != lab]
                    c = dict(case)
                    c["chr"] = [case["chr"][i] for i in keep]
                    c["pos"] = [case["pos"][i] for i in keep]
                    yield c
            for j in range(n):
                if n > 1:
                    c = dict(case)
                    c["chr"] = case["chr"][:j] + case["chr"][j + 1:]
                    c["pos"] = case["pos"][:j] + case["pos"][j + 1:]
                    if case["via"] == "interp":
                        cnt = {}
                        for v in c["chr"]:
                            cnt[v] = cnt.get(v, 0) + 1
                        if any(v < 2 for v in cnt.values()):
                            continue
                    yield c
        elif k == "embv":
            if case["ntaxa"] > 1:
                c = dict(case)
                c["ntaxa"] = case["ntaxa"] - 1
                for f in ("nprogeny", "nrep"):
                    if isinstance(case[f], list):
                        c[f] = case[f][:-1]
                yield c
            for f in ("nprogeny", "nrep"):
                if isinstance(case[f], list) and any(v > 1 for v in case[f]):
                    c = dict(case)
                    c[f] = [1] * len(case[f])
                    yield c
                elif isinstance(case[f], int) and case[f] > 1:
                    c = dict(case)
                    c[f] = 1
                    yield c
        elif k == "stat":
            if case["n"] > 4000:
                c = dict(case)
                c["n"] = case["n"] // 2
                yield c

    # ------------------------------------------------------------------ self-test mutants
    def mutants(self):
        mutil, cmate, sgm, hal, kos, dpgm, protos = _mods()

        @contextlib.contextmanager
        def patch(obj, name, new):
            old = getattr(obj, name)
            setattr(obj, name, new)
            try:
                yield
            finally:
                setattr(obj, name, old)

        def meiosis_variant(le=False, drop0=False, one_row=False, roll=False, two_calls=False,
                            float32=False, clip_half=False):
            def f(geno, sel, xoprob, rng):
                gshape = (len(sel), len(xoprob))
                rnd = rng.uniform(0, 1, gshape)
                if float32:
                    rnd = rnd.astype("float32")
                if clip_half:
                    xoprob = numpy.minimum(xoprob, 0.5)
                if one_row and len(sel):
                    rnd = numpy.repeat(rnd[:1], len(sel), axis=0)
                xo = numpy.roll(xoprob, 1) if roll else xoprob
                gamete = numpy.empty(gshape, dtype=geno.dtype)
                for i, s in enumerate(sel):
                    mask = (rnd[i] <= xo) if le else (rnd[i] < xo)
                    if drop0 and len(mask):
                        mask = mask.copy()
                        mask[0] = False
                    phase, stix = 0, 0
                    for spix in numpy.flatnonzero(mask):
                        gamete[i, stix:spix] = geno[phase, s, stix:spix]
                        stix = spix
                        phase = 1 - phase
                    gamete[i, stix:] = geno[phase, s, stix:]
                return gamete
            return f

        def gdist_no_inf(self, vrnt_chrgrp, vrnt_genpos, ast=None, asp=None):
            c = vrnt_chrgrp[ast:asp]
            g = vrnt_genpos[ast:asp]
            out = numpy.zeros(g.shape, dtype=float)
            out[1:] = numpy.where(c[1:] == c[:-1], g[1:] - g[:-1], 0.0)
            return out

        def gdist_not_reset(self, vrnt_chrgrp, vrnt_genpos, ast=None, asp=None):
            g = vrnt_genpos[ast:asp]
            out = numpy.empty(g.shape, dtype=float)
            if len(out):
                out[0] = numpy.inf
            out[1:] = numpy.abs(g[1:] - g[:-1])
            return out

        embv_mod = _embv_mods()[0]

        def interp_skip_mapfn(self, gmap, gmapfn, **kwargs):
            # interp_xoprob that stores the genetic distances themselves (map function not applied)
            self.vrnt_genpos = gmap.interp_genpos(self._vrnt_chrgrp, self._vrnt_phypos)
            d = gmap.gdist1g(self._vrnt_chrgrp, self._vrnt_genpos)
            self.vrnt_xoprob = numpy.where(numpy.isinf(d), 0.5, d)

        def dh_fresh_generator(geno, sel, xoprob, rng):
            return cmate.dense_dh(geno, sel, xoprob, numpy.random.default_rng(1))

        def rprob1g_capped(self, gmap, vrnt_chrgrp, vrnt_genpos):
            # gaps of half a Morgan or more are treated as unlinked
            d = gmap.gdist1g(vrnt_chrgrp, vrnt_genpos)
            r = self.mapfn(d)
            r[d >= 0.5] = 0.5
            return r

        import pybrops.popgen.gmap.ExtendedGeneticMap as egm

        return [
            ("mat_meiosis_float32_draws", lambda: patch(mutil, "mat_meiosis", meiosis_variant(float32=True))),
            ("dense_meiosis_float32_draws", lambda: patch(cmate, "dense_meiosis", meiosis_variant(float32=True))),
            ("mat_meiosis_xoprob_clipped_to_half", lambda: patch(mutil, "mat_meiosis", meiosis_variant(clip_half=True))),
            ("dense_meiosis_xoprob_clipped_to_half",
             lambda: patch(cmate, "dense_meiosis", meiosis_variant(clip_half=True))),
            ("haldane_rprob1g_caps_gaps_at_half_morgan",
             lambda: patch(hal.HaldaneMapFunction, "rprob1g", rprob1g_capped)),
            ("kosambi_rprob1g_caps_gaps_at_half_morgan",
             lambda: patch(kos.KosambiMapFunction, "rprob1g", rprob1g_capped)),
            ("extended_gdist1g_without_inf_at_chromosome_starts",
             lambda: patch(egm.ExtendedGeneticMap, "gdist1g", gdist_no_inf)),
            ("embv_fresh_generator_each_replicate", lambda: patch(embv_mod, "dense_dh", dh_fresh_generator)),
            ("interp_xoprob_without_map_function",
             lambda: patch(dpgm.DensePhasedGenotypeMatrix, "interp_xoprob", interp_skip_mapfn)),
            ("mat_meiosis_le", lambda: patch(mutil, "mat_meiosis", meiosis_variant(le=True))),
            ("mat_meiosis_fixed_start_phase", lambda: patch(mutil, "mat_meiosis", meiosis_variant(drop0=True))),
            ("mat_meiosis_one_rnd_row", lambda: patch(mutil, "mat_meiosis", meiosis_variant(one_row=True))),
            ("mat_meiosis_xoprob_rolled", lambda: patch(mutil, "mat_meiosis", meiosis_variant(roll=True))),
            ("dense_meiosis_le", lambda: patch(cmate, "dense_meiosis", meiosis_variant(le=True))),
            ("dense_meiosis_fixed_start_phase", lambda: patch(cmate, "dense_meiosis", meiosis_variant(drop0=True))),
            ("dense_meiosis_one_rnd_row", lambda: patch(cmate, "dense_meiosis", meiosis_variant(one_row=True))),
            ("dense_meiosis_xoprob_rolled", lambda: patch(cmate, "dense_meiosis", meiosis_variant(roll=True))),
            ("gdist1g_without_inf_at_chromosome_starts",
             lambda: patch(sgm.StandardGeneticMap, "gdist1g", gdist_no_inf)),
            ("gdist1g_not_reset_at_chromosome_starts",
             lambda: patch(sgm.StandardGeneticMap, "gdist1g", gdist_not_reset)),
            ("haldane_exp_minus_d", lambda: patch(hal.HaldaneMapFunction, "mapfn",
                                                  lambda self, d: 0.5 * (1.0 - numpy.exp(-1.0 * d)))),
            ("kosambi_tanh_d", lambda: patch(kos.KosambiMapFunction, "mapfn",
                                             lambda self, d: 0.5 * numpy.tanh(1.0 * d))),
        ]


PROP = C02()
