"""C02 — realised recombination and segregation match the crossover probabilities.

Case kinds (round 3 additions are marked +):
  scripted  mat_meiosis / mat_dh / mat_mate (breed/prot/mate/util.py) and dense_meiosis / dense_dh /
            dense_cross (core/util/mate.py) driven by a ScriptedGenerator (ties r = xoprob, r = 0,
            r = xoprob +- 2^-53, xoprob in {0, 1/2, 1, ...}); functional correspondence with the Lean
            model + the recorded call pattern (exactly one uniform(0, 1, (nsel, nvrnt)) per meiosis);
  protocol  the seven mating protocols through the public mate() with a recording wrapper around a
            genuine seeded Generator / RandomState: call pattern, and the copy switches of the last
            meiosis (read from unique allele codes) against the recorded draws;
  embv      DenseExpectedMaximumBreedingValueMatrix.from_gmod (uses dense_dh with the global generator):
            a recorder stands in for `global_prng`, the doubled haploids are captured at the call of
            dense_dh; call pattern and copy switches against the recorded draws;
  xoprob    crossover probabilities assigned from a genetic map (gdist1g + map function, directly and
            through DensePhasedGenotypeMatrix.interp_xoprob): 1/2 exactly at every chromosome start,
            map function of the distance to the previous marker elsewhere;
+ scripted  also: partly inbred parents (homozygous at some markers: provenance only partly observable, Spec =
            the set-of-possible-copies automaton `specRowObs`), negative / int8 / list `sel`, Fortran-ordered and
            strided genotype arrays, strided / float32 xoprob, int16/int64 alleles, tiny and near-1/2 probabilities
            (2^-27, 2^-17, 1/2 +- 2^-30) with draws one ulp either side, several consecutive calls on the same
            generator and the same input arrays (inputs must stay untouched, every call needs fresh draws);
+ big       the same functions past internal size constants: > 8192 markers (block boundaries inside a
            chromosome), > 1024 / 4096 gametes, > 127 taxa; compact description, expanded to a scripted case;
+ protocol  every cell of the progeny of all 7 protocols INCLUDING selfing generations (nself 0-3) against C01's
            protocol model run on the recorded draws of all meioses (`c02.proto_full`); partly inbred founders;
            two consecutive mate() calls on one protocol object;
+ embv      every doubled-haploid matrix against the model of the from_gmod loop (`c02.embv_full`), Spec through
            `specRowObs` (partly inbred taxa included);
+ xoprob    grouped but unsorted chromosome labels, large common offsets and 2^-27 gaps, rprob1p, interp_xoprob
            with an ExtendedGeneticMap and on a DenseGenotypeMatrix, markers presented in shuffled order,
            interp_xoprob on an ungrouped matrix (must be rejected);
  statistical-support
            + partly inbred parents (statistics over the heterozygous markers), + protocols with one selfing
            generation (copy of the hybrid read from the founder labels);
            statistical support (fixed seeds, corpus only): empirical segregation / pairwise
            recombination / joint frequencies of 2*10^4 (quick) or 1.5*10^5 (thorough) gametes against the
            exact probabilities of the Lean model, Bernstein budget (>= 7.5 sigma + 19 counts).

Round 4 additions (++):
++ statistical-support
            dense marker panels (120-200 markers, mean crossover probability < 2 %, 1/2 only at the chromosome starts;
            explicit vectors and Haldane / Kosambi maps; statistics at `watch`ed markers); any number of selfing
            generations against `pairProbN` (one chromosome copy) and `crossProbN` (the two copies of one plant),
            theorem n_generation_recombination_law; the whole chain map -> interp_xoprob -> mate(); identical gametes at
            fixed lags (1 .. 65536 rows apart: recycled chunks of random numbers); number of gametes actually simulated
            by from_gmod; random statistical cases inside generate() (they decide when a changed tree consumes its
            random numbers in another pattern than the model);
++ xoprob   the optional window [ast, asp) of gdist1g / gdist1p; gaps of 40 - 2000 Morgans; the chromosome-start part of
            the Spec is decided in Lean (`c02.spec_starts`, theorems spec_starts_sound / spec_starts_iff);
++ protocol several chromosomes (single-marker ones included) whose starts carry 1/2 or a hand-assigned value; ANOTHER
            matrix object with the same marker count at the second mate() call; no two draw matrices of one mate() (or of
            one from_gmod) may hold the same random numbers;
++ big      dense panels (probabilities 2^-8 .. 2^-10, 1/2 every 25-64 markers);
   the deterministic Spec of a scripted / embv / protocol case applies only when the draws were requested in the modelled
   pattern (otherwise the case is broken correspondence and the statistical cases decide).

Round 5 additions (+++):
+++ shared  HISTORIES OVER SEVERAL MATRIX OBJECTS: a population gets its crossover probabilities from a map, a second
            matrix object is derived from it (progeny of any of the 7 mating protocols, select_taxa, a matrix constructed on
            the same arrays: all of them hand the parents' vrnt_xoprob / vrnt_genpos ARRAY OBJECTS on), then ONE of the two is
            re-interpolated (once or twice) on another map / with another map function.  Spec, per object: what it stores is
            the map function of the distances between ITS OWN stored genetic positions, 1/2 at its chromosome starts (decided
            in Lean: `c02.spec_starts`, and by the model of the history `c02.history`: theorems interp_leaves_others_alone /
            history_objects_consistent); the object that was not touched must read what it read before;
+++ stat    the same history in front of a statistical case (`disturb`): the progeny are put on a stretched map, the
            gametes of the PARENTS are tested against the Haldane / Kosambi value of the parents' genetic positions;
+++ embv    genomic models with neutral markers (all-zero effect rows: sparse QTL / LASSO-type models, 1-2 traits), the
            doubled haploids are read where from_gmod hands them to gmod.gebv (every marker of every progeny against the
            model of the loop); statistical cases on such models take their statistics at the markers WITH an effect
            (neutral first markers of chromosomes, neutral markers between two QTL): recombination between two QTL must
            compose the probabilities of all intervals in between.
"""
import contextlib
import json
import math
from fractions import Fraction

import numpy

from .. import canon, compat
from ..core import Prop

compat.install()

EPS = Fraction(1, 2 ** 53)
PROTOS = ["SelfCross", "TwoWayCross", "TwoWayDHCross", "ThreeWayCross", "ThreeWayDHCross",
          "FourWayCross", "FourWayDHCross"]
NPARENT = {"SelfCross": 1, "TwoWayCross": 2, "TwoWayDHCross": 2, "ThreeWayCross": 3,
           "ThreeWayDHCross": 3, "FourWayCross": 4, "FourWayDHCross": 4}
# lags at which identical gametes are counted (sizes of typical internal buffers / chunks included)
LAGS = [1, 2, 3, 4, 5, 7, 8, 10, 16, 20, 32, 40, 50, 64, 100, 128, 200, 256, 500, 512, 1000, 1024, 2048, 4096, 8192,
        16384, 32768, 65536]
# false-alarm bound per statistic of the statistical support run
DELTA = 1e-12
LOGD = math.log(2.0 / DELTA)


def _mods():
    compat.import_pybrops()
    import importlib
    import pybrops.breed.prot.mate.util as mutil
    import pybrops.core.util.mate as cmate
    import pybrops.popgen.gmap.StandardGeneticMap as sgm
    import pybrops.popgen.gmap.HaldaneMapFunction as hal
    import pybrops.popgen.gmap.KosambiMapFunction as kos
    import pybrops.popgen.gmat.DensePhasedGenotypeMatrix as dpgm
    protos = {n: getattr(importlib.import_module(f"pybrops.breed.prot.mate.{n}"), n) for n in PROTOS}
    return mutil, cmate, sgm, hal, kos, dpgm, protos


def _embv_mods():
    compat.import_pybrops()
    import pybrops.model.embvmat.DenseExpectedMaximumBreedingValueMatrix as embv
    import pybrops.model.gmod.DenseAdditiveLinearGenomicModel as dalgm
    return embv, dalgm


def _f(x):
    return float(Fraction(x))


# ---------------------------------------------------------------------------------- generators
def _gen_classes():
    class Scripted:
        """mixin: `uniform` pops scripted matrices and logs (low, high, size)"""

        def _init_script(self, script, dden=1):
            self.script = [numpy.array([[_f(Fraction(v) / dden) for v in row] for row in m], dtype=float).reshape(
                len(m), len(m[0]) if m else 0) for m in script]
            self.log = []
            self.handed = []
            # a scripted matrix may be fetched whole, or in consecutive blocks of rows (gametes) or of columns
            # (markers): the value meant for (gamete i, marker j) still reaches that cell
            self.cur, self.r0, self.c0, self.mode = None, 0, 0, None
            self.served_ok = True

        def _serve(self, shape):
            if len(shape) != 2:
                return None
            r, c = shape
            if self.cur is None:
                if not self.script:
                    return None
                M = self.script[0]
                R, C = M.shape
                if (r, c) == (R, C):
                    self.script.pop(0)
                    return M.copy()
                if c == C and 0 < r < R:
                    self.mode = "rows"
                elif r == R and 0 < c < C:
                    self.mode = "cols"
                else:
                    return None
                self.cur, self.r0, self.c0 = self.script.pop(0), 0, 0
            R, C = self.cur.shape
            if self.mode == "rows" and c == C and 0 < r <= R - self.r0:
                out = self.cur[self.r0:self.r0 + r].copy()
                self.r0 += r
                if self.r0 == R:
                    self.cur = None
                return out
            if self.mode == "cols" and r == R and 0 < c <= C - self.c0:
                out = self.cur[:, self.c0:self.c0 + c].copy()
                self.c0 += c
                if self.c0 == C:
                    self.cur = None
                return out
            return None

        def uniform(self, low=0.0, high=1.0, size=None):
            shape = tuple(int(s) for s in (size if isinstance(size, (tuple, list)) else
                                           (() if size is None else (size,))))
            self.log.append([canon.enc(low), canon.enc(high), list(shape)])
            out = self._serve(shape)
            if out is None:
                self.served_ok = False
                self.cur = None
                nxt = self.script.pop(0) if self.script else numpy.zeros(shape)
                if int(numpy.prod(shape)) == nxt.size:
                    out = nxt.reshape(shape).copy()
                else:
                    out = numpy.resize(nxt if nxt.size else numpy.zeros(1), shape)
            self.handed.append(out.copy())
            return out

        # the same values through the other spellings of "uniform on [0, 1)" (a rewrite that uses them keeps the
        # law; it shows up as a changed call pattern, not as gametes that ignore their draws)
        def random(self, size=None, *a, **k):
            out = self.uniform(0.0, 1.0, size)
            self.log[-1] = ["random"] + self.log[-1][2:]
            return out

        def random_sample(self, size=None):
            out = self.uniform(0.0, 1.0, size)
            self.log[-1] = ["random_sample"] + self.log[-1][2:]
            return out

    class Recording:
        """mixin: genuine draws, logged with their arguments"""

        def _init_rec(self):
            self.log = []
            self.draws = []

        def uniform(self, low=0.0, high=1.0, size=None):
            out = super().uniform(low, high, size)
            shape = tuple(numpy.shape(out))
            self.log.append([canon.enc(low), canon.enc(high), list(shape)])
            self.draws.append(numpy.array(out, dtype=float, copy=True))
            return out

        def _rec_other(self, name, size, a, k):
            out = getattr(super(), name)(size, *a, **k)
            self.log.append([name, list(numpy.shape(out))])
            self.draws.append(numpy.array(out, dtype=float, copy=True))
            return out

        def random(self, size=None, *a, **k):
            return self._rec_other("random", size, a, k)

        def random_sample(self, size=None, *a, **k):
            return self._rec_other("random_sample", size, a, k)

    class ScriptedGenerator(Scripted, numpy.random.Generator):
        def __init__(self, script, dden=1):
            numpy.random.Generator.__init__(self, numpy.random.PCG64(0))
            self._init_script(script, dden)

    class ScriptedRandomState(Scripted, numpy.random.RandomState):
        def __init__(self, script, dden=1):
            numpy.random.RandomState.__init__(self, 0)
            self._init_script(script, dden)

    class RecGenerator(Recording, numpy.random.Generator):
        def __init__(self, seed):
            numpy.random.Generator.__init__(self, numpy.random.PCG64(seed))
            self._init_rec()

    class RecRandomState(Recording, numpy.random.RandomState):
        def __init__(self, seed):
            numpy.random.RandomState.__init__(self, seed)
            self._init_rec()

    class CraftedGenerator(Recording, numpy.random.Generator):
        """a genuine Generator(MT19937) whose state is set so that its next doubles are `values`"""

        def __init__(self, values):
            bg = numpy.random.MT19937(0)
            st = bg.state
            st["state"]["key"] = _craft_key(values)
            st["state"]["pos"] = 0
            bg.state = st
            numpy.random.Generator.__init__(self, bg)
            self._init_rec()

    class CraftedRandomState(Recording, numpy.random.RandomState):
        """a genuine RandomState (MT19937) whose state is set so that its next doubles are `values`"""

        def __init__(self, values):
            numpy.random.RandomState.__init__(self, 0)
            self.set_state(("MT19937", _craft_key(values), 0, 0, 0.0))
            self._init_rec()

    return ScriptedGenerator, ScriptedRandomState, RecGenerator, RecRandomState, CraftedGenerator, CraftedRandomState


def _untemper(y):
    """inverse of the MT19937 output tempering"""
    y &= 0xFFFFFFFF
    y ^= y >> 18
    y ^= (y << 15) & 0xEFC60000
    t = y
    for _ in range(5):
        t = y ^ ((t << 7) & 0x9D2C5680)
    y = t & 0xFFFFFFFF
    t = y
    for _ in range(3):
        t = y ^ (t >> 11)
    return t & 0xFFFFFFFF


MT_MAX_DOUBLES = 312


def _craft_key(values):
    """624-word MT19937 key such that, read from position 0, the generator's next doubles
    ((a >> 5) * 2^26 + (b >> 6)) / 2^53 are exactly `values` (Fractions k / 2^53, at most 312)"""
    key = numpy.random.RandomState(12345).get_state()[1].copy()
    assert len(values) <= MT_MAX_DOUBLES
    for i, v in enumerate(values):
        k = Fraction(v) * (1 << 53)
        assert k.denominator == 1 and 0 <= k < (1 << 53)
        k = int(k)
        key[2 * i] = _untemper((k >> 26) << 5)
        key[2 * i + 1] = _untemper((k & ((1 << 26) - 1)) << 6)
    return key


(ScriptedGenerator, ScriptedRandomState, RecGenerator, RecRandomState,
 CraftedGenerator, CraftedRandomState) = _gen_classes()


def _code(t, p, j, off=0):
    """allele code unique per (taxon, phase) at every marker and varying along the chromosome"""
    return ((2 * t + p + 5 * j + off + 37 * (t // 128)) % 256) - 128     # (taxa t and t + 128k keep distinct codes)


def _geno(ntaxa, nvrnt, off=0, homo=None):
    """(2, ntaxa, nvrnt) allele codes; `homo[t]` = markers at which taxon t is homozygous (copy 1 carries the
    allele of copy 0 there: a partly inbred individual)"""
    g = [[[_code(t, p, j, off) for j in range(nvrnt)] for t in range(ntaxa)] for p in range(2)]
    if homo:
        for t, js in enumerate(homo[:ntaxa]):
            for j in js:
                if j < nvrnt:
                    g[1][t][j] = g[0][t][j]
    return g


def _gen_homo(rng, ntaxa, m):
    """per taxon a set of homozygous markers: none, a homozygous start, homozygous runs between heterozygous
    markers, or all but two markers"""
    out = []
    for _ in range(ntaxa):
        c = rng.random()
        if c < 0.25 or m < 2:
            js = []
        elif c < 0.45:
            js = list(range(rng.randrange(1, m)))                       # homozygous chromosome start
        elif c < 0.75:
            js = [j for j in range(m) if rng.random() < 0.5]
        elif c < 0.9:
            keep = set(rng.sample(range(m), 2))
            js = [j for j in range(m) if j not in keep]
        else:
            js = list(range(m))                                         # a fully inbred line
        out.append(js)
    return out


def _decode(mat, off=0):
    """(n, m) int8 codes -> (taxon, phase) arrays"""
    m = mat.shape[-1]
    v = (mat.astype(numpy.int64) + 128 - 5 * numpy.arange(m)[None, :] - off) % 256
    return v // 2, v % 2


TINY = [Fraction(1, 2 ** 27), Fraction(1, 2 ** 17), Fraction(1, 2 ** 40), Fraction(1, 2) - Fraction(1, 2 ** 30),
        Fraction(1, 2) + Fraction(1, 2 ** 30), 1 - Fraction(1, 2 ** 20), Fraction(3, 2 ** 27)]


def _xo_vector(rng, m, style=None):
    pool = [Fraction(0), Fraction(1, 2), Fraction(1), Fraction(1, 4), Fraction(1, 8), Fraction(3, 8),
            Fraction(1, 16), Fraction(3, 4), Fraction(1, 2), Fraction(1, 4)]
    if style == "tiny":
        pool = pool + TINY * 2
    xo = [rng.choice(pool) for _ in range(m)]
    if m and rng.random() < 0.6:
        xo[0] = Fraction(1, 2)
    return xo


def _draw(rng, x):
    """a scripted uniform value in [0, 1) that probes the comparison with `x`"""
    c = rng.random()
    if c < 0.22 and x < 1:
        return x                                   # exact tie
    if c < 0.32:
        return Fraction(0)
    if c < 0.42 and x > 0:
        return x - EPS
    if c < 0.52 and x + EPS < 1:
        return x + EPS
    if c < 0.57:
        return 1 - EPS
    if c < 0.64 and 0 < x < 1:
        # within the reach of a tolerance-style comparison (numpy.isclose: 1e-8 + 1e-5 |x|), but not equal
        d = rng.choice([Fraction(1, 2 ** 30), Fraction(1, 2 ** 34), x / 2 ** 20])
        v = x + d if rng.random() < 0.5 else x - d
        if 0 <= v < 1 and (v * 2 ** 53).denominator == 1:
            return v
    return Fraction(rng.randrange(16), 16)


def _proto_rows(proto, M, N, nself):
    selfs = lambda k: [k, k] * nself
    return {"SelfCross": [N, N] + selfs(N), "TwoWayCross": [N, N] + selfs(N),
            "TwoWayDHCross": [M, M] + selfs(M) + [N], "ThreeWayCross": [M, M, N, N] + selfs(N),
            "ThreeWayDHCross": [M, M, M, M] + selfs(M) + [N], "FourWayCross": [M, M, M, M, N, N] + selfs(N),
            "FourWayDHCross": [M, M, M, M, M, M] + selfs(M) + [N]}[proto]


def _budget(n, p):
    """Bernstein: P(|k - n p| >= sqrt(2 L v) + 2L/3) <= 2 exp(-L) = DELTA, v = n p (1 - p)"""
    v = n * p * (1.0 - p)
    return math.sqrt(2.0 * LOGD * max(v, 0.0)) + 2.0 * LOGD / 3.0


def _haldane(d):
    return 0.5 * (1.0 - math.exp(-2.0 * d))


def _kosambi(d):
    return 0.5 * math.tanh(2.0 * d)


class C02(Prop):
    PID = "C02"
    MODULE = "PybropsModel.Props.C02"
    N_QUICK = 500
    N_THOROUGH = 4500
    RULE = ("scripted: 1-6 taxa x 0-12 markers, allele code unique per (taxon, phase, marker) EXCEPT at the homozygous markers "
            "of partly inbred parents (homozygous starts / runs between heterozygous markers / all but two markers / fully "
            "inbred), xoprob from {0,1/16,1/8,1/4,3/8,1/2,3/4,1} and {2^-40,2^-27,2^-17,1/2+-2^-30,1-2^-20}, draws with exact ties "
            "r=xoprob, r=0, xoprob+-2^-53, 1-2^-53 and values within isclose-range of xoprob, both source twins (util.py / "
            "core/util/mate.py), meiosis/dh/mate, negative and int8/int16/int32 sel, Fortran / strided genotype arrays, strided / "
            "float32 xoprob, int16/int64 alleles, 1-3 consecutive calls on the same arrays and generator with the arrays edited in "
            "place between calls, stub generators and genuine Generator(MT19937) / RandomState objects whose crafted state emits "
            "exactly the scripted values; "
            "big: 1030-70000 markers (block boundaries inside a chromosome), up to >1000 crossovers in one gamete, 1030-9000 "
            "(thorough 70000) gametes, 130/260 taxa; "
            "protocol: the 7 mating protocols, 1-3 (corpus: 1030) crosses, array/scalar nmating,nprogeny incl. 0, negative xconfig "
            "entries, nself 0-3, partly inbred founders, two mate() calls on one object with xoprob re-assigned / edited in place in "
            "between, genuine seeded generators behind a recorder or fully scripted draws with ties; EVERY progeny cell against the "
            "protocol model on the recorded draws; "
            "embv: every DH matrix of from_gmod against the model; xoprob: 1-300 chromosomes (single-marker ones included), sorted or "
            "grouped-unsorted labels, dyadic positions with zero distances, 2^-27 gaps, offsets 1000/25000, Haldane and Kosambi, "
            "rprob1g on StandardGeneticMap and ExtendedGeneticMap, rprob1p, interp_xoprob (both map classes, phased and unphased "
            "matrix, shuffled markers, matrix already carrying probabilities of another map, ungrouped matrix rejected); "
            "stat (fixed seeds): all 6 functions + 7 protocols, explicit vectors and Haldane/Kosambi maps, partly inbred parents, "
            "protocols with one selfing generation, two-generation pedigrees against pairProb2. "
            "Round 4: dense panels (120-200 markers, mean xoprob < 2 %) as explicit vectors and Haldane/Kosambi maps for all six "
            "functions, protocols and from_gmod with statistics at watched markers; selfing depth 1-4 against pairProbN / crossProbN "
            "(one copy / the two copies of a plant); map -> interp_xoprob -> mate() chains; identical-gamete counts at lags 1..65536; "
            "random statistical cases (1.2 % of the generated cases); gdist1g / gdist1p windows [ast, asp); gaps of 40-2000 Morgans; "
            "protocols on 2-3 chromosomes with 1/2 or hand-assigned values at the starts; a second matrix object at the second "
            "mate() call; draw matrices of one mate() / from_gmod pairwise different. "
            "Round 5: histories over TWO matrix objects that hold the same vrnt_xoprob / vrnt_genpos arrays (progeny of each of the "
            "7 protocols, select_taxa, a constructor call on the parent's arrays), one of them re-interpolated once or twice on a "
            "scaled or fresh map with Haldane / Kosambi through StandardGeneticMap / ExtendedGeneticMap, both objects judged "
            "afterwards (3 % of the generated cases + 10 corpus cases); the same history in front of map -> interp_xoprob -> mate() "
            "statistical cases; from_gmod with genomic models that have neutral markers (all-zero effect rows, 1-2 traits; half of "
            "the embv cases), doubled haploids read at gmod.gebv, statistical cases on such models with the statistics at the markers "
            "that carry an effect (neutral first marker of a chromosome, neutral markers between QTL). "
            "Non-trivial = shared case whose two objects held one array and whose re-interpolation changed the probabilities; "
            "scripted/big/protocol/embv case with >= 1 crossover, >= 2 gametes with different masks and >= 1 observable "
            "marker, xoprob case with >= 2 chromosomes, any stat case")
    TRUSTED = ["numpy Generator/RandomState.uniform(0,1,shape) delivers independent draws, each uniform on the "
               "grid k/2^53 (the theorem `draws_pushforward` turns exactly this into the Bernoulli product law)",
               "float comparison rnd < xoprob is exact (IEEE comparison of two doubles)",
               "math.exp / numpy.exp / numpy.tanh agree to 1e-12 relative",
               "that the objects of a `shared` history hold their arrays by reference exactly as Model/RecombShare.lean says "
               "(derive = same two references, interp_xoprob = two new arrays) is tied to the code by the correspondence run "
               "of the `shared` cases only (numpy.shares_memory before, contents after); in-place edits by the USER of an "
               "array two objects share are outside the model (the property is silent on them)",
               "C01's protocol model Mating.mate (tied to the seven mate() by C01's own correspondence run) is what "
               "`c02.proto_full` evaluates on the recorded draws"]
    ASSUMPTIONS = ["crossover probabilities and scripted draws are dyadic rationals, so the float values are exact",
                   "equal chromosome labels are contiguous (documented precondition of gdist1g / interp_xoprob; sortedness is "
                   "not assumed)",
                   "provenance is observable where the two copies of the parent differ; at homozygous markers the Spec only "
                   "demands the parent's allele and tracks the set of copies the gamete can be on (`specRowObs`)",
                   "deterministic protocol Spec (every progeny cell = model on the recorded draws) is applied when the recorded "
                   "call pattern is the modelled one; otherwise the case only counts as broken correspondence and the "
                   "statistical cases decide",
                   "the deterministic Spec of a scripted / embv / protocol case is applied when the random draws were "
                   "requested in the modelled pattern (one (rows, nvrnt) matrix per meiosis); a tree that consumes randomness "
                   "otherwise is judged by the statistical cases (fixed and generated seeds)",
                   "shared histories: an object that went through interp_xoprob(map, fn) and was not touched by the user "
                   "afterwards must store fn(distances of ITS OWN stored positions) and 1/2 at its chromosome starts, whatever "
                   "happened to other objects since (Spec = the single-object Spec applied to every object of the history)",
                   "from_gmod with neutral markers: the statistics (segregation, pairwise recombination = composition of all "
                   "intervals in between, unlinked chromosomes) are demanded at the markers with a non-zero effect only; what a "
                   "neutral marker of a simulated doubled haploid carries is only compared with the model (correspondence), so a "
                   "correct shortcut that composes the skipped intervals would not be reported as a violation",
                   "statistical cases: fixed seeds, budget sqrt(2 L v) + 2L/3 with L = ln(2e12) (Bernstein), i.e. "
                   ">= 7.5 sigma; they support the trusted generator contract, they are not what proves C02"]

    # ------------------------------------------------------------------ corpus
    def corpus(self):
        h = "1/2"
        out = [
            # ties: r == xoprob must NOT cross over; r = 0 with xoprob = 0 must not cross over
            {"kind": "scripted", "impl": "mat", "fn": "meiosis", "gen": "Generator", "geno": _geno(1, 4),
             "sel": [0, 0, 0], "xoprob": [h, 0, h, "1/4"],
             "rnd": [[[h, 0, "1/4", "1/4"], ["1/4", 0, "1/4", "1/8"], [0, 0, 0, 0]]]},
            {"kind": "scripted", "impl": "dense", "fn": "meiosis", "gen": "RandomState", "geno": _geno(2, 5),
             "sel": [1, 0, 1], "xoprob": [h, 1, 0, h, "1/8"],
             "rnd": [[[canon.enc(Fraction(1, 2) - EPS), canon.enc(1 - EPS), 0, h, "1/8"],
                      [h, 0, 0, canon.enc(Fraction(1, 2) + EPS), canon.enc(Fraction(1, 8) - EPS)],
                      ["3/4", "1/2", "1/2", "1/4", 0]]]},
            {"kind": "scripted", "impl": "mat", "fn": "mate", "gen": "Generator", "geno": _geno(3, 4),
             "mgeno": _geno(3, 4, off=64), "sel": [0, 2], "msel": [1, 1], "xoprob": [h, "1/4", "1/4", h],
             "rnd": [[["1/4", "1/8", "1/2", "3/4"], ["3/4", "1/4", "1/8", "1/4"]],
                     [["3/4", "3/4", "1/8", "1/4"], ["1/4", "1/8", "1/8", "1/8"]]]},
            {"kind": "scripted", "impl": "dense", "fn": "dh", "gen": "Generator", "geno": _geno(2, 3),
             "sel": [1, 1], "xoprob": [h, h, h], "rnd": [[["1/4", "3/4", "1/4"], ["3/4", "1/4", "3/4"]]]},
            # the same ties delivered by genuine numpy generators (crafted MT19937 states): r = 0.0 exactly
            # against xoprob 0, r = 1 - 2^-53 against xoprob 1, r = xoprob = 1/2
            {"kind": "scripted", "impl": "mat", "fn": "meiosis", "gen": "MT19937-RandomState", "geno": _geno(1, 4),
             "sel": [0, 0], "xoprob": [0, 1, h, h],
             "rnd": [[[0, canon.enc(1 - EPS), h, canon.enc(Fraction(1, 2) - EPS)], [0, 0, h, "1/4"]]]},
            {"kind": "scripted", "impl": "dense", "fn": "mate", "gen": "MT19937-Generator", "geno": _geno(2, 3),
             "mgeno": _geno(2, 3, off=32), "sel": [0, 1], "msel": [1, 0], "xoprob": [0, h, 1],
             "rnd": [[[0, h, canon.enc(1 - EPS)], [0, "1/4", 0]], [[0, "3/4", h], ["1/8", h, "1/4"]]]},
            # empty selections / no markers
            {"kind": "scripted", "impl": "mat", "fn": "meiosis", "gen": "Generator", "geno": _geno(2, 3),
             "sel": [], "xoprob": [h, h, h], "rnd": [[]]},
            {"kind": "scripted", "impl": "mat", "fn": "meiosis", "gen": "Generator", "geno": _geno(2, 0),
             "sel": [0, 1], "xoprob": [], "rnd": [[[], []]]},
            {"kind": "scripted", "impl": "mat", "fn": "meiosis", "gen": "Generator", "geno": _geno(1, 1),
             "sel": [0, 0], "xoprob": [h], "rnd": [[["1/4"], [h]]]},
            {"kind": "scripted", "impl": "dense", "fn": "meiosis", "gen": "Generator", "geno": _geno(2, 2),
             "sel": [0, 2], "xoprob": [h, h], "rnd": [[["1/4", "1/4"], ["1/4", "1/4"]]], "reject": True},
            {"kind": "xoprob", "fn": "haldane", "via": "rprob1g", "chr": [1, 1, 1, 2, 2, 3, 3, 3],
             "pos": [0, "1/8", h, 0, "1/4", "1/4", h, 1]},
            {"kind": "xoprob", "fn": "kosambi", "via": "interp", "chr": [1, 1, 1, 2, 2, 3, 3, 3],
             "pos": [0, "1/8", h, 0, "1/4", "1/4", h, 1]},
            {"kind": "xoprob", "fn": "haldane", "via": "rprob1g", "chr": [4, 7, 7, 9], "pos": [h, 0, 0, 2]},
            {"kind": "xoprob", "fn": "kosambi", "via": "extended", "chr": [4, 7, 7, 9], "pos": [h, 0, 0, 2]},
            {"kind": "xoprob", "fn": "haldane", "via": "extended", "chr": [1, 1, 1, 2, 2, 3, 3, 3],
             "pos": [0, "1/8", h, 0, "1/4", "1/4", h, 1]},
        ]
        for p in PROTOS:
            np_ = NPARENT[p]
            out.append({"kind": "protocol", "proto": p, "gen": "Generator", "seed": 11, "ntaxa": 5,
                        "xconfig": [list(range(np_)), [4 - i for i in range(np_)]] if np_ < 4 else
                        [[0, 1, 2, 3], [4, 3, 1, 0]],
                        "nmating": [2, 1], "nprogeny": [2, 3], "nself": 0,
                        "xoprob": [h, "1/4", "1/8", h, "3/8", 0, 1]})
        out.append({"kind": "embv", "gen": "Generator", "seed": 5, "ntaxa": 3,
                    "xoprob": [h, "1/8", "1/4", h, "3/8"], "nprogeny": [2, 3, 1], "nrep": 2})
        out += self._corpus_round3()
        out += self._corpus_round4()
        out += self._corpus_round5()
        out += self._stat_cases(20000)
        return out

    def _corpus_round5(self):
        """one case per class of inputs added in round 5"""
        chr9 = [1, 1, 1, 1, 1, 2, 2, 2, 2]
        pa = ["0", "1/16", "1/8", "1/4", "3/8", "0", "1/8", "3/16", "5/16"]
        pb = [str(Fraction(v) * 4) for v in pa]
        out = []
        # two matrix objects on the same arrays, ONE of them re-interpolated: every way of deriving the second object
        for i, sh in enumerate(self.SHARES):
            out.append({"kind": "shared", "share": sh, "chr": chr9, "fn1": "haldane", "via1": "standard", "pos1": pa,
                        "fn2": "kosambi" if i % 3 == 1 else "haldane", "via2": "extended" if i % 2 else "standard",
                        "pos2": pb, "target": "parent" if i % 4 == 3 else "child", "seed": 500 + i})
        out.append({"kind": "shared", "share": "mate:TwoWayCross", "chr": [2, 2, 5, 5, 5], "fn1": "kosambi",
                    "via1": "extended", "pos1": ["1/8", "1/4", "0", "1/2", "5/8"], "fn2": "haldane", "via2": "standard",
                    "pos2": ["0", "1", "1/4", "1/2", "2"], "target": "child", "seed": 520,
                    "again": {"fn": "kosambi", "pos": "pos1"}})
        # the same object interpolated twice on the SAME map with different map functions (positions unchanged)
        chr8 = [1, 1, 1, 2, 2, 3, 3, 3]
        pos8 = [0, "1/8", "1/2", 0, "1/4", "1/4", "1/2", 1]
        out += [{"kind": "xoprob", "fn": "haldane", "via": "interp", "chr": chr8, "pos": pos8, "prime": "fn"},
                {"kind": "xoprob", "fn": "kosambi", "via": "interp-ext", "chr": chr8, "pos": pos8, "prime": "fn"},
                {"kind": "xoprob", "fn": "haldane", "via": "interp-gmat", "chr": chr8, "pos": pos8, "prime": "fn"},
                {"kind": "shared", "share": "mate:FourWayCross", "chr": chr9, "fn1": "haldane", "via1": "standard",
                 "pos1": pa, "fn2": "haldane", "via2": "standard", "pos2": pb, "target": "child", "seed": 521,
                 "again": {"fn": "kosambi", "pos": "pos2"}}]
        # from_gmod with neutral markers in the genomic model (first marker, marker between two QTL, two traits)
        h, q = "1/2", "1/4"
        out.append({"kind": "embv", "gen": "Generator", "seed": 51, "ntaxa": 2, "xoprob": [h, q, "1/8", h, "3/8", q],
                    "nprogeny": [3, 2], "nrep": 2, "ua": [[0], [1], [0], [0], [2], [-1]]})
        out.append({"kind": "embv", "gen": "RandomState", "seed": 52, "ntaxa": 2, "xoprob": [h, q, "1/8", h, "3/8"],
                    "nprogeny": 3, "nrep": [1, 2], "ua": [[1, 0], [0, 0], [0, -1], [0, 0], [2, 0]], "homo": [[1], []]})
        return out

    def _corpus_round4(self):
        """one case per class of inputs added in round 4"""
        import random
        h, q = "1/2", "1/4"
        chr8 = [1, 1, 1, 2, 2, 3, 3, 3]
        pos8 = [0, "1/8", h, 0, q, q, h, 1]
        out = [
            # the optional window [ast, asp) of gdist1g / gdist1p: opening at a chromosome start, inside a chromosome,
            # on the last marker of a chromosome; open-ended
            {"kind": "xoprob", "fn": "haldane", "via": "rprob1g", "chr": chr8, "pos": pos8, "slice": [3, 8]},
            {"kind": "xoprob", "fn": "kosambi", "via": "rprob1g", "chr": chr8, "pos": pos8, "slice": [1, 7]},
            {"kind": "xoprob", "fn": "haldane", "via": "extended", "chr": chr8, "pos": pos8, "slice": [2, None]},
            {"kind": "xoprob", "fn": "kosambi", "via": "extended", "chr": [9, 2, 2, 4, 1], "pos": [h, 0, 0, 2, 1],
             "slice": [None, 4]},
            {"kind": "xoprob", "fn": "haldane", "via": "rprob1p", "chr": chr8, "pos": pos8, "slice": [4, 7]},
            {"kind": "xoprob", "fn": "kosambi", "via": "rprob1p", "chr": chr8, "pos": pos8, "slice": [1, 6]},
            # gaps of many Morgans (the map function saturates at 1/2; no overflow on the way) next to tiny ones
            {"kind": "xoprob", "fn": "kosambi", "via": "rprob1g", "chr": [1, 1, 1, 1, 2, 2],
             "pos": canon.enc([0, 200, 2200, 2200 + Fraction(1, 2 ** 20), 0, 40])},
            {"kind": "xoprob", "fn": "haldane", "via": "extended", "chr": [1, 1, 1, 2, 2],
             "pos": [0, 400, 2400, 0, "1/8"]},
            {"kind": "xoprob", "fn": "kosambi", "via": "interp", "chr": [1, 1, 1, 2, 2, 2], "pos": [0, 180, 185, 0, 1, 2001]},
            {"kind": "xoprob", "fn": "haldane", "via": "interp-ext", "chr": [1, 1, 2, 2], "pos": [0, 1000, 5, 45]},
        ]
        rb = random.Random(4242)
        out.append(self._big_case(rb, "dense", "meiosis", m=130, nsel=3, ntaxa=2, dense=True))
        out.append(self._big_case(rb, "mat", "mate", m=260, nsel=3, ntaxa=2, dense=True))
        out.append(self._big_case(rb, "dense", "dh", m=60, nsel=3, ntaxa=2, dense=True))
        out.append(self._big_case(rb, "mat", "meiosis", m=520, nsel=3, ntaxa=1, dense=True))
        # protocols on several chromosomes whose starts carry 1/2 or a hand-assigned value; another matrix object
        # (same marker count, other probabilities) at the second call of one protocol object
        for i, p in enumerate(PROTOS):
            np_ = NPARENT[p]
            xc = [list(range(np_))] if np_ < 4 else [[0, 1, 2, 3]]
            out.append({"kind": "protocol", "proto": p, "gen": "Generator" if i % 2 else "RandomState", "seed": 401 + i,
                        "ntaxa": 4, "xconfig": xc, "nmating": 2, "nprogeny": 2, "nself": i % 3,
                        "chr": [1, 1, 2, 2, 2, 5], "xoprob": [h, q, "1/8" if i % 2 else h, q, "3/8", q if i % 3 else h]})
            out.append({"kind": "protocol", "proto": p, "gen": "Generator", "seed": 431 + i, "ntaxa": 4, "xconfig": xc,
                        "nmating": 1, "nprogeny": 3, "nself": (i + 1) % 2, "ncall": 2, "xoprob": [h, q, q, h],
                        "xoprob2": [q, h, "3/4", "1/8"], "edit_mode": "newobj"})
            # a second breeding cycle: the progeny of the first call (2 crosses x 2 matings x 1 progeny) are the parents
            out.append({"kind": "protocol", "proto": p, "gen": "RandomState" if i % 2 else "Generator", "seed": 461 + i,
                        "ntaxa": 5, "xconfig": [list(range(np_)), [4 - t for t in range(np_)]] if np_ < 4 else
                        [[0, 1, 2, 3], [4, 3, 1, 0]], "nmating": 2, "nprogeny": 1, "nself": i % 2, "ncall": 2,
                        "chain": [list(range(np_)), [3 - t for t in range(np_)]], "xoprob": [h, q, "3/8", h, q],
                        "forder": bool(i % 2)})
        return out

    def _corpus_round3(self):
        """one case per class of inputs added in round 3 (each is the minimal witness of a seeded change that the
        round-2 check missed, or of a mutant of `mutants()`)"""
        import random
        h = "1/2"
        q = "1/4"
        out = []
        # partly inbred parent: crossovers drawn AT homozygous markers still switch the copy; a homozygous
        # chromosome start still randomises the starting copy
        for impl in ("dense", "mat"):
            out.append({"kind": "scripted", "impl": impl, "fn": "meiosis", "gen": "Generator",
                        "geno": _geno(1, 5, 0, [[1, 2]]), "sel": [0, 0, 0], "xoprob": [h, q, q, q, h],
                        "rnd": [[["3/4", 0, "3/4", "3/4", "3/4"], ["3/4", 0, 0, "3/4", "3/4"],
                                 [q, "3/4", 0, "3/4", 0]]]})
            out.append({"kind": "scripted", "impl": impl, "fn": "dh", "gen": "RandomState",
                        "geno": _geno(2, 4, 7, [[0, 1], [0]]), "sel": [0, 1, 0], "xoprob": [h, q, q, q],
                        "rnd": [[[q, "3/4", "3/4", "3/4"], [0, "3/4", "3/4", "3/4"], [q, 0, "3/4", 0]]]})
            out.append({"kind": "scripted", "impl": impl, "fn": "mate", "gen": "Generator",
                        "geno": _geno(2, 4, 3, [[1, 2], []]), "mgeno": _geno(1, 4, 90, [[0, 2]]),
                        "sel": [0, 1], "msel": [0, 0], "xoprob": [h, q, q, "1/8"],
                        "rnd": [[["3/4", 0, "3/4", "3/4"], [q, q, q, q]], [[q, "3/4", 0, "3/4"], ["3/4", "3/4", 0, 0]]]})
            # several calls on the same arrays and the same generator: fresh draws every time, inputs untouched
            out.append({"kind": "scripted", "impl": impl, "fn": "meiosis", "gen": "Generator", "repeat": 3,
                        "geno": _geno(2, 3, 11), "sel": [1, 0], "xoprob": [h, q, q],
                        "rnd": [[[q, "3/4", 0], ["3/4", 0, "3/4"]], [["3/4", "3/4", "3/4"], [q, q, q]],
                                [[q, 0, "3/4"], [0, 0, 0]]]})
            out.append({"kind": "scripted", "impl": impl, "fn": "mate", "gen": "RandomState", "repeat": 2,
                        "geno": _geno(2, 3, 40), "mgeno": _geno(2, 3, 80), "sel": [0, 1], "msel": [1, 1],
                        "xoprob": [h, q, h],
                        "rnd": [[[q, "3/4", 0], ["3/4", 0, "3/4"]], [["3/4", "3/4", q], [q, q, "3/4"]],
                                [[q, 0, "3/4"], [0, 0, 0]], [["3/4", 0, q], [q, "3/4", "3/4"]]]})
            # probabilities and draws at the magnitudes of tolerance-style comparisons
            t27, t17 = Fraction(1, 2 ** 27), Fraction(1, 2 ** 17)
            hp = Fraction(1, 2) + Fraction(1, 2 ** 30)
            out.append({"kind": "scripted", "impl": impl, "fn": "meiosis", "gen": "MT19937-Generator",
                        "geno": _geno(1, 4, 21), "sel": [0, 0, 0],
                        "xoprob": canon.enc([hp, t27, t17, 1 - Fraction(1, 2 ** 20)]),
                        "rnd": [canon.enc([[Fraction(1, 2), 0, t17 - EPS, 1 - Fraction(1, 2 ** 20) - Fraction(1, 2 ** 34)],
                                           [hp, t27 / 2, t17 + Fraction(1, 2 ** 34), 1 - Fraction(1, 2 ** 21)],
                                           [hp - Fraction(1, 2 ** 34), t27 * 2, t17 / 2, 1 - EPS]])]})
            # argument forms: negative indices, small-integer index dtypes, Fortran / strided arrays
            out.append({"kind": "scripted", "impl": impl, "fn": "mate", "gen": "Generator",
                        "geno": _geno(3, 4, 5), "mgeno": _geno(2, 4, 77), "sel": [-1, 0, -3], "msel": [-2, 1, -1],
                        "xoprob": [h, q, q, h],
                        "form": {"order": "F", "sel": "int8", "xo": "strided", "gdtype": "int16"},
                        "rnd": [[[q, "3/4", 0, "3/4"], ["3/4", 0, "3/4", q], [0, 0, 0, 0]],
                                [["3/4", "3/4", 0, q], [q, q, "3/4", "3/4"], [q, "3/4", "3/4", 0]]]})
            out.append({"kind": "scripted", "impl": impl, "fn": "meiosis", "gen": "RandomState",
                        "geno": _geno(3, 4, 9, [[], [1], []]), "sel": [2, 1, 0], "xoprob": [h, q, "1/8", h],
                        "form": {"order": "strided_m", "sel": "int32", "xo": "float32", "gdtype": "int64"},
                        "rnd": [[[q, "3/4", 0, "3/4"], ["3/4", 0, "3/4", q], [0, 0, 0, 0]]]})
            out.append({"kind": "scripted", "impl": impl, "fn": "dh", "gen": "Generator",
                        "geno": _geno(3, 3, 19), "sel": [2, 0], "xoprob": [h, q, q],
                        "form": {"order": "strided", "sel": "int16", "xo": "contig", "gdtype": "int8"},
                        "rnd": [[[q, "3/4", 0], ["3/4", 0, 0]]]})
        # sizes past internal constants
        rb = random.Random(777)
        out.append(self._big_case(rb, "mat", "meiosis", m=8200, nsel=2, ntaxa=2))
        out.append(self._big_case(rb, "dense", "mate", m=8200, nsel=2, ntaxa=2))
        out.append(self._big_case(rb, "mat", "dh", m=1030, nsel=3, ntaxa=2))
        out.append(self._big_case(rb, "mat", "meiosis", m=1030, nsel=2, ntaxa=2, many=True))
        out.append(self._big_case(rb, "dense", "mate", m=1030, nsel=2, ntaxa=2, many=True))
        out.append(self._big_case(rb, "mat", "meiosis", m=70000, nsel=2, ntaxa=1))
        out.append(self._big_case(rb, "dense", "meiosis", m=40000, nsel=2, ntaxa=1))
        out.append(self._big_case(rb, "dense", "meiosis", m=2, nsel=1030, ntaxa=3))
        out.append(self._big_case(rb, "mat", "mate", m=2, nsel=4100, ntaxa=3))
        out.append(self._big_case(rb, "dense", "dh", m=2, nsel=9000, ntaxa=2))
        out.append(self._big_case(rb, "mat", "meiosis", m=3, nsel=6, ntaxa=130))
        out.append(self._big_case(rb, "dense", "dh", m=3, nsel=6, ntaxa=260))
        # the protocols with selfing generations, partly inbred founders, two calls on one object
        for i, p in enumerate(PROTOS):
            np_ = NPARENT[p]
            xc = [list(range(np_)), [4 - k for k in range(np_)]] if np_ < 4 else [[0, 1, 2, 3], [4, 3, 1, 0]]
            out.append({"kind": "protocol", "proto": p, "gen": "Generator" if i % 2 else "RandomState", "seed": 23 + i,
                        "ntaxa": 5, "xconfig": xc, "nmating": [1, 2], "nprogeny": [3, 2], "nself": 1,
                        "xoprob": [h, q, "1/8", h, "3/8", q]})
            out.append({"kind": "protocol", "proto": p, "gen": "Generator", "seed": 61 + i, "ntaxa": 5,
                        "xconfig": xc[:1], "nmating": 2, "nprogeny": 2, "nself": 2 + (i % 2), "ncall": 2,
                        "homo": [[0, 1], [2], [], [1, 2, 3], [4]], "xoprob": [h, q, q, h, q],
                        "xoprob2": [q, h, "3/4", 0, h], "edit_mode": "inplace" if i % 2 else "assign"})
        out.append({"kind": "protocol", "proto": "TwoWayCross", "gen": "Generator", "seed": 3, "ntaxa": 2,
                    "xconfig": [[0, 1]] * 3, "nmating": 1, "nprogeny": [1, 2, 1], "nself": 1, "xoprob": [h, q]})
        # more than 127 / 255 taxa: indices past the int8 / uint8 range
        out.append({"kind": "protocol", "proto": "ThreeWayCross", "gen": "Generator", "seed": 78, "ntaxa": 260,
                    "xconfig": [[259, 128, 3], [127, 257, 131], [-1, 200, -132]], "nmating": [1, 2, 1],
                    "nprogeny": 2, "nself": 1, "xoprob": [h, q, q]})
        # more crosses than 1024
        out.append({"kind": "protocol", "proto": "TwoWayDHCross", "gen": "Generator", "seed": 77, "ntaxa": 3,
                    "xconfig": [[i % 3, (i + 1 + i // 3 % 2) % 3] for i in range(1030)], "nmating": 1, "nprogeny": 1,
                    "nself": 1, "xoprob": [h, q]})
        out.append({"kind": "embv", "gen": "RandomState", "seed": 8, "ntaxa": 3, "homo": [[1, 2], [0], [0, 1, 2, 3]],
                    "xoprob": [h, q, q, q, h], "nprogeny": [3, 2, 2], "nrep": [2, 1, 1]})
        # crossover probabilities from a map: grouped but unsorted labels, offsets, tiny gaps, further entry points
        chr8 = [1, 1, 1, 2, 2, 3, 3, 3]
        pos8 = [0, "1/8", h, 0, q, q, h, 1]
        out += [
            {"kind": "xoprob", "fn": "haldane", "via": "rprob1g", "chr": [7, 7, 3, 3, 3, 5], "pos": [0, h, q, h, 1, "1/8"]},
            {"kind": "xoprob", "fn": "kosambi", "via": "extended", "chr": [9, 2, 2, 4, 1], "pos": [h, 0, 0, 2, 1]},
            {"kind": "xoprob", "fn": "haldane", "via": "rprob1g", "chr": [1, 1, 1, 2, 2],
             "pos": canon.enc([25000, 25000 + Fraction(1, 2 ** 27), 25000 + Fraction(1, 8), 25000,
                               25000 + Fraction(1, 2 ** 20)])},
            {"kind": "xoprob", "fn": "haldane", "via": "rprob1p", "chr": chr8, "pos": pos8},
            {"kind": "xoprob", "fn": "kosambi", "via": "interp-ext", "chr": chr8, "pos": pos8,
             "perm": [3, 0, 7, 1, 5, 2, 6, 4]},
            {"kind": "xoprob", "fn": "haldane", "via": "interp-gmat", "chr": chr8, "pos": pos8,
             "perm": [7, 6, 5, 4, 3, 2, 1, 0]},
            {"kind": "xoprob", "fn": "haldane", "via": "interp", "chr": chr8, "pos": pos8, "ungrouped": True},
            {"kind": "xoprob", "fn": "kosambi", "via": "interp", "chr": chr8, "pos": pos8, "prime": True},
            {"kind": "xoprob", "fn": "haldane", "via": "rprob1g", "chr": chr8, "pos": pos8, "prime": True},
            {"kind": "xoprob", "fn": "haldane", "via": "interp-ext", "chr": chr8, "pos": pos8, "prime": True},
        ]
        return out

    def _stat_cases(self, n):
        """fixed-seed statistical support; `n` gametes each"""
        h = Fraction(1, 2)
        v1 = [h, Fraction(1, 10), Fraction(1, 5), h, Fraction(1, 20), Fraction(3, 10), h, Fraction(1, 4)]
        v2 = [h, Fraction(1, 100), Fraction(2, 5), Fraction(0), Fraction(1), h, Fraction(1, 8)]
        v3 = [Fraction(1, 5), Fraction(1, 10), Fraction(3, 10)]       # start phase NOT randomised
        maps = [("haldane", [1, 1, 1, 1, 2, 2, 2, 3, 3], ["0", "1/16", "1/4", "1/2", "0", "1/8", "3/8", "1/4", "5/4"]),
                ("kosambi", [1, 1, 1, 2, 2, 2], ["0", "1/8", "1/4", "0", "1/16", "1/2"])]
        out = []
        seed = 9000
        for tgt, xo in [("mat_meiosis", v1), ("dense_meiosis", v2), ("mat_dh", v2), ("dense_dh", v1),
                        ("mat_mate", v1), ("dense_cross", v3), ("mat_meiosis", v3)]:
            seed += 1
            out.append({"kind": "statistical-support", "target": tgt, "gen": "Generator" if seed % 2 else "RandomState",
                        "seed": seed, "n": n, "xoprob": canon.enc(xo)})
        for fn, chr_, pos in maps:
            for tgt in ("mat_meiosis", "dense_meiosis"):
                seed += 1
                out.append({"kind": "statistical-support", "target": tgt, "gen": "Generator", "seed": seed, "n": n,
                            "map": {"fn": fn, "chr": chr_, "pos": pos}})
        for i, p in enumerate(PROTOS):
            seed += 1
            c = {"kind": "statistical-support", "target": "proto:" + p, "gen": "Generator" if i % 2 == 0 else "RandomState",
                 "seed": seed, "n": n}
            if i % 3 == 0:
                c["map"] = {"fn": maps[0][0], "chr": maps[0][1], "pos": maps[0][2]}
            else:
                c["xoprob"] = canon.enc(v1 if i % 3 == 1 else v2)
            out.append(c)
        # round 3: partly inbred parents (homozygous start, homozygous runs between heterozygous markers) ...
        seed = 9100
        for tgt, xo, homo in [("dense_meiosis", v1, [0, 2, 3, 5]), ("mat_meiosis", v1, [1, 2, 6]),
                              ("dense_dh", v2, [0, 1, 4]), ("mat_mate", v3 + v3, [0, 3, 4])]:
            seed += 1
            out.append({"kind": "statistical-support", "target": tgt, "gen": "Generator", "seed": seed,
                        "n": max(n // 2, 4000), "xoprob": canon.enc(xo), "homo": homo})
        out.append({"kind": "statistical-support", "target": "embv", "gen": "Generator", "seed": 9120,
                    "n": max(n // 4, 4000), "xoprob": canon.enc(v1), "homo": [2, 5]})
        # ... and the protocols with one selfing generation (copy of the hybrid read from the founder labels)
        for i, p in enumerate(["TwoWayCross", "ThreeWayCross", "FourWayCross"]):
            seed += 1
            out.append({"kind": "statistical-support", "target": "proto:" + p, "nself": 1,
                        "gen": "Generator" if i % 2 else "RandomState", "seed": seed, "n": max(n // 4, 3000),
                        "xoprob": canon.enc(v1 if i % 2 else v2)})
        # ... and gametes two meioses away from the labelled individual (closed form `pairProb2`)
        v4 = [h, Fraction(1, 10), Fraction(3, 10)]
        for p, ns, xo in [("SelfCross", 1, v1), ("TwoWayDHCross", 1, v4), ("TwoWayCross", 2, v3)]:
            seed += 1
            out.append({"kind": "statistical-support", "target": "proto:" + p, "nself": ns, "gen2": True,
                        "gen": "Generator", "seed": seed, "n": max(n // 4, 3000), "xoprob": canon.enc(xo)})
        out += self._stat_cases_round4(n)
        return out

    def _stat_cases_round4(self, n):
        h = Fraction(1, 2)
        v1 = [h, Fraction(1, 10), Fraction(1, 5), h, Fraction(1, 20), Fraction(3, 10), h, Fraction(1, 4)]
        v3 = [Fraction(1, 5), Fraction(1, 10), Fraction(3, 10)]
        v4 = [h, Fraction(1, 10), Fraction(3, 10)]
        out = []
        seed = 9200
        # any number of selfing generations: one chromosome copy against `pairProbN`, the two copies of one plant
        # against `crossProbN` (theorem n_generation_recombination_law); ngen = meioses between the labelled plant
        # and the observed copy
        for p, ns, ng, xo, gen in [("SelfCross", 2, 3, v4, "Generator"), ("TwoWayCross", 3, 3, v1, "RandomState"),
                                   ("TwoWayDHCross", 2, 3, v3, "Generator"), ("TwoWayCross", 1, 1, v4, "Generator"),
                                   ("SelfCross", 1, 2, v1, "RandomState"), ("TwoWayCross", 4, 4, v3, "Generator")]:
            seed += 1
            out.append({"kind": "statistical-support", "target": "proto:" + p, "nself": ns, "ngen": ng, "gen": gen,
                        "seed": seed, "n": max(n // 4, 3000), "xoprob": canon.enc(xo)})
        # dense marker panels: many markers, mean crossover probability below 1-2 % (1/2 only at the chromosome
        # starts); statistics at the chromosome starts, their neighbours and a few markers inside
        seed = 9300
        d1 = {"nchr": 3, "clen": 40, "p": "1/256"}
        w1 = [0, 1, 20, 39, 40, 41, 79, 80, 100, 119]
        d2 = {"nchr": 4, "clen": 30, "p": "1/512"}
        w2 = [0, 1, 29, 30, 31, 60, 75, 90, 119]
        m1 = {"fn": "haldane", "nchr": 4, "clen": 50, "step": "1/200"}
        wm1 = [0, 1, 25, 49, 50, 51, 100, 125, 150, 199]
        m2 = {"fn": "kosambi", "nchr": 3, "clen": 60, "step": "1/256"}
        wm2 = [0, 1, 59, 60, 61, 90, 120, 150, 179]
        for tgt, key, lay, w in [("dense_meiosis", "dense", d1, w1), ("mat_meiosis", "dense", d2, w2),
                                 ("dense_dh", "map", m1, wm1), ("mat_mate", "map", m2, wm2),
                                 ("dense_cross", "dense", d2, w2), ("embv", "dense", d1, w1),
                                 ("proto:TwoWayDHCross", "map", m1, wm1), ("proto:SelfCross", "dense", d1, w1)]:
            seed += 1
            out.append({"kind": "statistical-support", "target": tgt, "gen": "Generator" if seed % 2 else "RandomState",
                        "seed": seed, "n": max(n // 2, 4000), key: lay, "watch": w})
        # panels longer than typical internal block sizes (1024 .. 8192 markers): the copy in use must be carried
        # across every block boundary (statistics right before / after the boundaries; fixed sample size)
        seed = 9350
        long_ = {"nchr": 1, "clen": 8200, "p": "1/4096"}
        wl = [0, 1023, 1024, 2048, 4096, 4097, 8191, 8192, 8193]
        for tgt, nn in [("mat_meiosis", 1500), ("dense_meiosis", 1500)]:
            seed += 1
            out.append({"kind": "statistical-support", "target": tgt, "gen": "Generator", "seed": seed, "n": nn,
                        "nfix": True, "dense": long_, "watch": wl})
        # the whole chain map -> interp_xoprob -> mate(): nothing assigned by hand
        seed = 9400
        mp1 = {"fn": "haldane", "chr": [1, 1, 1, 1, 2, 2, 2, 3, 3],
               "pos": ["0", "1/16", "1/4", "1/2", "0", "1/8", "3/8", "1/4", "5/4"]}
        mp2 = {"fn": "kosambi", "chr": [1, 1, 1, 2, 2, 2], "pos": ["0", "1/8", "1/4", "0", "1/16", "1/2"]}
        for p, mp, via, ns in [("TwoWayDHCross", mp2, "standard", 0), ("ThreeWayCross", mp2, "extended", 0),
                               ("SelfCross", mp1, "extended", 0), ("FourWayDHCross", mp1, "standard", 0)]:
            seed += 1
            out.append({"kind": "statistical-support", "target": "proto:" + p, "gen": "Generator", "seed": seed,
                        "n": max(n // 2, 4000), "map": mp, "pipeline": via})
        seed += 1
        out.append({"kind": "statistical-support", "target": "proto:TwoWayCross", "gen": "Generator", "seed": seed,
                    "n": max(n // 2, 4000), "map": dict(m2), "pipeline": "standard", "watch": wm2})
        # round 5: the progeny of the tested population were put on a stretched map before the meioses of the PARENTS
        seed = 9500
        out.append({"kind": "statistical-support", "target": "proto:TwoWayCross", "gen": "Generator", "seed": seed,
                    "n": max(n // 2, 4000), "map": mp1, "pipeline": "standard", "disturb": "TwoWayCross"})
        out.append({"kind": "statistical-support", "target": "proto:ThreeWayDHCross", "gen": "RandomState", "seed": seed + 1,
                    "n": max(n // 2, 4000), "map": mp2, "pipeline": "extended", "disturb": "SelfCross"})
        # round 5: from_gmod with a sparse QTL model (neutral first marker of a chromosome, neutral markers between QTL)
        xs = [h, Fraction(1, 20), Fraction(1, 15), Fraction(1, 14), Fraction(1, 8), h, Fraction(1, 11), Fraction(1, 14),
              Fraction(1, 10)]
        out.append({"kind": "statistical-support", "target": "embv", "gen": "Generator", "seed": seed + 2, "n": n,
                    "xoprob": canon.enc(xs), "ua": [[0], [1], [0], ["-3/2"], [2], [0], [1], [0], [-2]]})
        out.append({"kind": "statistical-support", "target": "embv", "gen": "Generator", "seed": seed + 4, "n": n,
                    "xoprob": canon.enc(xs), "homo": [2, 5, 7]})
        out.append({"kind": "statistical-support", "target": "embv", "gen": "RandomState", "seed": seed + 3,
                    "n": max(n // 2, 4000), "map": mp1, "ua": [[1, 0], [0, 0], [0, 0], [0, 2], [0, 0], [1, 1], [0, 0], [0, 0], [0, -1]]})
        return out

    def exhaustive(self, tier):
        if tier == "thorough":
            # the same statistical cases at 7.5 times the sample size (other seeds)
            big = [c for c in self._stat_cases(150000) if not c.get("nfix")]
            for c in big:
                c["seed"] += 500
            return big
        return None

    # ------------------------------------------------------------------ generation
    def generate(self, rng, n, tier):
        out = []
        for _ in range(n):
            r = rng.random()
            if r < 0.03:
                out.append(self._gen_shared(rng))
            elif r < 0.56:
                out.append(self._gen_scripted(rng))
            elif r < 0.78:
                out.append(self._gen_protocol(rng))
            elif r < 0.83:
                out.append(self._gen_embv(rng))
            elif r < 0.84:
                out.append(self._gen_big(rng, tier))
            elif r < 0.852:
                out.append(self._gen_stat(rng, tier))
            else:
                out.append(self._gen_xoprob(rng))
        return out

    SHARES = ["mate:" + p for p in PROTOS] + ["select_taxa", "ctor"]

    def _gen_shared(self, rng):
        """a history over two matrix objects that hold the same vrnt_xoprob / vrnt_genpos arrays"""
        nchr = rng.choice([1, 2, 2, 3])
        chr_, pos1, pos2 = [], [], []
        steps = [1, 2, 4, 8, 16]
        mode = rng.choice(["scale", "scale", "fresh"])
        k2 = rng.choice([Fraction(2), Fraction(4), Fraction(1, 2), Fraction(3)])
        lab = 0
        for c in range(nchr):
            lab += rng.choice([1, 1, 3])
            g1 = Fraction(rng.randrange(0, 4), 16)
            g2 = g1 * k2 if mode == "scale" else Fraction(rng.randrange(0, 4), 16)
            for _ in range(rng.choice([2, 3, 4])):
                chr_.append(lab)
                pos1.append(g1)
                pos2.append(g2)
                d = Fraction(rng.choice(steps), 32)
                g1 += d
                g2 += d * k2 if mode == "scale" else Fraction(rng.choice(steps), 32)
        case = {"kind": "shared", "share": rng.choice(self.SHARES), "chr": chr_,
                "fn1": rng.choice(["haldane", "haldane", "kosambi"]), "via1": rng.choice(["standard", "extended"]),
                "pos1": canon.enc(pos1), "fn2": rng.choice(["haldane", "haldane", "kosambi"]),
                "via2": rng.choice(["standard", "extended"]), "pos2": canon.enc(pos2),
                "target": rng.choice(["child", "child", "parent"]), "seed": rng.randrange(1 << 30)}
        if rng.random() < 0.3:
            # the same object is interpolated once more (on the first map again, other map function)
            case["again"] = {"fn": rng.choice(["haldane", "kosambi"]), "pos": rng.choice(["pos1", "pos2"])}
        return case

    def _gen_stat(self, rng, tier):
        """a statistical case with random target, layout and seed (the corpus holds the fixed ones): what decides
        when a changed tree consumes its random numbers in another pattern than the model"""
        n = 4000 if tier == "quick" else 20000
        tgt = rng.choice(["mat_meiosis", "dense_meiosis", "mat_dh", "dense_dh", "mat_mate", "dense_cross", "embv"]
                         + ["proto:" + p for p in PROTOS])
        case = {"kind": "statistical-support", "target": tgt, "gen": rng.choice(["Generator", "RandomState"]),
                "seed": rng.randrange(1 << 30), "n": n}
        c = rng.random()
        if c < 0.4:
            m = rng.choice([3, 4, 5, 6, 8])
            xo = [Fraction(rng.choice([0, 1, 2, 3, 4, 5, 6, 8, 10, 10, 10, 15, 20]), 20) for _ in range(m)]
            if rng.random() < 0.7:
                xo[0] = Fraction(1, 2)
            case["xoprob"] = canon.enc(xo)
        elif c < 0.7:
            nchr, clen = rng.choice([2, 3, 4]), rng.choice([25, 40, 60])
            if rng.random() < 0.5:
                case["dense"] = {"nchr": nchr, "clen": clen, "p": rng.choice(["1/256", "1/512", "1/1024"])}
            else:
                case["map"] = {"fn": rng.choice(["haldane", "kosambi"]), "nchr": nchr, "clen": clen,
                               "step": rng.choice(["1/200", "1/256", "1/400"])}
            m = nchr * clen
            w = {0, 1, m - 1}
            for ch in range(1, nchr):
                w |= {ch * clen - 1, ch * clen, ch * clen + 1}
            w |= set(rng.sample(range(m), 3))
            case["watch"] = sorted(w)
        else:
            nchr = rng.choice([2, 3])
            chr_, pos = [], []
            for ch in range(nchr):
                g = Fraction(0)
                for _ in range(rng.choice([2, 3, 4])):
                    chr_.append(ch + 1)
                    pos.append(g)
                    g += Fraction(rng.choice([1, 2, 4, 8, 16]), 32)
            case["map"] = {"fn": rng.choice(["haldane", "kosambi"]), "chr": chr_, "pos": [str(v) for v in pos]}
        if tgt == "embv" and rng.random() < 0.6:
            mm = len(case["map"]["chr"]) if "map" in case and "chr" in case["map"] else (
                len(case["xoprob"]) if "xoprob" in case else None)
            if mm is not None and mm >= 3:
                ua = [[0] for _ in range(mm)]
                for j in rng.sample(range(mm), rng.choice([2, 3]) if mm > 3 else 2):
                    ua[j] = [rng.choice([1, -1, 2])]
                case["ua"] = ua
                case["n"] = 3 * n
        if tgt.startswith("proto:"):
            if "map" in case and rng.random() < 0.5:
                case["pipeline"] = rng.choice(["standard", "extended"])
                if rng.random() < 0.5:
                    case["disturb"] = rng.choice(PROTOS)
            p = tgt[6:]
            if p in ("SelfCross", "TwoWayCross", "TwoWayDHCross") and rng.random() < 0.4:
                ns = rng.choice([1, 2, 3])
                case["nself"] = ns
                case["ngen"] = ns if p == "TwoWayCross" else ns + 1
                case["n"] = max(n // 2, 3000)
            elif p in ("TwoWayCross", "ThreeWayCross", "FourWayCross") and rng.random() < 0.3:
                case["nself"] = 1
                case["n"] = max(n // 2, 3000)
        elif "map" not in case and rng.random() < 0.3:
            m = len(case["xoprob"]) if "xoprob" in case else case["dense"]["nchr"] * case["dense"]["clen"]
            case["homo"] = sorted(rng.sample(range(m), rng.choice([1, 2]) if m < 20 else 10))
        return case

    def _gen_scripted(self, rng):
        ntaxa = rng.choice([1, 1, 2, 3, 4, 6])
        m = rng.choice([1, 2, 3, 4, 5, 6, 8, 12])
        nsel = rng.choice([1, 2, 2, 3, 4, 6])
        fn = rng.choice(["meiosis", "meiosis", "dh", "mate"])
        xo = _xo_vector(rng, m, "tiny" if rng.random() < 0.3 else None)
        off = rng.randrange(256)
        homo = _gen_homo(rng, ntaxa, m) if rng.random() < 0.45 else None
        rep = rng.choice([2, 3]) if rng.random() < 0.15 else 1
        case = {"kind": "scripted", "impl": rng.choice(["mat", "dense"]), "fn": fn,
                "gen": rng.choice(["Generator", "RandomState", "MT19937-Generator", "MT19937-RandomState"]),
                "geno": _geno(ntaxa, m, off, homo), "sel": [rng.randrange(ntaxa) for _ in range(nsel)],
                "xoprob": canon.enc(xo)}
        ncall = (2 if fn == "mate" else 1) * rep
        case["rnd"] = [canon.enc([[_draw(rng, x) for x in xo] for _ in range(nsel)]) for _ in range(ncall)]
        if rep > 1:
            case["repeat"] = rep
            if rng.random() < 0.6:
                case["edit"] = {}
                if rng.random() < 0.7:
                    case["edit"]["xoprob"] = canon.enc(_xo_vector(rng, m))
                if rng.random() < 0.6:
                    case["edit"]["geno"] = _geno(ntaxa, m, (off + 37) % 256, _gen_homo(rng, ntaxa, m))
                if not case["edit"]:
                    del case["edit"]
        mt = ntaxa
        if fn == "mate":
            mt = rng.choice([1, 2, 3])
            case["mgeno"] = _geno(mt, m, (off + 100) % 256, _gen_homo(rng, mt, m) if homo else None)
            case["msel"] = [rng.randrange(mt) for _ in range(nsel)]
        if rng.random() < 0.35:
            # argument forms that numpy accepts and the documentation does not exclude
            form = {"order": rng.choice(["C", "F", "strided", "strided_m"]),
                    "sel": rng.choice(["int64", "int8", "int32", "int16"]),
                    "xo": rng.choice(["contig", "strided", "float32"]),
                    "gdtype": rng.choice(["int8", "int16", "int64"])}
            if form["xo"] == "float32" and any(Fraction(float(numpy.float32(_f(x)))) != x for x in xo):
                form["xo"] = "strided"
            case["form"] = form
        c = rng.random()
        if c < 0.15:
            # numpy index semantics: a negative entry of sel counts from the end of the taxa axis
            for k in range(nsel):
                if rng.random() < 0.6:
                    case["sel"][k] -= ntaxa
            if fn == "mate":
                for k in range(nsel):
                    if rng.random() < 0.4:
                        case["msel"][k] -= mt
        elif c < 0.21:
            # malformed stream: one index of sel is outside the population
            case["sel"][rng.randrange(nsel)] = ntaxa + rng.randrange(3)
            case["reject"] = True
        return case

    def _gen_big(self, rng, tier):
        """sizes past internal constants (blocks of 1024 .. 8192 markers, 1024 / 4096 gametes, 127 taxa)"""
        c = rng.random()
        impl = rng.choice(["mat", "dense"])
        fn = rng.choice(["meiosis", "meiosis", "dh", "mate"])
        if c < 0.15:
            return self._big_case(rng, impl, fn, m=rng.choice([200, 420, 1030]) if tier == "quick" else
                                  rng.choice([1030, 4100]), nsel=2, ntaxa=2, many=True)
        if c < 0.35:
            return self._big_case(rng, impl, fn, m=rng.choice([60, 130, 260, 520]), nsel=3, ntaxa=2, dense=True)
        if c < 0.5:
            m = rng.choice([1030, 2050, 4100, 8200]) if tier == "quick" else rng.choice([4100, 8200, 16400, 33000])
            return self._big_case(rng, impl, fn, m=m, nsel=2, ntaxa=2)
        if c < 0.8:
            return self._big_case(rng, impl, fn, m=2, nsel=rng.choice([1030, 4100, 9000]) if tier == "quick"
                                  else rng.choice([4100, 9000, 70000]), ntaxa=3)
        return self._big_case(rng, impl, fn, m=3, nsel=6, ntaxa=rng.choice([130, 260]))

    @staticmethod
    def _big_case(rng, impl, fn, m, nsel, ntaxa, seed=None, many=False, dense=False):
        nhit = lambda: rng.choice([1, 2, 3, 5])
        def hits():
            rows = []
            for i in range(nsel):
                k = min(nhit(), m)
                h = sorted(rng.sample(range(m), k))
                if i == 0 and m > 6:
                    h = [rng.randrange(6)]          # one early hit: on copy 1 across every later block boundary
                if many:
                    # hundreds of crossovers in one gamete (past any fixed-size buffer of crossover positions)
                    h = [j for j in range(m) if (j % 3 == i % 3) or rng.random() < 0.05]
                rows.append(h)
            return rows
        case = {"kind": "big", "impl": impl, "fn": fn, "gen": rng.choice(["Generator", "RandomState"]),
                "m": m, "ntaxa": ntaxa,
                "sel": [rng.randrange(ntaxa) if ntaxa <= 127 else rng.choice([ntaxa - 1 - rng.randrange(3), 127, 128,
                                                                               rng.randrange(ntaxa)])
                        for _ in range(nsel)],
                "pat": canon.enc([rng.choice([Fraction(1, 4), Fraction(1, 8), Fraction(1, 16), Fraction(1, 2)])
                                  for _ in range(rng.choice([3, 5, 7]))]),
                "hits": hits(), "homo_mod": rng.choice([0, 0, 3])}
        if dense:
            # mean crossover probability well below 1 %: tiny dyadic probabilities, 1/2 every `chrlen` markers
            case["pat"] = canon.enc([rng.choice([Fraction(1, 2 ** 8), Fraction(1, 2 ** 9), Fraction(1, 2 ** 10)])
                                     for _ in range(3)])
            case["chrlen"] = rng.choice([25, 40, 64])
            case["homo_mod"] = 0
            # a hit AT a later chromosome start in gamete 1 (a start that never switches the copy shows up)
            if nsel > 1 and m > case["chrlen"]:
                case["hits"][1] = sorted(set(case["hits"][1]) | {case["chrlen"]})
        if fn == "mate":
            case["mhits"] = hits()
            case["msel"] = [rng.randrange(ntaxa) for _ in range(nsel)]
        return case

    def _gen_protocol(self, rng):
        p = rng.choice(PROTOS)
        np_ = NPARENT[p]
        ntaxa = rng.choice([np_, np_ + 1, 6]) if np_ > 1 else rng.choice([1, 2, 4])
        ntaxa = max(ntaxa, np_)
        ncross = rng.choice([1, 1, 2, 3])
        # distinct parents inside a cross (so that the source of every cell is observable)
        xconfig = [rng.sample(range(ntaxa), np_) for _ in range(ncross)]
        scalar = rng.random() < 0.4
        nmating = rng.choice([1, 2]) if scalar else [rng.choice([1, 2, 3]) for _ in range(ncross)]
        nprogeny = rng.choice([1, 2, 4]) if scalar else [rng.choice([1, 2, 3]) for _ in range(ncross)]
        m = rng.choice([2, 3, 5, 8])
        xo = _xo_vector(rng, m)
        if not scalar and ncross >= 2 and rng.random() < 0.15:
            (nmating if rng.random() < 0.5 else nprogeny)[rng.randrange(ncross)] = 0     # a cross without progeny
        if rng.random() < 0.15:
            xconfig = [[t - ntaxa if rng.random() < 0.5 else t for t in row] for row in xconfig]   # numpy indices
        case = {"kind": "protocol", "proto": p, "gen": rng.choice(["Generator", "RandomState"]),
                "seed": rng.randrange(1 << 30), "ntaxa": ntaxa, "xconfig": xconfig, "nmating": nmating,
                "nprogeny": nprogeny, "nself": rng.choice([0, 0, 1, 1, 2, 3]), "xoprob": canon.enc(xo)}
        if rng.random() < 0.3:
            case["homo"] = _gen_homo(rng, ntaxa, m)
        if m >= 3 and rng.random() < 0.4:
            # several chromosomes (single-marker ones included); the stored probability at a chromosome start is
            # 1/2 (as a map would assign it) or any other value (assigned by hand): the protocol must use what is stored
            cuts = sorted(rng.sample(range(1, m), rng.choice([1, 1, 2]) if m > 3 else 1))
            lab, chr_ = 1, []
            for j in range(m):
                if j in cuts:
                    lab += rng.choice([1, 1, 3])
                chr_.append(lab)
            case["chr"] = chr_
            xo = [Fraction(v) for v in canon.dec(case["xoprob"])]
            for j in cuts:
                if rng.random() < 0.5:
                    xo[j] = Fraction(1, 2)
            case["xoprob"] = canon.enc(xo)
        if rng.random() < 0.15:
            case["forder"] = True                   # the genotype array handed to the matrix is Fortran-ordered
        nm_a = [nmating] * ncross if isinstance(nmating, int) else nmating
        np_a = [nprogeny] * ncross if isinstance(nprogeny, int) else nprogeny
        ntot = sum(a * b for a, b in zip(nm_a, np_a))
        if rng.random() < 0.2:
            case["ncall"] = 2
            c3 = rng.random()
            if c3 < 0.2 and ntot >= np_:
                # a second breeding cycle on the same protocol object: the progeny of the first call are mated
                case["chain"] = [rng.sample(range(ntot), np_) for _ in range(rng.choice([1, 2]))]
            elif c3 < 0.75:
                case["xoprob2"] = canon.enc(_xo_vector(rng, m))
                case["edit_mode"] = rng.choice(["assign", "inplace", "newobj"])
        elif rng.random() < 0.35:
            # scripted draws through the whole protocol: ties, one ulp either side, tolerance-range values,
            # probabilities of 2^-27 .. 1/2 +- 2^-30
            xo = _xo_vector(rng, m, "tiny")
            case["xoprob"] = canon.enc(xo)
            nm_a = [nmating] * ncross if isinstance(nmating, int) else nmating
            np_a = [nprogeny] * ncross if isinstance(nprogeny, int) else nprogeny
            M, N = sum(nm_a), sum(a * b for a, b in zip(nm_a, np_a))
            case["gen"] = "Scripted"
            case["rnd"] = [canon.enc([[_draw(rng, x) for x in xo] for _ in range(rows)])
                           for rows in _proto_rows(p, M, N, case["nself"])]
            del case["seed"]
        return case

    def _gen_embv(self, rng):
        ntaxa = rng.choice([1, 2, 3, 4])
        m = rng.choice([2, 3, 5, 8])
        scalar = rng.random() < 0.4
        case = {"kind": "embv", "gen": rng.choice(["Generator", "RandomState"]), "seed": rng.randrange(1 << 30),
                "ntaxa": ntaxa, "xoprob": canon.enc(_xo_vector(rng, m)),
                "nprogeny": rng.choice([1, 2, 4]) if scalar else [rng.choice([1, 2, 3, 5]) for _ in range(ntaxa)],
                "nrep": rng.choice([1, 2]) if scalar else [rng.choice([1, 2, 3]) for _ in range(ntaxa)]}
        if rng.random() < 0.5:
            case["homo"] = _gen_homo(rng, ntaxa, m)
        if rng.random() < 0.5:
            case["ua"] = self._gen_ua(rng, m)
        return case

    @staticmethod
    def _gen_ua(rng, m):
        """marker effects (m, ntrait) of an additive model with neutral markers (all-zero rows): sparse QTL model"""
        nt = rng.choice([1, 1, 2])
        ua = [[0] * nt for _ in range(m)]
        qtl = sorted(rng.sample(range(m), rng.choice([1, 2, 2, 3]) if m > 3 else rng.randrange(0, m + 1)))
        for j in qtl:
            ua[j][rng.randrange(nt)] = rng.choice([1, -1, 2, -3])
        return ua

    def _gen_xoprob(self, rng):
        nchr = rng.choice([1, 2, 3, 5, 5, 3, 2, 40, 300] if rng.random() < 0.25 else [1, 2, 3, 5])
        via = rng.choice(["rprob1g", "rprob1g", "extended", "interp", "rprob1p", "interp-ext", "interp-gmat"])
        spline = via not in ("rprob1g", "extended")        # these build an interpolation spline on the knots
        labels = rng.sample(range(1, 30 if nchr < 20 else 500), nchr)
        if spline or rng.random() < 0.5:
            labels.sort()                                   # otherwise: grouped but not sorted
        # a large common offset of the map positions (kept moderate where positions pass through a spline)
        base = rng.choice([0, 0, 100]) if spline else rng.choice([0, 0, 0, 1000, 25000])
        steps = [1, 2, 4, 8, 16, 24] if spline else [0, 1, 2, 4, 8, 16, 24]
        chr_, pos = [], []
        for c in labels:
            k = rng.choice([2, 3, 4]) if spline else rng.choice([1, 1, 2, 3, 5])
            g = base + Fraction(rng.randrange(0, 8), 16)
            for _ in range(k):
                chr_.append(c)
                pos.append(g)
                # a spline needs strictly increasing knots
                c2 = rng.random()
                if c2 < 0.15:
                    g += Fraction(1, 2 ** 20) if spline else rng.choice([Fraction(1, 2 ** 27), Fraction(1, 2 ** 20)])
                elif c2 < 0.19:
                    g += rng.choice([40, 200, 2000])        # a gap of many Morgans: the map function saturates at 1/2
                else:
                    g += Fraction(rng.choice(steps), 32)
        case = {"kind": "xoprob", "fn": rng.choice(["haldane", "haldane", "kosambi"]), "via": via,
                "chr": chr_, "pos": canon.enc(pos)}
        if via.startswith("interp") and rng.random() < 0.5:
            perm = list(range(len(chr_)))
            rng.shuffle(perm)
            case["perm"] = perm                             # markers presented in this order; group_vrnt sorts
        if via == "interp" and rng.random() < 0.1:
            case["ungrouped"] = True                        # interp_xoprob must reject a matrix that is not grouped
        elif via in ("rprob1g", "extended", "rprob1p") and len(chr_) >= 3 and rng.random() < 0.25:
            # the optional array window of gdist1g / gdist1p: distances of markers [ast, asp) only
            ast = rng.randrange(0, len(chr_) - 1)
            asp = rng.randrange(ast + 1, len(chr_) + 1)
            case["slice"] = [rng.choice([ast, ast, None]) if ast == 0 else ast, rng.choice([asp, asp, None]) if
                             asp == len(chr_) else asp]
        elif rng.random() < 0.3:
            case["prime"] = True                            # the same objects were queried / filled before
            if via.startswith("interp") and rng.random() < 0.5:
                case["prime"] = "fn"                        # ... on the same map with the other map function
        return case

    # ------------------------------------------------------------------ implementation
    @staticmethod
    def _k(case):
        return {"statistical-support": "stat"}.get(case["kind"], case["kind"])

    # Self-test economy: while an in-memory mutant is active, a case the mutant cannot reach (another source
    # twin, another protocol, the map side for a meiosis mutant, ...) is not re-run; its verdict on the unmutated
    # code is returned instead.  This can only lose kills, never create one.
    _scope = None
    _verdicts = {}

    @staticmethod
    def _ckey(case):
        return json.dumps({k: v for k, v in case.items() if not k.startswith("_")}, sort_keys=True, default=str)

    # Second economy: the statistical cases are the expensive ones.  While a mutant is active they are only run as
    # long as no deterministic case (scripted / big / protocol / embv / xoprob: fixed inputs, fixed draws) has
    # produced an observation that differs from the one recorded on the unmutated code — such a case already fails
    # its exact comparison with the model.  Again this can only lose kills.
    _obs_digest = {}
    _scope_hit = False

    @staticmethod
    def _digest(obs):
        import hashlib
        return hashlib.md5(json.dumps(obs, sort_keys=True, default=str).encode()).hexdigest()

    def run_impl(self, case):
        k = self._k(case)
        if self._scope is not None:
            key = self._ckey(case)
            if key in self._verdicts and (not self._scope(case) or (k == "stat" and self._scope_hit)):
                return {"__unreached__": key}
            obs = getattr(self, "_impl_" + k)(case)
            if k != "stat" and self._obs_digest.get(key) not in (None, self._digest(obs)):
                self._scope_hit = True
            return obs
        obs = getattr(self, "_impl_" + k)(case)
        if k != "stat":
            if len(self._obs_digest) > 20000:
                self._obs_digest.clear()
            self._obs_digest[self._ckey(case)] = self._digest(obs)
        return obs

    @contextlib.contextmanager
    def _scoped(self, pred, ctx):
        self._scope = pred
        self._scope_hit = False
        try:
            with ctx:
                yield
        finally:
            self._scope = None
            self._scope_hit = False

    @staticmethod
    def _fn(impl, fn):
        mutil, cmate = _mods()[:2]
        if impl == "mat":
            return {"meiosis": mutil.mat_meiosis, "dh": mutil.mat_dh, "mate": mutil.mat_mate}[fn]
        return {"meiosis": cmate.dense_meiosis, "dh": cmate.dense_dh, "mate": cmate.dense_cross}[fn]

    @staticmethod
    def _mk_geno(g3, m, form):
        """the genotype array in the memory layout / dtype the case asks for"""
        ntaxa = len(g3[0])
        a = numpy.array(g3, dtype=form.get("gdtype", "int8")).reshape(2, ntaxa, m)
        order = form.get("order", "C")
        if order == "F":
            a = numpy.asfortranarray(a)
        elif order == "strided":              # every second taxon of a larger array
            big = numpy.full((2, 2 * ntaxa + 1, m), 99, dtype=a.dtype)
            big[:, 1::2, :] = a
            a = big[:, 1::2, :]
        elif order == "strided_m":            # every second marker of a larger array
            big = numpy.full((2, ntaxa, 2 * m), 99, dtype=a.dtype)
            big[:, :, ::2] = a
            a = big[:, :, ::2]
        return a

    @staticmethod
    def _mk_xo(xo, form):
        a = numpy.array([_f(v) for v in xo], dtype=float)
        kind = form.get("xo", "contig")
        if kind == "strided":
            big = numpy.full(2 * len(a), 0.75)
            big[::2] = a
            a = big[::2]
        elif kind == "float32":
            a = a.astype("float32")
        return a

    def _impl_scripted(self, case):
        f = self._fn(case["impl"], case["fn"])
        m = len(case["xoprob"])
        form = case.get("form", {})
        dden = case.get("dden", 1)
        geno = self._mk_geno(case["geno"], m, form)
        sel = numpy.array(case["sel"], dtype=form.get("sel", "int64"))
        xo = self._mk_xo(case["xoprob"], form)
        nflat = sum(len(row) for mtx in case["rnd"] for row in mtx)
        if case["gen"].startswith("MT19937") and nflat <= MT_MAX_DOUBLES and dden == 1:
            # a genuine numpy generator whose crafted state emits exactly the scripted values
            flat = [Fraction(v) for mtx in case["rnd"] for row in mtx for v in row]
            g = (CraftedGenerator if case["gen"] == "MT19937-Generator" else CraftedRandomState)(flat)
        else:
            flat = None
            g = (ScriptedRandomState if case["gen"].endswith("RandomState") else ScriptedGenerator)(case["rnd"], dden)
        mgeno = msel = None
        if case["fn"] == "mate":
            mgeno = self._mk_geno(case["mgeno"], m, form)
            msel = numpy.array(case["msel"], dtype=form.get("sel", "int64"))
        snap = [x.copy() for x in (geno, sel, xo) + ((mgeno, msel) if mgeno is not None else ())]
        outs = []
        edit = case.get("edit")
        try:
            for c in range(case.get("repeat", 1)):
                if edit and c == 1:
                    # after the first call the SAME array objects are edited in place (a cache keyed by the
                    # identity of its arguments goes stale here)
                    if "xoprob" in edit:
                        xo[:] = numpy.array([_f(v) for v in edit["xoprob"]], dtype=xo.dtype)
                    if "geno" in edit:
                        geno[:] = numpy.array(edit["geno"], dtype=geno.dtype).reshape(geno.shape)
                    snap = [x.copy() for x in (geno, sel, xo) + ((mgeno, msel) if mgeno is not None else ())]
                if case["fn"] == "mate":
                    out = f(geno, mgeno, sel, msel, xo, g)
                else:
                    out = f(geno, sel, xo, g)
                outs.append(numpy.array(out, copy=True))      # a later call must not be able to alter it
        except IndexError as e:
            if not case.get("reject"):
                raise
            return {"rejected": canon.exc_tag(e), "calls": g.log}
        now = (geno, sel, xo) + ((mgeno, msel) if mgeno is not None else ())
        obs = {"out": canon.enc(outs[0]), "outs": [canon.enc(o) for o in outs], "shape": list(outs[0].shape),
               "calls": g.log,
               "inputs_untouched": all(a.shape == b.shape and bool((a == b).all()) for a, b in zip(snap, now))}
        if hasattr(g, "served_ok"):
            # every request was a whole scripted matrix or a consecutive block of its rows / columns, and every
            # scripted value was fetched
            obs["served_in_blocks"] = bool(g.served_ok and not g.script and g.cur is None)
        if hasattr(g, "draws"):
            got = [Fraction(float(v)) for d in g.draws for v in numpy.ravel(d)]
            # the crafted state emits exactly the scripted values, in order, when the code draws what the model
            # says it draws (one matrix per meiosis); otherwise the call pattern differs: reported through `calls`
            obs["genuine_generator"] = True
            obs["drew_scripted_values"] = got == flat[:len(got)]
        return obs

    # compact description of a large scripted case -> the scripted case itself
    _big_cache = {}

    def _expand_big(self, case):
        key = json.dumps(case, sort_keys=True)
        hit = self._big_cache.get(key)
        if hit is not None:
            return hit
        m, ntaxa = case["m"], case["ntaxa"]
        pat = [Fraction(v) for v in canon.dec(case["pat"])]
        xo = [pat[j % len(pat)] for j in range(m)]
        if m:
            xo[0] = Fraction(1, 2)
        if case.get("chrlen"):
            for j in range(0, m, case["chrlen"]):
                xo[j] = Fraction(1, 2)           # a dense panel: 1/2 only at the chromosome starts
        hm = case.get("homo_mod", 0)
        homo = [[j for j in range(m) if j % hm != 0] for _ in range(ntaxa)] if hm else None

        def draws(rows):
            out = []
            for h in rows:
                r = [15] * m                    # 15/16: above every stored probability
                for j in h:
                    r[j] = 0                    # 0 < xo[j]: a crossover
                out.append(r)
            return out
        sc = {"kind": "scripted", "impl": case["impl"], "fn": case["fn"], "gen": case["gen"],
              "geno": _geno(ntaxa, m, 0, homo), "sel": case["sel"], "xoprob": canon.enc(xo),
              "rnd": [draws(case["hits"])], "dden": 16}
        if case["fn"] == "mate":
            sc["mgeno"] = _geno(ntaxa, m, 64, homo)
            sc["msel"] = case["msel"]
            sc["rnd"].append(draws(case["mhits"]))
        if len(self._big_cache) > 64:
            self._big_cache.clear()
        self._big_cache[key] = sc
        return sc

    def _impl_big(self, case):
        return self._impl_scripted(self._expand_big(case))

    def _pgmat(self, ntaxa, xo, chr_=None, pos=None, homo=None, m=None, forder=False):
        dpgm = _mods()[5]
        m = len(xo) if xo is not None else m
        geno = numpy.array(_geno(ntaxa, m, 0, homo), dtype="int8").reshape(2, ntaxa, m)
        if forder:
            geno = numpy.asfortranarray(geno)
        pg = dpgm.DensePhasedGenotypeMatrix(
            geno, taxa=numpy.array(["t%02d" % i for i in range(ntaxa)], dtype=object),
            taxa_grp=numpy.arange(ntaxa),
            vrnt_chrgrp=numpy.array(chr_ if chr_ is not None else [1] * m, dtype=int),
            vrnt_phypos=numpy.arange(1, m + 1),
            vrnt_xoprob=numpy.array(xo, dtype=float) if xo is not None else None)
        pg.group_vrnt()
        return pg

    @staticmethod
    def _labels(proto, xconfig_rows, mat):
        """observed copy in use in the LAST meiosis, per chromosome copy of the progeny.
        xconfig_rows: (nprogeny_total, nparent) parents of each progeny.  Returns
        ([label matrices], observable)"""
        labs, ok = [], True
        par = numpy.asarray(xconfig_rows)
        if proto in ("SelfCross", "TwoWayCross"):
            for c in range(2):
                t, p = _decode(mat[c])
                src = par[:, 0 if proto == "SelfCross" else c][:, None]
                ok = ok and bool((t == src).all())
                labs.append(p.astype(bool))
        elif proto == "ThreeWayCross":
            t, p = _decode(mat[0])
            ok = ok and bool((t == par[:, 0][:, None]).all())
            labs.append(p.astype(bool))
            t, p = _decode(mat[1])
            ok = ok and bool(((t == par[:, 1][:, None]) | (t == par[:, 2][:, None])).all())
            labs.append(t == par[:, 2][:, None])
        elif proto == "FourWayCross":
            t, p = _decode(mat[0])       # gamete of the (f1 x m1) hybrid = xconfig columns 2, 3
            ok = ok and bool(((t == par[:, 2][:, None]) | (t == par[:, 3][:, None])).all())
            labs.append(t == par[:, 3][:, None])
            t, p = _decode(mat[1])       # gamete of the (f2 x m2) hybrid = xconfig columns 0, 1
            ok = ok and bool(((t == par[:, 0][:, None]) | (t == par[:, 1][:, None])).all())
            labs.append(t == par[:, 1][:, None])
        else:
            ok = ok and bool((mat[0] == mat[1]).all())
            t, p = _decode(mat[0])
            if proto == "TwoWayDHCross":
                first = (t == par[:, 0][:, None])
                second = (t == par[:, 1][:, None])
            elif proto == "ThreeWayDHCross":
                first = (t == par[:, 0][:, None])
                second = (t == par[:, 1][:, None]) | (t == par[:, 2][:, None])
            else:
                first = (t == par[:, 2][:, None]) | (t == par[:, 3][:, None])
                second = (t == par[:, 0][:, None]) | (t == par[:, 1][:, None])
            ok = ok and bool((first ^ second).all())
            labs.append(second)
        return labs, ok

    @staticmethod
    def _labels_self1(proto, xconfig_rows, mat):
        """after ONE selfing generation of a two-/three-/four-way hybrid: which copy of the hybrid each cell of
        the selfed progeny was read from (the hybrid's copy 0 and copy 1 descend from disjoint founders).
        Both chromosome copies of a progeny are gametes of the same hybrid under different draws."""
        par = numpy.asarray(xconfig_rows)
        labs, ok = [], True
        for c in range(2):
            t, _ = _decode(mat[c])
            if proto == "TwoWayCross":
                zero = (t == par[:, 0][:, None])
                one = (t == par[:, 1][:, None])
            elif proto == "ThreeWayCross":
                zero = (t == par[:, 0][:, None])
                one = (t == par[:, 1][:, None]) | (t == par[:, 2][:, None])
            else:
                zero = (t == par[:, 2][:, None]) | (t == par[:, 3][:, None])
                one = (t == par[:, 0][:, None]) | (t == par[:, 1][:, None])
            ok = ok and bool((zero ^ one).all())
            labs.append(one)
        return labs, ok

    def _run_proto(self, proto, gen, seed, ntaxa, xconfig, nmating, nprogeny, nself, xo, chr_=None, homo=None,
                   ncall=1, xo2=None, edit_mode="assign", pipe=None, chain=None, forder=False, disturb=None):
        """-> ([progeny matrix per call], recorder, parents of each progeny row, M, N, [draw-matrix count per call])"""
        mutil, cmate, sgm, hal, kos, dpgm, protos = _mods()
        if gen == "Scripted":
            g = ScriptedGenerator(seed)              # `seed` carries the scripted draw matrices
            g.draws = g.handed
        else:
            g = (RecGenerator if gen == "Generator" else RecRandomState)(seed)
        if pipe is not None:
            # crossover probabilities are NOT handed over: the matrix gets them from a genetic map through
            # interp_xoprob, exactly as a user of the library would
            fn, chr_p, pos_p, via = pipe
            pg = self._pgmat(ntaxa, None, chr_p, homo=homo, m=len(chr_p))
            chr_a = numpy.array(chr_p, dtype=int)
            phy = numpy.arange(1, len(chr_p) + 1)
            gen_a = numpy.array([_f(v) for v in pos_p], dtype=float)
            if via == "extended":
                import pybrops.popgen.gmap.ExtendedGeneticMap as egm
                gmap = egm.ExtendedGeneticMap(chr_a, phy, phy + 1, gen_a)
            else:
                gmap = sgm.StandardGeneticMap(chr_a, phy, gen_a)
            pg.interp_xoprob(gmap, (hal.HaldaneMapFunction if fn == "haldane" else kos.KosambiMapFunction)())
            if disturb is not None:
                # a breeding cycle before the one that is observed: progeny are produced from the population (own
                # protocol object, own generator) and THEY are put on another, stretched map with the other map function
                q = protos[disturb](rng=numpy.random.default_rng(12345)).mate(
                    pg, numpy.array([list(range(NPARENT[disturb]))], dtype=int), 1, 2, nself=0)
                gmap2 = type(gmap)(chr_a, phy, *([phy + 1] if via == "extended" else []), gen_a * 4.0 + 0.125)
                q.interp_xoprob(gmap2, (kos.KosambiMapFunction if fn == "haldane" else hal.HaldaneMapFunction)())
        else:
            pg = self._pgmat(ntaxa, xo, chr_, homo=homo, forder=forder)
        xc = numpy.array(xconfig, dtype=int).reshape(len(xconfig), NPARENT[proto])
        nm = nmating if isinstance(nmating, int) else numpy.array(nmating, dtype=int)
        npg = nprogeny if isinstance(nprogeny, int) else numpy.array(nprogeny, dtype=int)
        prot = protos[proto](rng=g)
        outs, ndraws = [], []
        for c in range(ncall):
            before = len(g.draws)
            if c == 1 and xo2 is not None:
                # the crossover probabilities change between the two calls: in the SAME matrix object (edited in
                # place or re-assigned), or because ANOTHER matrix object with the same marker count is mated
                if edit_mode == "inplace":
                    pg.vrnt_xoprob[:] = numpy.array(xo2, dtype=float)
                elif edit_mode == "newobj":
                    pg = self._pgmat(ntaxa, xo2, chr_, homo=homo)
                else:
                    pg.vrnt_xoprob = numpy.array(xo2, dtype=float)
            if c == 1 and chain is not None:
                # next breeding cycle: the progeny of the first call are the parents of the second
                nxt = outs[0]
                xc2 = numpy.array(chain, dtype=int).reshape(len(chain), NPARENT[proto])
                outs.append(prot.mate(nxt, xc2, 1, 2, nself=nself))
            else:
                outs.append(prot.mate(pg, xc, nm, npg, nself=nself))
            ndraws.append(len(g.draws) - before)
        nm_a = numpy.repeat(nm, len(xc)) if isinstance(nm, int) else nm
        np_a = numpy.repeat(npg, len(xc)) if isinstance(npg, int) else npg
        rows = numpy.repeat(xc % ntaxa, nm_a * np_a, axis=0)      # numpy index semantics: -k means ntaxa - k
        return outs, g, rows, int(nm_a.sum()), int((nm_a * np_a).sum()), ndraws

    @staticmethod
    def _draw_ints(d):
        """a recorded draw matrix as integer numerators over 2^53 (exact: numpy's doubles in [0,1) are k/2^53)"""
        return [[int(Fraction(float(v)) * (1 << 53)) for v in row] for row in numpy.asarray(d)]

    def _impl_protocol(self, case):
        xo = [_f(v) for v in case["xoprob"]]
        ncall = case.get("ncall", 1)
        outs, g, rows, M, N, ndraws = self._run_proto(case["proto"], case["gen"],
                                                      case["rnd"] if case["gen"] == "Scripted" else case["seed"],
                                                      case["ntaxa"],
                                                      case["xconfig"], case["nmating"], case["nprogeny"],
                                                      case["nself"], xo, chr_=case.get("chr"), homo=case.get("homo"),
                                                      ncall=ncall,
                                                      xo2=[_f(v) for v in case["xoprob2"]] if "xoprob2" in case else None,
                                                      edit_mode=case.get("edit_mode", "assign"),
                                                      chain=case.get("chain"), forder=bool(case.get("forder")))
        obs = {"calls": g.log, "M": M, "N": N, "shape": list(outs[0].mat.shape), "ndraws": ndraws,
               "mats": [canon.enc(o.mat) for o in outs],
               "draws": [self._draw_ints(d) for d in g.draws],
               "exact_grid": all(bool((numpy.asarray(d) * float(1 << 53) % 1.0 == 0).all()) for d in g.draws)}
        if case.get("chain"):
            # what the progeny matrix of the first cycle stores is what the second cycle must follow
            xs = outs[0].vrnt_xoprob
            obs["xo_stored"] = None if xs is None else canon.enc(numpy.asarray(xs, dtype=float))
        if case["nself"] == 0 and not case.get("homo"):
            labs, ok = self._labels(case["proto"], rows, outs[0].mat)
            obs["labels"] = [canon.enc(l) for l in labs]
            obs["observable"] = ok
            first = g.draws[:ndraws[0]]
            obs["rnd"] = [self._draw_ints(d) for d in first[-len(labs):]]
        return obs

    @staticmethod
    def _gmod(m, ua, sink):
        """additive linear genomic model with marker effects `ua` (default: effect 1 at every marker) that records the
        progeny matrices from_gmod hands to gebv (the only place where its doubled haploids become visible)"""
        embv, dalgm = _embv_mods()
        u = numpy.ones((m, 1)) if ua is None else numpy.array([[_f(v) for v in row] for row in ua], dtype=float).reshape(m, -1)
        nt = u.shape[1]

        class Rec(dalgm.DenseAdditiveLinearGenomicModel):
            def gebv(self, gtobj, **kwargs):
                sink.append(numpy.array(gtobj.mat, copy=True))
                return super().gebv(gtobj, **kwargs)
        return Rec(beta=numpy.ones((1, nt)), u_misc=None, u_a=u,
                   trait=numpy.array(["y%d" % i for i in range(nt)], dtype=object))

    def _impl_embv(self, case):
        embv, dalgm = _embv_mods()
        xo = [_f(v) for v in case["xoprob"]]
        m, nt = len(xo), case["ntaxa"]
        pg = self._pgmat(nt, xo, homo=case.get("homo"))
        seen = []
        gm = self._gmod(m, case.get("ua"), seen)
        g = (RecGenerator if case["gen"] == "Generator" else RecRandomState)(case["seed"])
        captured = []
        orig_dh, orig_rng = embv.dense_dh, embv.global_prng

        def rec(geno, sel, xoprob, rng, *a, **k):
            out = orig_dh(geno, sel, xoprob, rng, *a, **k)
            captured.append((numpy.array(sel).copy(), None))
            return out
        embv.dense_dh, embv.global_prng = rec, g
        try:
            as_arg = lambda v: v if isinstance(v, int) else numpy.array(v, dtype=int)
            res = embv.DenseExpectedMaximumBreedingValueMatrix.from_gmod(gm, pg, as_arg(case["nprogeny"]),
                                                                       as_arg(case["nrep"]))
        finally:
            embv.dense_dh, embv.global_prng = orig_dh, orig_rng
        # the doubled haploids are read where they leave the loop: the progeny matrix handed to gmod.gebv (all markers)
        doubled = all(out.ndim == 3 and out.shape[0] == 2 and bool((out[0] == out[1]).all()) for out in seen)
        return {"calls": g.log, "draws": [self._draw_ints(d) for d in g.draws],
                "observable": bool(doubled and len(seen) == len(g.draws)), "doubled": bool(doubled),
                "sels": [s_.tolist() for s_, _ in captured], "dh": [canon.enc(out) for out in seen],
                "shape": list(res.mat.shape)}

    def _map_xoprob(self, fn, via, chr_, pos, perm=None, ungrouped=False, prime=False, slice_=None):
        mutil, cmate, sgm, hal, kos, dpgm, protos = _mods()
        chr_a = numpy.array(chr_, dtype=int)
        gen = numpy.array([_f(v) for v in pos], dtype=float)
        phy = numpy.arange(1, len(chr_) + 1) * 10
        mf = (hal.HaldaneMapFunction if fn == "haldane" else kos.KosambiMapFunction)()
        other = (kos.KosambiMapFunction if fn == "haldane" else hal.HaldaneMapFunction)()
        if via in ("extended", "interp-ext"):
            import pybrops.popgen.gmap.ExtendedGeneticMap as egm
            gmap = egm.ExtendedGeneticMap(chr_a, phy, phy + 1, gen)
        else:
            gmap = sgm.StandardGeneticMap(chr_a, phy, gen)
        if slice_ is not None:
            ast, asp = slice_
            d = (gmap.gdist1p(chr_a, phy, ast, asp) if via == "rprob1p" else gmap.gdist1g(chr_a, gen, ast, asp))
            return mf.mapfn(d), gen
        if via in ("rprob1g", "extended"):
            if prime:
                # an earlier query of the same objects with other positions of the same shape, then an in-place
                # edit of the queried array back to the real positions
                q = gen * 0.5 + 0.125
                mf.rprob1g(gmap, chr_a, q)
                q[:] = gen
                return mf.rprob1g(gmap, chr_a, q), gen
            return mf.rprob1g(gmap, chr_a, gen), gen
        if via == "rprob1p":
            if prime:
                mf.rprob1p(gmap, chr_a[::-1].copy(), phy[::-1].copy())
            return mf.rprob1p(gmap, chr_a, phy), gen
        ix = numpy.array(perm if perm is not None else range(len(chr_)), dtype=int)
        if via == "interp-gmat":
            import pybrops.popgen.gmat.DenseGenotypeMatrix as dgm
            pg = dgm.DenseGenotypeMatrix(numpy.zeros((1, len(chr_)), dtype="int8"),
                                         vrnt_chrgrp=chr_a[ix], vrnt_phypos=phy[ix])
        else:
            pg = dpgm.DensePhasedGenotypeMatrix(numpy.zeros((2, 1, len(chr_)), dtype="int8"),
                                                vrnt_chrgrp=chr_a[ix], vrnt_phypos=phy[ix])
        if not ungrouped:
            pg.group_vrnt()
        if prime:
            # the matrix already carries crossover probabilities from ANOTHER map function and a stretched map
            gmap2 = type(gmap)(chr_a, phy, *( [phy + 1] if via == "interp-ext" else []), gen * 2.0 + 0.25)
            # (prime == "fn": the SAME map first with the other map function: positions stay, probabilities must not)
            pg.interp_xoprob(gmap if prime == "fn" else gmap2, other)
        pg.interp_xoprob(gmap, mf)
        return pg.vrnt_xoprob, pg.vrnt_genpos

    def _impl_xoprob(self, case):
        try:
            xo, gp = self._map_xoprob(case["fn"], case["via"], case["chr"], case["pos"], case.get("perm"),
                                      case.get("ungrouped", False), case.get("prime", False), case.get("slice"))
        except ValueError as e:
            if not case.get("ungrouped"):
                raise
            return {"rejected": canon.exc_tag(e)}
        return {"xoprob": canon.enc(xo), "genpos": canon.enc(gp)}

    def _impl_shared(self, case):
        """parent <- map 1; child derived from the parent (shares its vrnt arrays); ONE of them <- map 2 (and possibly
        once more); what both objects store afterwards"""
        mutil, cmate, sgm, hal, kos, dpgm, protos = _mods()
        chr_ = case["chr"]
        m = len(chr_)
        chr_a = numpy.array(chr_, dtype=int)
        phy = numpy.arange(1, m + 1)

        def gmap(via, pos):
            gen_a = numpy.array([_f(v) for v in pos], dtype=float)
            if via == "extended":
                import pybrops.popgen.gmap.ExtendedGeneticMap as egm
                return egm.ExtendedGeneticMap(chr_a.copy(), phy.copy(), phy + 1, gen_a)
            return sgm.StandardGeneticMap(chr_a.copy(), phy.copy(), gen_a)

        def mapfn(fn):
            return (hal.HaldaneMapFunction if fn == "haldane" else kos.KosambiMapFunction)()
        parent = self._pgmat(4, None, chr_, m=m)
        parent.interp_xoprob(gmap(case["via1"], case["pos1"]), mapfn(case["fn1"]))
        share = case["share"]
        if share.startswith("mate:"):
            pn = share[5:]
            prot = protos[pn](rng=numpy.random.default_rng(case["seed"]))
            child = prot.mate(parent, numpy.array([list(range(NPARENT[pn]))], dtype=int), 1, 2, nself=0)
        elif share == "select_taxa":
            child = parent.select_taxa([2, 0])
        else:
            # a matrix constructed on the arrays of the parent (grouping metadata taken over as well)
            child = dpgm.DensePhasedGenotypeMatrix(parent.mat.copy(), vrnt_chrgrp=parent.vrnt_chrgrp,
                                                   vrnt_phypos=parent.vrnt_phypos, vrnt_genpos=parent.vrnt_genpos,
                                                   vrnt_xoprob=parent.vrnt_xoprob)
            child.vrnt_chrgrp_name, child.vrnt_chrgrp_stix = parent.vrnt_chrgrp_name, parent.vrnt_chrgrp_stix
            child.vrnt_chrgrp_spix, child.vrnt_chrgrp_len = parent.vrnt_chrgrp_spix, parent.vrnt_chrgrp_len
        objs = {"parent": parent, "child": child}
        aliased = bool(numpy.shares_memory(parent.vrnt_xoprob, child.vrnt_xoprob))
        before = {k: (numpy.array(o.vrnt_xoprob, dtype=float, copy=True), numpy.array(o.vrnt_genpos, dtype=float, copy=True))
                  for k, o in objs.items()}
        tgt = objs[case["target"]]
        tgt.interp_xoprob(gmap(case["via2"], case["pos2"]), mapfn(case["fn2"]))
        if "again" in case:
            tgt.interp_xoprob(gmap(case["via1"], case[case["again"]["pos"]]), mapfn(case["again"]["fn"]))
        obs = {"aliased_before": aliased}
        for k, o in objs.items():
            obs[k] = {"xoprob": canon.enc(numpy.asarray(o.vrnt_xoprob, dtype=float)),
                      "genpos": canon.enc(numpy.asarray(o.vrnt_genpos, dtype=float)),
                      "xoprob_before": canon.enc(before[k][0]), "genpos_before": canon.enc(before[k][1])}
        return obs

    @staticmethod
    def _shared_last(case):
        """object -> (map function, positions) of the interpolation it saw last"""
        first = (case["fn1"], case["pos1"])
        last = (case["again"]["fn"], case[case["again"]["pos"]]) if "again" in case else (case["fn2"], case["pos2"])
        return {"parent": last if case["target"] == "parent" else first,
                "child": last if case["target"] == "child" else first}

    def _judge_shared(self, case, obs, ans):
        last = self._shared_last(case)
        other = "parent" if case["target"] == "child" else "child"
        corr, spec, why, k = True, True, [], 0
        for name in ("parent", "child"):
            fn, pos = last[name]
            o = obs[name]
            # the Spec of the single-object case on what THIS object stores: map function of the distances between its
            # own stored genetic positions, 1/2 at its chromosome starts
            v = self._judge_xoprob({"kind": "xoprob", "fn": fn, "via": "interp", "chr": case["chr"], "pos": o["genpos"]},
                                   {"xoprob": o["xoprob"], "genpos": o["genpos"]}, ans[k:k + 2])
            k += 2
            gp_ok = canon.close_enc(o["genpos"], pos, rel=1e-12, abs_=1e-12)
            corr = corr and v["corr"] and gp_ok
            if not v["spec"]:
                spec = False
                why.append(f"{name} (map function {fn}, stored positions {o['genpos']}): " + v["detail"].split("] ", 1)[-1][-300:])
        hist = ans[k]
        # the model of the history (array references): the object that was not touched reads the arrays of the first
        # interpolation, the other one those of its last
        nlast = 2 if "again" in case else 1
        corr = corr and hist[other] == {"gp_from": 0, "xo_from": 0} and \
            hist[case["target"]] == {"gp_from": nlast, "xo_from": nlast}
        untouched = obs[other]["xoprob"] == obs[other]["xoprob_before"] and \
            obs[other]["genpos"] == obs[other]["genpos_before"]
        if not untouched:
            corr = False
        f1 = [Fraction(v) for v in canon.dec(obs[case["target"]]["xoprob_before"])]
        f2 = [Fraction(v) for v in canon.dec(obs[case["target"]]["xoprob"])]
        return {"corr": bool(corr), "spec": bool(spec), "nontrivial": bool(obs["aliased_before"] and f1 != f2),
                "detail": f"shared[{case['share']}, {case['target']} re-interpolated "
                          f"{case['fn1']}/{case['via1']} -> {case['fn2']}/{case['via2']}"
                          f"{' -> ' + case['again']['fn'] + ' on ' + case['again']['pos'] if 'again' in case else ''}] "
                          f"arrays_shared_before={obs['aliased_before']} {other}_reads_what_it_read_before={untouched} "
                          + ("; ".join(why) if why else "both objects: stored probabilities = map function of own stored distances")}

    @staticmethod
    def _stat_map(case):
        """the genetic map of a statistical case: explicit `chr` / `pos`, or a compact description of a dense
        panel (`nchr` chromosomes of `clen` equally spaced markers, `step` Morgan apart)"""
        mp = case["map"]
        if "chr" in mp:
            return mp["fn"], list(mp["chr"]), [Fraction(v) for v in mp["pos"]]
        step = Fraction(mp["step"])
        chr_ = [c + 1 for c in range(mp["nchr"]) for _ in range(mp["clen"])]
        pos = [k * step for _ in range(mp["nchr"]) for k in range(mp["clen"])]
        return mp["fn"], chr_, pos

    def _stat_layout(self, case):
        """-> (crossover probabilities as floats, chromosome labels or None)"""
        if "map" in case:
            fn, chr_, pos = self._stat_map(case)
            xo_a, _ = self._map_xoprob(fn, "rprob1g", chr_, [canon.enc(v) for v in pos])
            return [float(v) for v in xo_a], chr_
        if "dense" in case:
            # a dense panel given directly: 1/2 at every chromosome start, a small dyadic probability elsewhere
            d = case["dense"]
            p = _f(d["p"])
            xo = [0.5 if k == 0 else p for _ in range(d["nchr"]) for k in range(d["clen"])]
            return xo, [c + 1 for c in range(d["nchr"]) for _ in range(d["clen"])]
        return [_f(v) for v in case["xoprob"]], None

    def _impl_stat(self, case):
        n = case["n"]
        if self._scope is not None:
            n = min(n, 6000)        # self-test economy: a smaller sample can only lose kills, never create one
        xo, chr_ = self._stat_layout(case)
        m = len(xo)
        tgt = case["target"]
        het = [True] * m          # markers at which the copy a cell came from can be read off
        L = []          # label matrices (n, m) of independent gametes
        cross01 = None  # label matrices of copy 0 and copy 1 of the same plants (several generations)
        ncalls = 0
        want_n = None
        if tgt == "embv":
            # gametes pooled over the replicates of from_gmod (each replicate must be a fresh sample)
            embv, dalgm = _embv_mods()
            homo = case.get("homo")
            if homo:
                het = [j not in set(homo) for j in range(m)]
            pg = self._pgmat(1, xo, chr_, homo=[homo] if homo else None)
            ua = case.get("ua")
            if ua is not None:
                # a model with neutral markers: the statistics are taken at the markers that carry an effect (what a
                # neutral marker of a doubled haploid looks like cannot change anything from_gmod computes)
                het = [het[j] and any(Fraction(v) != 0 for v in ua[j]) for j in range(m)]
            captured = []
            gm = self._gmod(m, ua, captured)
            g = (RecGenerator if case["gen"] == "Generator" else RecRandomState)(case["seed"])
            orig_rng = embv.global_prng
            embv.global_prng = g
            try:
                embv.DenseExpectedMaximumBreedingValueMatrix.from_gmod(gm, pg, 40, max(n // 40, 1))
            finally:
                embv.global_prng = orig_rng
            hcol = numpy.array(het, dtype=bool)
            for out in captured:
                if out.ndim != 3 or out.shape[0] != 2 or out.shape[2] != m:
                    return {"observable": False}
                t, p = _decode(out[0])
                # (the doubled haploid of taxon 0: at every marker with an effect one of its two alleles, both copies equal)
                if not ((t == 0)[:, hcol].all() and (out[0] == out[1])[:, hcol].all()):
                    return {"observable": False}
                L.append(p.astype(bool))
            if not L:
                return {"observable": False}
            ncalls = len(g.log)
            want_n = 40 * max(n // 40, 1)       # every replicate is a fresh sample of nprogeny simulated meioses
        elif tgt.startswith("proto:"):
            proto = tgt[6:]
            np_ = NPARENT[proto]
            nself = case.get("nself", 0)
            pipe = None
            if case.get("pipeline"):
                # the whole chain: map -> interp_xoprob on the matrix that is mated (nothing assigned by hand)
                fn, chr_p, pos_p = self._stat_map(case)
                pipe = (fn, chr_p, pos_p, case["pipeline"])
            if case.get("gen2") or case.get("ngen"):
                # pedigree of several generations: n independent lines, one plant observed per line; the copy of
                # the founder / of the F1 carried by each cell is read from the allele code
                outs, g, rows, M, N, _ = self._run_proto(proto, case["gen"], case["seed"], 4, [list(range(np_))],
                                                         n, 1, nself, xo, chr_, pipe=pipe,
                                                         disturb=case.get("disturb") if pipe else None)
                both = []
                ok = True
                for c in range(2):
                    t, p = _decode(outs[0].mat[c])
                    if proto == "SelfCross":
                        both.append(p.astype(bool))
                        ok = ok and bool((t == 0).all())
                    else:
                        both.append(t == 1)
                        ok = ok and bool(((t == 0) | (t == 1)).all())
                labs = [both[0]]
                if case.get("ngen") and proto in ("SelfCross", "TwoWayCross"):
                    cross01 = both        # the two copies of ONE plant (law of `crossProbN`)
            else:
                outs, g, rows, M, N, _ = self._run_proto(proto, case["gen"], case["seed"], 4, [list(range(np_))],
                                                         1, n, nself, xo, chr_, pipe=pipe,
                                                         disturb=case.get("disturb") if pipe else None)
                if nself == 0:
                    labs, ok = self._labels(proto, rows, outs[0].mat)
                else:
                    labs, ok = self._labels_self1(proto, rows, outs[0].mat)
            if not ok:
                return {"observable": False}
            L = labs
            ncalls = len(g.log)
        else:
            mutil, cmate = _mods()[:2]
            f = getattr(mutil if tgt.startswith("mat_") else cmate, tgt)
            g = (RecGenerator if case["gen"] == "Generator" else RecRandomState)(case["seed"])
            homo = case.get("homo")
            if homo:
                het = [j not in set(homo) for j in range(m)]
            geno = numpy.array(_geno(2, m, 0, [homo, homo] if homo else None), dtype="int8").reshape(2, 2, m)
            xoa = numpy.array(xo, dtype=float)
            if tgt in ("mat_mate", "dense_cross"):
                out = f(geno, geno, numpy.repeat(0, n), numpy.repeat(1, n), xoa, g)
                mats = [(out[0], 0), (out[1], 1)]
            elif tgt in ("mat_dh", "dense_dh"):
                out = f(geno, numpy.repeat(1, n), xoa, g)
                if not (out[0] == out[1]).all():
                    return {"observable": False}
                mats = [(out[0], 1)]
            else:
                out = f(geno, numpy.repeat(0, n), xoa, g)
                mats = [(out, 0)]
            for mat, src in mats:
                t, p = _decode(mat)
                if not (t == src).all():
                    return {"observable": False}
                L.append(p.astype(bool))
            ncalls = len(g.log)
        Lall = numpy.concatenate(L, axis=0)
        nn = Lall.shape[0]
        # statistics are taken at the watched markers only (all markers unless the case names a subset)
        W = [j for j in case.get("watch", range(m)) if j < m]
        Li = Lall.astype(numpy.int64)
        hidx = [j for j in W if het[j]]
        # crossover indicators are only visible between successive markers that are both observable
        T = Li.copy()
        T[:, 1:] = Li[:, 1:] ^ Li[:, :-1]
        tvis = [het[j] and (j == 0 or het[j - 1]) for j in range(m)]
        Lw = Li[:, W].astype(float)
        Tw = T[:, W].astype(float)
        ones = numpy.ones_like(Lw)
        # (#gametes with different copies at the two markers) = a(1-b) + (1-a)b summed over the gametes
        diff = (Lw.T @ (ones - Lw) + (ones - Lw).T @ Lw)
        obs = {"observable": True, "n": nn, "xoprob": canon.enc(xo), "watch": W,
               "phase1": [int(v) for v in Lw.sum(0)],
               "diff": [[int(round(diff[a, b])) if a < b else 0 for b in range(len(W))] for a in range(len(W))],
               "both": [[int(round(v)) for v in row] for row in (Lw.T @ Lw)],
               "xo_count": [int(v) for v in Tw.sum(0)],
               "xo_both": [[int(round(v)) for v in row] for row in (Tw.T @ Tw)],
               "ncalls": ncalls, "het": [het[j] for j in W], "tvis": [tvis[j] for j in W],
               "distinct_rows": int(len(numpy.unique(Lall[: min(nn, 2000)][:, hidx], axis=0))) if hidx else 0}
        if want_n is not None:
            obs["want_n"] = want_n
        # independence of different gametes: identical rows at fixed lags (disjoint pairs (i, i + k), i in every
        # second block of k rows), against P(two independent gametes carry the same mask) = prod (x^2 + (1 - x)^2)
        if all(het) and not (case.get("gen2") or case.get("ngen") or case.get("nself")):
            lag = {}
            for k in LAGS:
                if 4 * k > nn:
                    break
                i = numpy.arange(nn - k)
                i = i[(i // k) % 2 == 0]
                lag[str(k)] = [int((Lall[i] == Lall[i + k]).all(axis=1).sum()), int(len(i))]
            obs["lagdup"] = lag
        if cross01 is not None:
            A = cross01[0][:, W].astype(float)
            B = cross01[1][:, W].astype(float)
            o = numpy.ones_like(A)
            x01 = A.T @ (o - B) + (o - A).T @ B       # [a, b]: copy 0 at W[a] against copy 1 at W[b]
            obs["cross01"] = [[int(round(v)) for v in row] for row in x01]
            obs["cross10"] = [[int(round(v)) for v in row] for row in x01.T]
        return obs

    # ------------------------------------------------------------------ model requests
    def requests(self, case, obs):
        if "__unreached__" in obs:
            return []
        k = self._k(case)
        if k == "big":
            return self.requests(self._expand_big(case), obs)
        if k == "scripted":
            nper = 2 if case["fn"] == "mate" else 1
            dd = {"dden": case["dden"]} if "dden" in case else {}
            reqs = []
            ncall = 1 if "rejected" in obs else len(obs["outs"])
            base = case
            for c in range(ncall):
                if c >= 1 and "edit" in base:
                    case = dict(base)
                    case.update(base["edit"])
                rnd = case["rnd"][c * nper:(c + 1) * nper]
                req = {"op": "c02.meiosis", "impl": case["impl"], "fn": case["fn"], "geno": case["geno"],
                       "sel": case["sel"], "xoprob": case["xoprob"], "rnd": rnd, **dd}
                if case["fn"] == "mate":
                    req["mgeno"] = case["mgeno"]
                    req["msel"] = case["msel"]
                reqs.append(req)
                if "rejected" in obs:
                    return reqs
                out = obs["outs"][c]
                if case["fn"] == "meiosis":
                    gam = [(case["geno"], case["sel"], rnd[0], out)]
                elif case["fn"] == "dh":
                    gam = [(case["geno"], case["sel"], rnd[0], out[0]),
                           (case["geno"], case["sel"], rnd[0], out[1])]
                else:
                    gam = [(case["geno"], case["sel"], rnd[0], out[0]),
                           (case["mgeno"], case["msel"], rnd[1], out[1])]
                for geno, sel, r, g in gam:
                    reqs.append({"op": "c02.spec_meiosis", "geno": geno, "sel": sel, "xoprob": case["xoprob"],
                                 "rnd": r, "gamete": g, **dd})
            return reqs
        if k == "protocol":
            reqs = [{"op": "c02.proto_calls", "proto": case["proto"], "M": obs["M"], "N": obs["N"],
                     "nself": case["nself"]}]
            # every cell of every progeny, selfing generations included, from the recorded draws
            geno = _geno(case["ntaxa"], len(case["xoprob"]), 0, case.get("homo"))
            at = 0
            for c, nd in enumerate(obs["ndraws"]):
                req = {"op": "c02.proto_full", "proto": case["proto"], "geno": geno,
                       "xconfig": case["xconfig"], "nmating": case["nmating"], "nprogeny": case["nprogeny"],
                       "nself": case["nself"], "xoprob": case["xoprob2"] if (c >= 1 and "xoprob2" in case)
                       else case["xoprob"], "draws": obs["draws"][at:at + nd],
                       "dden": 1 << 53, "pc": c * obs["N"], "fc": c * len(case["xconfig"])}
                if c == 1 and case.get("chain"):
                    req.update({"geno": obs["mats"][0], "xconfig": case["chain"], "nmating": 1, "nprogeny": 2,
                                "xoprob": obs["xo_stored"] if obs.get("xo_stored") is not None else case["xoprob"]})
                reqs.append(req)
                at += nd
            if "labels" in obs:
                reqs += [{"op": "c02.spec_labels", "labels": l, "rnd": r, "dden": 1 << 53, "xoprob": case["xoprob"]}
                         for l, r in zip(obs["labels"], obs["rnd"])]
            return reqs
        if k == "embv":
            full = lambda v: [v] * case["ntaxa"] if isinstance(v, int) else v
            geno = _geno(case["ntaxa"], len(case["xoprob"]), 0, case.get("homo"))
            reqs = [{"op": "c02.embv_calls", "nprogeny": full(case["nprogeny"]), "nrep": full(case["nrep"])},
                    {"op": "c02.embv_full", "geno": geno, "xoprob": case["xoprob"], "nprogeny": full(case["nprogeny"]),
                     "nrep": full(case["nrep"]), "draws": obs["draws"], "dden": 1 << 53}]
            if len(obs["dh"]) == len(obs["draws"]):
                reqs += [{"op": "c02.spec_meiosis", "geno": geno, "sel": sel, "xoprob": case["xoprob"], "rnd": r,
                          "dden": 1 << 53, "gamete": dh[0]}
                         for sel, r, dh in zip(obs["sels"], obs["draws"], obs["dh"])]
            return reqs
        if k == "xoprob":
            chr_, pos = self._xo_window(case)
            reqs = [{"op": "c02.gdist", "chr": chr_, "pos": pos}]
            if "xoprob" in obs:
                xs = [None if isinstance(canon.dec(x), str) else x for x in obs["xoprob"]]
                if xs and "slice" in case and (case["slice"][0] or 0) > 0 and \
                        case["chr"][case["slice"][0]] == case["chr"][case["slice"][0] - 1]:
                    xs[0] = "1/2"      # a window that opens inside a chromosome: the property is silent on its first cell
                reqs.append({"op": "c02.spec_starts", "chr": chr_, "xoprob": xs})
            return reqs
        if k == "shared":
            reqs = []
            for name in ("parent", "child"):
                o = obs[name]
                xs = [None if isinstance(canon.dec(x), str) else x for x in o["xoprob"]]
                reqs += [{"op": "c02.gdist", "chr": case["chr"], "pos": o["genpos"]},
                         {"op": "c02.spec_starts", "chr": case["chr"], "xoprob": xs}]
            reqs.append({"op": "c02.history", "share": True, "target": case["target"],
                         "ninterp": 2 if "again" in case else 1})
            return reqs
        if k == "stat":
            if not obs.get("observable"):
                return []
            req = {"op": "c02.probs", "xoprob": obs["xoprob"], "idx": obs["watch"]}
            if case.get("ngen"):
                req["ngen"] = case["ngen"]
            if len(obs["xoprob"]) > 1000:
                req["float"] = True      # thousands of markers: the model's closed forms evaluated in binary64
            return [req]
        raise ValueError(k)

    # ------------------------------------------------------------------ judge
    def judge(self, case, obs, answers):
        if "__unreached__" in obs:
            return dict(self._verdicts[obs["__unreached__"]])
        for a in answers:
            if "err" in a:
                raise RuntimeError("driver error: " + a["err"])
        k = self._k(case)
        if k == "big":
            v = self._judge_scripted(self._expand_big(case), obs, [a["ok"] for a in answers])
            v["detail"] = f"big[m={case['m']} nsel={len(case['sel'])} ntaxa={case['ntaxa']}] " + v["detail"][:600]
        else:
            v = getattr(self, "_judge_" + k)(case, obs, [a["ok"] for a in answers])
        if self._scope is None:
            if len(self._verdicts) > 20000:
                self._verdicts.clear()
            self._verdicts[self._ckey(case)] = dict(v)
        return v

    def _judge_scripted(self, case, obs, ans):
        m = len(case["xoprob"])
        nsel = len(case["sel"])
        if case.get("reject") or "rejected" in obs:
            # an index of `sel` outside the population: both sides must reject (the property is silent)
            model = ans[0]
            both = "rejected" in obs and model["out"].get("error") == obs.get("rejected") == "index"
            return {"corr": bool(both) and bool(case.get("reject")), "spec": True, "nontrivial": False,
                    "detail": f"scripted[{case['impl']}.{case['fn']}] rejected input: impl={obs.get('rejected')} "
                              f"model={model['out']}"}
        nout = 1 if case["fn"] == "meiosis" else 2
        ncall = len(obs["outs"])
        per = 1 + nout
        out_ok, spec, want_calls, nontriv, details = True, True, [], False, []
        for c in range(ncall):
            model = ans[c * per]
            specs = ans[c * per + 1:(c + 1) * per]
            want_calls += [[0, 1, [nsel, m]]] * model["ncalls"]
            mo = model["out"]
            out_ok = out_ok and "value" in mo and self._same_cells(mo["value"], obs["outs"][c])
            spec = spec and all(s["ok"] for s in specs)
            details += [s["detail"] for s in specs if not s["ok"]][:2]
            ph = model["phases"]
            nontriv = nontriv or (any(any(r) for r in ph) and len({tuple(r) for r in ph}) >= 2
                                  and any(s.get("nseen", 0) > 0 for s in specs))
        calls_ok = obs["calls"] == want_calls
        # the scripted draws determine the gametes only if the code asked for them in the modelled pattern (one
        # matrix of shape (nsel, nvrnt) per meiosis, through uniform / random / random_sample); a rewrite that
        # consumes randomness differently is broken correspondence here, and the statistical cases decide
        pattern_ok = [c[-1] for c in obs["calls"]] == [c[-1] for c in want_calls] or \
            bool(obs.get("served_in_blocks"))        # (or block by block along the gamete / marker axis)
        if not pattern_ok:
            spec, details = True, ["not decided by this case: the random draws were requested in another pattern"]
        if case["fn"] == "dh":
            # chromosome doubling: the two copies of a doubled haploid are the same gamete
            spec = spec and all(o[0] == o[1] for o in obs["outs"])
        untouched = obs.get("inputs_untouched", True)
        calls_txt = obs["calls"] if len(obs["calls"]) <= 6 else f"{len(obs['calls'])} calls"
        if not obs.get("drew_scripted_values", True):
            calls_ok = False
        return {"corr": bool(out_ok and calls_ok and untouched), "spec": bool(spec), "nontrivial": nontriv,
                "detail": f"scripted[{case['impl']}.{case['fn']}{' x' + str(ncall) if ncall > 1 else ''}"
                          f"{' edited-in-place' if 'edit' in case else ''}"
                          f"{' ' + json.dumps(case['form']) if 'form' in case else ''}] out_equal={out_ok} "
                          f"calls={calls_txt} calls_ok={calls_ok} inputs_untouched={untouched} "
                          f"spec={details if details else 'copies follow the draws'}"}

    @staticmethod
    def _same_cells(a, b):
        def empty(x):
            return isinstance(x, list) and all(empty(v) for v in x)
        return a == b or (empty(a) and empty(b))

    @staticmethod
    def _reused_draws(draws):
        """two meioses that were handed the same random numbers (a genuine generator never repeats 4 doubles):
        -> (k, l) of the first pair of draw matrices whose flattened values agree on a common prefix of >= 4"""
        flat = [[v for row in d for v in row] for d in draws]
        seen = {}
        for k, f in enumerate(flat):
            if len(f) < 4:
                continue
            key = tuple(f[:4])
            if key in seen:
                l = seen[key]
                n = min(len(f), len(flat[l]))
                if f[:n] == flat[l][:n]:
                    return (l, k)
            else:
                seen[key] = k
        return None

    def _judge_protocol(self, case, obs, ans):
        m = len(case["xoprob"])
        ncall = len(obs["ndraws"])
        want = [[0, 1, [rows, m]] for rows in (ans[0] or [])] * ncall
        if case.get("chain") and ans[0] is not None:
            M2 = len(case["chain"])
            want = want[:len(ans[0])] + [[0, 1, [rows, m]] for rows in
                                         _proto_rows(case["proto"], M2, 2 * M2, case["nself"])]
        calls_ok = ans[0] is not None and obs["calls"] == want
        full = ans[1:1 + ncall]
        labs = ans[1 + ncall:]
        # (a) every progeny cell against the protocol model on the recorded draws (all meioses of the pedigree)
        full_ok = all("mat" in f and self._same_cells(f["mat"], mat) for f, mat in zip(full, obs["mats"]))
        why = ""
        if not full_ok:
            for c, (f, mat) in enumerate(zip(full, obs["mats"])):
                if "mat" not in f:
                    why = f"call {c}: model rejects the recorded draws ({f.get('error')})"
                    break
                if not self._same_cells(f["mat"], mat):
                    bad = [(ph, i, j) for ph in range(min(len(mat), 2)) for i in range(len(mat[ph]))
                           for j in range(len(mat[ph][i]))
                           if ph >= len(f["mat"]) or i >= len(f["mat"][ph]) or j >= len(f["mat"][ph][i])
                           or f["mat"][ph][i][j] != mat[ph][i][j]]
                    if bad:
                        ph, i, j = bad[0]
                        t_i, p_i = _decode(numpy.array([[mat[ph][i][j]]]) - 5 * j)
                        t_m, p_m = _decode(numpy.array([[f["mat"][ph][i][j]]]) - 5 * j)
                        why = (f"call {c}: progeny {i} copy {ph} marker {j} carries the allele of founder "
                               f"{int(t_i[0, 0])} copy {int(p_i[0, 0])}; the recorded draws of its pedigree give "
                               f"founder {int(t_m[0, 0])} copy {int(p_m[0, 0])} ({len(bad)} cells differ)")
                    else:
                        why = f"call {c}: progeny matrix shape differs from the model's"
                    break
        # (b) the copy switches of the last meiosis against its draws (no selfing, fully heterozygous founders)
        lab_spec = lab_ok = True
        if "labels" in obs:
            lab_spec = obs["observable"] and (all(a["ok"] for a in labs) or not calls_ok)
            lab_ok = all(a["phases"] == l for a, l in zip(labs, obs["labels"]))
        # the deterministic prediction is only defined when the calls are the modelled ones
        grid = obs.get("exact_grid", True)      # recorded doubles are k/2^53 (else the model cannot be fed exactly)
        spec = bool(lab_spec and (full_ok or not calls_ok or not grid))
        # independent meioses need independent draws: with a genuine generator no two draw matrices may coincide
        reused = None if case["gen"] == "Scripted" else self._reused_draws(obs["draws"])
        if reused is not None:
            spec = False
            why = (f"draw matrices {reused[0]} and {reused[1]} of the protocol hold the same random numbers: two meioses "
                   f"of the pedigree are not independent. ") + why
        last = obs["draws"][-1] if obs["draws"] else []
        xs = [Fraction(v) for v in canon.dec(case["xoprob2"] if (ncall > 1 and "xoprob2" in case) else case["xoprob"])]
        hit_rows = {tuple(int(Fraction(r, 1 << 53) < x) for r, x in zip(row, xs)) for row in last}
        nontriv = any(any(r) for r in hit_rows) and len(hit_rows) >= 2
        return {"corr": bool(calls_ok and full_ok and lab_ok and grid), "spec": spec, "nontrivial": nontriv,
                "detail": f"protocol[{case['proto']} nself={case['nself']} calls={ncall}"
                          f"{' edit=' + case['edit_mode'] if 'xoprob2' in case else ''}"
                          f"{' second cycle on the progeny of the first' if case.get('chain') else ''}"
                          f"{' F-ordered' if case.get('forder') else ''}"
                          f"{' chr=' + str(case['chr']) if 'chr' in case else ''}"
                          f"{' partly-inbred founders' if case.get('homo') else ''}] calls_ok={calls_ok} "
                          f"progeny_equal_model={full_ok} {why} labels_equal_model={lab_ok} "
                          f"spec={[a['detail'] for a in labs if not a['ok']][:2]}"}

    def _judge_embv(self, case, obs, ans):
        m = len(case["xoprob"])
        want = [[0, 1, [rows, m]] for rows in ans[0]]
        calls_ok = obs["calls"] == want
        full = ans[1]
        specs = ans[2:]
        fullv = lambda v: [v] * case["ntaxa"] if isinstance(v, int) else v
        want_sel = [[i] * p for i, (p, r) in enumerate(zip(fullv(case["nprogeny"]), fullv(case["nrep"]))) for _ in range(r)]
        full_ok = "value" in full and self._same_cells(full["value"], obs["dh"]) or \
            ("value" in full and full["value"] == [] and obs["dh"] == [])
        # one recorded draw matrix per captured dense_dh call: otherwise the adapter cannot pair gametes with draws
        # (broken correspondence only); chromosome doubling itself is always demanded
        paired = len(obs["dh"]) == len(obs["draws"])
        # (the recorded draws determine the gametes only when they were requested in the modelled pattern)
        spec = obs["doubled"] and (not paired or not calls_ok or
                                   (len(specs) == len(obs["dh"]) and all(a["ok"] for a in specs)))
        reused = self._reused_draws(obs["draws"])
        if reused is not None:
            spec = False            # every replicate must be a fresh sample
        xs = [Fraction(v) for v in canon.dec(case["xoprob"])]
        hit_rows = {tuple(int(Fraction(r, 1 << 53) < x) for r, x in zip(row, xs)) for d in obs["draws"] for row in d}
        return {"corr": bool(calls_ok and full_ok and paired and obs["sels"] == want_sel), "spec": bool(spec),
                "nontrivial": any(any(r) for r in hit_rows) and len(hit_rows) >= 2,
                "detail": f"embv{' partly-inbred taxa' if case.get('homo') else ''} doubled={obs['doubled']} "
                          f"dh_matrices={len(obs['dh'])} draw_matrices={len(obs['draws'])} "
                          f"calls_ok={calls_ok} dh_equal_model={bool(full_ok)} "
                          f"{'replicates ' + str(reused) + ' were handed the same random numbers ' if reused else ''}"
                          f"spec={[a['detail'] for a in specs if not a['ok']][:2]}"}

    @staticmethod
    def _xo_window(case):
        if "slice" in case:
            ast, asp = case["slice"]
            return case["chr"][ast:asp], case["pos"][ast:asp]
        return case["chr"], case["pos"]

    def _judge_xoprob(self, case, obs, ans):
        if case.get("ungrouped") or "rejected" in obs:
            ok = obs.get("rejected") == "value" and bool(case.get("ungrouped"))
            return {"corr": ok, "spec": True, "nontrivial": False,
                    "detail": f"xoprob[{case['via']}] matrix not grouped: implementation "
                              f"{'rejects (ValueError)' if 'rejected' in obs else 'accepts'}"}
        dist = ans[0]["dist"]
        starts = ans[1]
        fn = _haldane if case["fn"] == "haldane" else _kosambi
        xo = obs["xoprob"]
        chr_, pos_e = self._xo_window(case)
        pos = [Fraction(v) for v in pos_e]
        exact = case["via"] in ("rprob1g", "extended")      # no interpolation in between: bit-for-bit distances
        rel, abs_ = (1e-12, 1e-15) if exact else (1e-9, 1e-11)
        # correspondence with the model's distances
        corr = len(dist) == len(xo)
        if corr:
            for d, x in zip(dist, xo):
                if d is None:
                    corr = corr and x == "1/2"
                else:
                    corr = corr and not isinstance(canon.dec(x), str) and \
                        canon.close(canon.dec(x), Fraction(fn(float(canon.dec(d)))), rel=rel, abs_=abs_)
        # Spec, from the positions alone: (a) exactly 1/2 at every chromosome start — decided in Lean (`specStarts`,
        # theorems spec_starts_sound / spec_starts_iff); (b) the map function of the distance inside a chromosome
        spec, why = bool(starts["ok"]), "ok"
        if not spec:
            why = (f"chromosome start(s) {starts['bad'][:4]} carry {[xo[j] for j in starts['bad'][:4]]} instead of 1/2"
                   if starts["bad"] else f"{len(xo)} stored values for {len(chr_)} markers")
        for j in range(1, min(len(xo), len(chr_))):
            if not spec:
                break
            if chr_[j] == chr_[j - 1]:
                x = canon.dec(xo[j])
                w = fn(float(pos[j] - pos[j - 1]))
                if isinstance(x, str) or not canon.close(x, Fraction(w), rel=rel, abs_=abs_):
                    spec, why = False, f"marker {j}: xoprob {xo[j]} != mapfn(distance) {w}"
        if case["via"].startswith("interp"):
            gp_ok = canon.close_enc(obs["genpos"], case["pos"], rel=1e-12, abs_=1e-12)
            corr = corr and gp_ok
        return {"corr": bool(corr), "spec": bool(spec), "nontrivial": len(set(chr_)) >= 2,
                "detail": f"xoprob[{case['fn']},{case['via']}{',shuffled' if 'perm' in case else ''}"
                          f"{',primed' if case.get('prime') else ''}"
                          f"{',window=' + str(case['slice']) if 'slice' in case else ''}] impl={xo} "
                          f"model_dist={dist} {why}"}

    def _judge_stat(self, case, obs, ans):
        if not obs.get("observable"):
            return {"corr": False, "spec": False, "nontrivial": True,
                    "detail": f"stat[{case['target']}] a progeny cell does not come from a permitted parental copy"}
        pr = ans[0]
        n = obs["n"]
        xo = [float(canon.dec(v)) for v in obs["xoprob"]]
        W = obs["watch"]                    # marker numbers; every matrix below is indexed by position in W
        k = len(W)
        pair = [[float(canon.dec(v)) for v in r] for r in pr["pair"]]
        phase = [float(canon.dec(v)) for v in pr["phase"]]
        both = [[float(canon.dec(v)) for v in r] for r in pr["both"]]
        bad = []
        worst = 0.0
        nstat = 0

        def chk(name, cnt, p):
            nonlocal worst, nstat
            nstat += 1
            b = _budget(n, p)
            z = abs(cnt - n * p) / b
            worst = max(worst, z)
            if z > 1.0:
                bad.append(f"{name}: {cnt}/{n}={cnt / n:.5f} expected {p:.5f} (|dev|={abs(cnt - n * p):.0f} > {b:.0f})")
        het = obs.get("het") or [True] * k
        tvis = obs.get("tvis") or [True] * k
        if case.get("gen2") or case.get("ngen"):
            # law of a chromosome copy several meioses away from the labelled individual
            # (`two_generation_recombination_law`, `n_generation_recombination_law`)
            key, what = ("pairN", f"{case['ngen']}-generation") if case.get("ngen") else ("pair2", "two-generation")
            pairg = [[float(canon.dec(v)) for v in r] for r in pr[key]]
            for a in range(k):
                chk(f"segregation P(founder copy 1 at {W[a]})", obs["phase1"][a], phase[a])
            for a in range(k):
                for b in range(a + 1, k):
                    chk(f"{what} recombination({W[a]},{W[b]})", obs["diff"][a][b], pairg[a][b])
            if "cross01" in obs:
                crossg = [[float(canon.dec(v)) for v in r] for r in pr["crossN"]]
                for a in range(k):
                    for b in range(a + 1, k):
                        chk(f"copy 0 at {W[a]} vs copy 1 at {W[b]} of one plant", obs["cross01"][a][b], crossg[a][b])
                        chk(f"copy 1 at {W[a]} vs copy 0 at {W[b]} of one plant", obs["cross10"][a][b], crossg[a][b])
            het = tvis = [False] * k
        for a in range(k):
            if het[a]:
                chk(f"segregation P(copy1 at {W[a]})", obs["phase1"][a], phase[a])
            if tvis[a]:
                chk(f"crossover frequency in interval {W[a]}", obs["xo_count"][a], xo[W[a]])
        for a in range(k):
            for b in range(a + 1, k):
                if het[a] and het[b]:
                    chk(f"recombination({W[a]},{W[b]})", obs["diff"][a][b], pair[a][b])
                    chk(f"joint copy1({W[a]},{W[b]})", obs["both"][a][b], both[a][b])
                if tvis[a] and tvis[b]:
                    chk(f"joint crossover({W[a]},{W[b]})", obs["xo_both"][a][b], xo[W[a]] * xo[W[b]])
        if "lagdup" in obs:
            p_same = float(canon.dec(pr["same"]))         # `sameProb` (theorem identical_gametes_law)
            n_all = n
            for lg, (cnt, npairs) in obs["lagdup"].items():
                n = npairs                       # (chk reads the sample size from `n`)
                chk(f"identical gametes {lg} rows apart", cnt, p_same)
            n = n_all
        if "want_n" in obs and n != obs["want_n"]:
            bad.append(f"{n} gametes were simulated where {obs['want_n']} independent meioses were requested")
        # Haldane map: pairwise value must be the map function of the genetic distance; different
        # chromosomes: 1/2 and independent assortment
        hal_ok = True
        if "map" in case:
            fn, chr_, pos_f = self._stat_map(case)
            pos = [float(v) for v in pos_f]
            for a in range(k):
                for b in range(a + 1, k):
                    if not (het[a] and het[b]):
                        continue
                    i, j = W[a], W[b]
                    if chr_[i] != chr_[j]:
                        chk(f"unlinked recombination({i},{j})", obs["diff"][a][b], 0.5)
                        hal_ok = hal_ok and abs(pair[a][b] - 0.5) < 1e-12
                    elif fn == "haldane":
                        w = _haldane(pos[j] - pos[i])
                        chk(f"haldane recombination({i},{j})", obs["diff"][a][b], w)
                        hal_ok = hal_ok and abs(pair[a][b] - w) < 1e-12
        spec = not bad
        corr = bool(pr["enum_ok"]) and hal_ok and obs["distinct_rows"] >= 2
        tag = ""
        if case.get("ngen"):
            tag = f" {case['ngen']}-generation law"
        elif case.get("gen2"):
            tag = " two-generation law"
        return {"corr": corr, "spec": spec, "nontrivial": True,
                "detail": f"stat[{case['target']}{' nself=' + str(case['nself']) if case.get('nself') else ''}{tag}"
                          f"{' dense panel' if ('dense' in case or 'nchr' in case.get('map', {})) else ''}"
                          f"{' map->interp_xoprob->mate' if case.get('pipeline') else ''}"
                          f"{' after its ' + case['disturb'] + ' progeny were put on another map' if case.get('disturb') else ''}"
                          f"{' sparse QTL model, statistics at the markers with an effect' if case.get('ua') else ''}"
                          f"{' partly-inbred' if case.get('homo') else ''},{case['gen']},seed={case['seed']}] n={n} "
                          f"markers={len(xo)} watched={k} statistics={nstat} worst |dev|/budget={worst:.3f} "
                          f"enum_ok={pr['enum_ok']} haldane_model_ok={hal_ok} "
                          + ("; ".join(bad[:4]) if bad else "all within budget")}

    # ------------------------------------------------------------------ findings / shrinking
    def signature(self, case, obs, verdict):
        sig = {"kind": case["kind"]}
        for k in ("impl", "fn", "proto", "target", "via", "nself"):
            if k in case:
                sig[k] = case[k]
        return sig

    def shrink(self, case):
        k = self._k(case)
        if k == "big":
            nsel = len(case["sel"])
            for i in range(nsel):
                if nsel > 1:
                    c = dict(case)
                    for f in ("sel", "hits", "msel", "mhits"):
                        if f in case:
                            c[f] = case[f][:i] + case[f][i + 1:]
                    yield c
            for m2 in (case["m"] // 2, (3 * case["m"]) // 4):
                if 1 <= m2 < case["m"]:
                    c = dict(case)
                    c["m"] = m2
                    for f in ("hits", "mhits"):
                        if f in case:
                            c[f] = [[j for j in h if j < m2] for h in case[f]]
                    yield c
            if case.get("homo_mod"):
                c = dict(case)
                c["homo_mod"] = 0
                yield c
            return
        if k == "scripted":
            if case.get("repeat", 1) > 1:
                nper = 2 if case["fn"] == "mate" else 1
                c = dict(case)
                c["repeat"] = case["repeat"] - 1
                c["rnd"] = case["rnd"][:nper * c["repeat"]]
                if c["repeat"] == 1:
                    c.pop("edit", None)
                yield c
            if "form" in case:
                c = dict(case)
                del c["form"]
                yield c
            if "edit" in case:
                c = dict(case)
                del c["edit"]
                yield c
                return            # (row / marker cuts below do not cut the edited arrays)
            nsel = len(case["sel"])
            for i in range(nsel):
                if nsel > 1:
                    c = dict(case)
                    c["sel"] = case["sel"][:i] + case["sel"][i + 1:]
                    if "msel" in case:
                        c["msel"] = case["msel"][:i] + case["msel"][i + 1:]
                    c["rnd"] = [mtx[:i] + mtx[i + 1:] for mtx in case["rnd"]]
                    yield c
            m = len(case["xoprob"])
            for j in range(m):
                if m > 1:
                    c = dict(case)
                    cut = lambda row: row[:j] + row[j + 1:]
                    c["xoprob"] = cut(case["xoprob"])
                    c["geno"] = [[cut(r) for r in ph] for ph in case["geno"]]
                    if "mgeno" in case:
                        c["mgeno"] = [[cut(r) for r in ph] for ph in case["mgeno"]]
                    c["rnd"] = [[cut(r) for r in mtx] for mtx in case["rnd"]]
                    yield c
        elif k == "protocol" and case["gen"] == "Scripted":
            if case.get("homo"):
                c = dict(case)
                del c["homo"]
                yield c
        elif k == "protocol":
            if case.get("ncall", 1) > 1:
                c = dict(case)
                del c["ncall"]
                c.pop("xoprob2", None)
                yield c
            if "xoprob2" in case or "chain" in case:
                return
            if case["nself"] > 0:
                c = dict(case)
                c["nself"] = case["nself"] - 1
                yield c
            if case.get("homo"):
                c = dict(case)
                del c["homo"]
                yield c
            if len(case["xconfig"]) > 1:
                for i in range(len(case["xconfig"])):
                    c = dict(case)
                    c["xconfig"] = case["xconfig"][:i] + case["xconfig"][i + 1:]
                    for f in ("nmating", "nprogeny"):
                        if isinstance(case[f], list):
                            c[f] = case[f][:i] + case[f][i + 1:]
                    yield c
            m = len(case["xoprob"])
            for j in range(m):
                if m > 1:
                    c = dict(case)
                    c["xoprob"] = case["xoprob"][:j] + case["xoprob"][j + 1:]
                    if case.get("homo"):
                        c["homo"] = [[x - (x > j) for x in js if x != j] for js in case["homo"]]
                    yield c
            for f in ("nmating", "nprogeny"):
                if isinstance(case[f], list):
                    if any(v > 1 for v in case[f]):
                        c = dict(case)
                        c[f] = [1] * len(case[f])
                        yield c
                elif case[f] > 1:
                    c = dict(case)
                    c[f] = 1
                    yield c
        elif k == "xoprob":
            if case.get("prime"):
                c = dict(case)
                del c["prime"]
                yield c
            if "perm" in case:
                c = dict(case)
                del c["perm"]
                yield c
                return
            n = len(case["chr"])
            labels = sorted(set(case["chr"]))
            if len(labels) > 1:
                for lab in labels:            # drop a whole chromosome
                    keep = [i for i, v in enumerate(case["chr"]) if v != lab]
                    c = dict(case)
                    c["chr"] = [case["chr"][i] for i in keep]
                    c["pos"] = [case["pos"][i] for i in keep]
                    yield c
            for j in range(n):
                if n > 1:
                    c = dict(case)
                    c["chr"] = case["chr"][:j] + case["chr"][j + 1:]
                    c["pos"] = case["pos"][:j] + case["pos"][j + 1:]
                    if case["via"] not in ("rprob1g", "extended"):
                        cnt = {}
                        for v in c["chr"]:
                            cnt[v] = cnt.get(v, 0) + 1
                        if any(v < 2 for v in cnt.values()):
                            continue
                    yield c
        elif k == "embv":
            if case["ntaxa"] > 1:
                c = dict(case)
                c["ntaxa"] = case["ntaxa"] - 1
                if case.get("homo"):
                    c["homo"] = case["homo"][:-1]
                for f in ("nprogeny", "nrep"):
                    if isinstance(case[f], list):
                        c[f] = case[f][:-1]
                yield c
            for f in ("nprogeny", "nrep"):
                if isinstance(case[f], list) and any(v > 1 for v in case[f]):
                    c = dict(case)
                    c[f] = [1] * len(case[f])
                    yield c
                elif isinstance(case[f], int) and case[f] > 1:
                    c = dict(case)
                    c[f] = 1
                    yield c
        elif k == "shared":
            if "again" in case:
                c = dict(case)
                del c["again"]
                yield c
            labels = sorted(set(case["chr"]))
            if len(labels) > 1:
                for lab in labels:            # drop a whole chromosome
                    keep = [i for i, v in enumerate(case["chr"]) if v != lab]
                    c = dict(case)
                    c["chr"] = [case["chr"][i] for i in keep]
                    c["pos1"] = [case["pos1"][i] for i in keep]
                    c["pos2"] = [case["pos2"][i] for i in keep]
                    yield c
        elif k == "stat":
            if case["n"] > 4000:
                c = dict(case)
                c["n"] = case["n"] // 2
                yield c

    # ------------------------------------------------------------------ self-test mutants
    def mutants(self):
        mutil, cmate, sgm, hal, kos, dpgm, protos = _mods()

        @contextlib.contextmanager
        def patch(obj, name, new):
            old = getattr(obj, name)
            setattr(obj, name, new)
            try:
                yield
            finally:
                setattr(obj, name, old)

        def meiosis_variant(le=False, drop0=False, one_row=False, roll=False, two_calls=False,
                            float32=False, clip_half=False, skip_homo=False, isclose=False, block=0, cache=None,
                            inplace=False, row_chunk=0, sel_int8=False, abs_sel=False, flat_c=False,
                            clip_eps=False, xo32=False, cap=0, memo_parent=False, minus_eps=False, tiny_zero=False):
            def f(geno, sel, xoprob, rng):
                if block and len(xoprob) > block:
                    # memory guard: the marker axis in blocks, each block simulated from scratch
                    return numpy.concatenate([f(geno[:, :, st:st + block], sel, xoprob[st:st + block], rng)
                                              for st in range(0, len(xoprob), block)], axis=1)
                gshape = (len(sel), len(xoprob))
                if cache is not None:
                    if gshape not in cache:
                        cache[gshape] = rng.uniform(0, 1, gshape)     # "reuse the buffer of random numbers"
                    rnd = cache[gshape]
                else:
                    rnd = rng.uniform(0, 1, gshape)
                if float32:
                    rnd = rnd.astype("float32")
                if clip_half:
                    xoprob = numpy.minimum(xoprob, 0.5)
                if clip_eps:
                    xoprob = numpy.clip(xoprob, 1e-6, 1.0)
                if xo32:
                    xoprob = numpy.asarray(xoprob).astype("float32")
                if one_row and len(sel):
                    rnd = numpy.repeat(rnd[:1], len(sel), axis=0)
                if row_chunk and len(sel) > row_chunk:
                    rnd = rnd.copy()
                    rnd[row_chunk:] = rnd[:len(sel) - row_chunk]       # the chunk of draws is recycled
                if sel_int8:
                    sel = numpy.asarray(sel).astype("int8")
                if abs_sel:
                    sel = numpy.abs(numpy.asarray(sel))
                if flat_c:
                    geno = geno.ravel(order="K").reshape(geno.shape)   # assumes C layout
                xo = numpy.roll(xoprob, 1) if roll else xoprob
                if minus_eps:
                    xo = xo - 1e-12
                if tiny_zero:
                    xo = numpy.where(xo < 1e-10, 0.0, xo)
                gamete = numpy.empty(gshape, dtype=geno.dtype)
                memo = {}
                for i, s in enumerate(sel):
                    mask = (rnd[i] <= xo) if le else (rnd[i] < xo)
                    if memo_parent:
                        mask = memo.setdefault(int(s), mask)           # crossover positions computed once per parent
                    if cap:
                        keep = numpy.flatnonzero(mask)[:cap]           # fixed-size buffer of crossover positions
                        mask = numpy.zeros(len(mask), dtype=bool)
                        mask[keep] = True
                    if isclose:
                        mask = mask & ~numpy.isclose(rnd[i], xo)
                    if skip_homo:
                        mask = mask & (geno[0, s] != geno[1, s])
                    if drop0 and len(mask):
                        mask = mask.copy()
                        mask[0] = False
                    phase, stix = 0, 0
                    for spix in numpy.flatnonzero(mask):
                        gamete[i, stix:spix] = geno[phase, s, stix:spix]
                        stix = spix
                        phase = 1 - phase
                    gamete[i, stix:] = geno[phase, s, stix:]
                    if inplace:
                        geno[0, s, :] = gamete[i]                      # the parent's first copy is used as scratch
                return gamete
            return f

        def count_location(orig):
            """fast path for dense panels (mean crossover probability below 2 %): number of crossovers ~ Poisson,
            positions drawn in proportion to xoprob"""
            def f(geno, sel, xoprob, rng):
                xoprob = numpy.asarray(xoprob, dtype=float)
                tot = float(xoprob.sum())
                if len(xoprob) == 0 or not 0.0 < tot < 0.02 * len(xoprob):
                    return orig(geno, sel, xoprob, rng)
                gam = numpy.empty((len(sel), len(xoprob)), dtype=geno.dtype)
                nxo = rng.poisson(tot, len(sel))
                for i, s_ in enumerate(sel):
                    phase, stix = 0, 0
                    for spix in numpy.sort(rng.choice(len(xoprob), nxo[i], p=xoprob / tot)):
                        gam[i, stix:spix] = geno[phase, s_, stix:spix]
                        stix = spix
                        phase = 1 - phase
                    gam[i, stix:] = geno[phase, s_, stix:]
                return gam
            return f

        def block_of_draws_recycled(orig, rows=512):
            """more gametes than `rows`: ONE block of random numbers is drawn and tiled"""
            def f(geno, sel, xoprob, rng):
                if len(sel) <= rows:
                    return orig(geno, sel, xoprob, rng)

                class R:
                    def uniform(self, lo, hi, shape):
                        blk = rng.uniform(lo, hi, (rows, shape[1]))
                        return numpy.concatenate([blk] * (shape[0] // rows + 1))[:shape[0]]
                return orig(geno, sel, xoprob, R())
            return f

        def dh_replicates_share_one_sample(orig):
            memo = {}

            def f(geno, sel, xoprob, rng):
                key = (id(geno), tuple(int(v) for v in sel))
                if key not in memo:
                    memo.clear()
                    memo[key] = orig(geno, sel, xoprob, rng)
                return memo[key]
            return f

        def interference(orig):
            def f(geno, sel, xoprob, rng):
                class R:                      # the same draws, a hit right after a hit is suppressed
                    def uniform(self, lo, hi, shape):
                        r = numpy.array(rng.uniform(lo, hi, shape), dtype=float)
                        hit = r < numpy.asarray(xoprob, dtype=float)
                        for i in range(hit.shape[0]):
                            for j in range(1, hit.shape[1]):
                                if hit[i, j] and hit[i, j - 1]:
                                    hit[i, j] = False
                                    r[i, j] = 1.0
                        return r
                return orig(geno, sel, xoprob, R())
            return f

        def kosambi_expm1(self, d):
            t = numpy.expm1(4.0 * numpy.asarray(d, dtype=float))
            with numpy.errstate(all="ignore"):
                return 0.5 * t / (t + 2.0)

        def haldane_first_order(orig):
            def f(self, d):
                d = numpy.asarray(d, dtype=float)
                return numpy.where(d < 1e-4, d, orig(self, d))
            return f

        def gdist_window_whole_labels(orig):
            def f(self, vrnt_chrgrp, vrnt_genpos, ast=None, asp=None):
                if ast is None and asp is None:
                    return orig(self, vrnt_chrgrp, vrnt_genpos)
                # chromosome starts located on the WHOLE label array, then cut to the window
                return orig(self, vrnt_chrgrp, vrnt_genpos)[ast:asp]
            return f

        def proto_half_at_starts(cls):
            orig = cls.mate

            def mate(self, pgmat, *a, **k):
                keep = pgmat.vrnt_xoprob
                xo = numpy.array(keep, dtype=float)
                xo[pgmat.vrnt_chrgrp_stix] = 0.5            # "chromosomes assort independently"
                pgmat._vrnt_xoprob = xo
                try:
                    out = orig(self, pgmat, *a, **k)
                    out._vrnt_xoprob = keep
                    return out
                finally:
                    pgmat._vrnt_xoprob = keep
            return mate

        def proto_memo_by_identity(cls):
            orig = cls.mate

            def mate(self, pgmat, *a, **k):
                memo = getattr(self, "_xo_by_id", None)
                if memo is None or memo[0] is not pgmat:
                    self._xo_by_id = memo = (pgmat, pgmat.vrnt_xoprob.copy())
                keep = pgmat.vrnt_xoprob
                pgmat._vrnt_xoprob = memo[1]
                try:
                    out = orig(self, pgmat, *a, **k)
                    out._vrnt_xoprob = keep
                    return out
                finally:
                    pgmat._vrnt_xoprob = keep
            return mate

        def selfing_rewinds_generator(orig_mate):
            """every selfing generation starts from the generator state saved before the first one"""
            st = {}

            def g(fgeno, mgeno, fsel, msel, xoprob, rng):
                if fgeno is mgeno and fgeno.shape[1] == len(fsel) and numpy.array_equal(fsel, numpy.arange(len(fsel))):
                    key = id(rng)
                    if hasattr(rng, "bit_generator"):
                        if key in st:
                            rng.bit_generator.state = st[key]
                        else:
                            st[key] = rng.bit_generator.state
                    elif hasattr(rng, "get_state"):
                        if key in st:
                            rng.set_state(st[key])
                        else:
                            st[key] = rng.get_state()
                return orig_mate(fgeno, mgeno, fsel, msel, xoprob, rng)

            @contextlib.contextmanager
            def ctx(mod):
                st.clear()
                with patch(mod, "mat_mate", g):
                    yield
            return ctx

        def mate_aliasing(orig_mate):
            """selfing generations write the female gametes into the hybrid matrix before the male meiosis
            reads it (the first mat_mate of the protocol, on the founders, is left alone)"""
            state = {"n": 0}

            def g(fgeno, mgeno, fsel, msel, xoprob, rng):
                state["n"] += 1
                if fgeno is mgeno and fgeno.shape[1] == len(fsel) and state["n"] > 1:
                    fgeno[0] = mutil.mat_meiosis(fgeno, fsel, xoprob, rng)
                    fgeno[1] = mutil.mat_meiosis(mgeno, msel, xoprob, rng)
                    return fgeno
                return orig_mate(fgeno, mgeno, fsel, msel, xoprob, rng)

            @contextlib.contextmanager
            def ctx(mod):
                state["n"] = 0
                with patch(mod, "mat_mate", g):
                    yield
            return ctx

        def mate_sel_int8(orig_mate):
            def g(fgeno, mgeno, fsel, msel, xoprob, rng):
                return orig_mate(fgeno, mgeno, numpy.asarray(fsel).astype("int8"), numpy.asarray(msel).astype("int8"),
                                 xoprob, rng)
            return g

        def proto_memo_xoprob(cls):
            """mate() keeps the crossover probabilities of the first matrix it sees (per protocol object)"""
            orig = cls.mate

            def mate(self, pgmat, *a, **k):
                if getattr(self, "_xo_memo", None) is None or len(self._xo_memo) != pgmat.nvrnt:
                    self._xo_memo = pgmat.vrnt_xoprob.copy()
                keep = pgmat.vrnt_xoprob
                pgmat._vrnt_xoprob = self._xo_memo
                try:
                    out = orig(self, pgmat, *a, **k)
                    out._vrnt_xoprob = keep
                    return out
                finally:
                    pgmat._vrnt_xoprob = keep
            return mate

        def embv_dh_half_at_start(geno, sel, xoprob, rng):
            xo = numpy.array(xoprob, dtype=float)
            if len(xo):
                xo[0] = 0.5
            return cmate.dense_dh(geno, sel, xo, rng)

        @contextlib.contextmanager
        def fresh_each_time(mod, name, make):
            """a mutant with per-activation state (caches)"""
            with patch(mod, name, make()):
                yield

        import importlib
        pmods = {n: importlib.import_module(f"pybrops.breed.prot.mate.{n}") for n in PROTOS}

        def gdist_sorted_only(self, vrnt_chrgrp, vrnt_genpos, ast=None, asp=None):
            # a chromosome start is recognised by an INCREASE of the label (fine for sorted labels only)
            c = vrnt_chrgrp[ast:asp]
            g = vrnt_genpos[ast:asp]
            out = numpy.empty(g.shape, dtype=float)
            if len(out):
                out[0] = numpy.inf
            out[1:] = numpy.where(c[1:] > c[:-1], numpy.inf, g[1:] - g[:-1])
            return out

        def gdist_float32(self, vrnt_chrgrp, vrnt_genpos, ast=None, asp=None):
            c = vrnt_chrgrp[ast:asp]
            g = vrnt_genpos[ast:asp].astype("float32")
            out = numpy.empty(g.shape, dtype=float)
            if len(out):
                out[0] = numpy.inf
            out[1:] = numpy.where(c[1:] != c[:-1], numpy.inf, (g[1:] - g[:-1]).astype(float))
            return out

        def gdist1p_no_inf(self, vrnt_chrgrp, vrnt_phypos, ast=None, asp=None):
            gp = self.interp_genpos(vrnt_chrgrp, vrnt_phypos)
            return gdist_no_inf(self, vrnt_chrgrp, gp, ast, asp)

        def mapfn_snap(orig):
            def f(self, d):
                d = numpy.where(numpy.asarray(d) < 1e-6, 0.0, d)        # "markers at the same position"
                return orig(self, d)
            return f

        def gdist_no_inf(self, vrnt_chrgrp, vrnt_genpos, ast=None, asp=None):
            c = vrnt_chrgrp[ast:asp]
            g = vrnt_genpos[ast:asp]
            out = numpy.zeros(g.shape, dtype=float)
            out[1:] = numpy.where(c[1:] == c[:-1], g[1:] - g[:-1], 0.0)
            return out

        def gdist_not_reset(self, vrnt_chrgrp, vrnt_genpos, ast=None, asp=None):
            g = vrnt_genpos[ast:asp]
            out = numpy.empty(g.shape, dtype=float)
            if len(out):
                out[0] = numpy.inf
            out[1:] = numpy.abs(g[1:] - g[:-1])
            return out

        embv_mod = _embv_mods()[0]

        def interp_skip_mapfn(self, gmap, gmapfn, **kwargs):
            # interp_xoprob that stores the genetic distances themselves (map function not applied)
            self.vrnt_genpos = gmap.interp_genpos(self._vrnt_chrgrp, self._vrnt_phypos)
            d = gmap.gdist1g(self._vrnt_chrgrp, self._vrnt_genpos)
            self.vrnt_xoprob = numpy.where(numpy.isinf(d), 0.5, d)

        def interp_keep_existing(orig):
            def f(self, gmap, gmapfn, **kwargs):
                if self._vrnt_xoprob is None:          # "already interpolated"
                    return orig(self, gmap, gmapfn, **kwargs)
                self.vrnt_genpos = gmap.interp_genpos(self._vrnt_chrgrp, self._vrnt_phypos)
            return f

        def rprob1g_memo(orig):
            memo = {}

            def f(self, gmap, vrnt_chrgrp, vrnt_genpos):
                key = (id(gmap), id(vrnt_genpos), len(vrnt_genpos))
                if key not in memo:
                    memo.clear()
                    memo[key] = orig(self, gmap, vrnt_chrgrp, vrnt_genpos)
                return memo[key]
            return f

        def interp_in_place(self, gmap, gmapfn, **kwargs):
            # no reallocation: an existing probability vector of the right length is refreshed in place
            self.vrnt_genpos = gmap.interp_genpos(self._vrnt_chrgrp, self._vrnt_phypos)
            xo = gmapfn.rprob1g(gmap, self._vrnt_chrgrp, self._vrnt_genpos)
            if self._vrnt_xoprob is not None and self._vrnt_xoprob.shape == xo.shape:
                self._vrnt_xoprob[:] = xo
            else:
                self.vrnt_xoprob = xo

        def interp_positions_in_place(self, gmap, gmapfn, **kwargs):
            # the genetic positions are refreshed in place, the probabilities are assigned
            gp = gmap.interp_genpos(self._vrnt_chrgrp, self._vrnt_phypos)
            if self._vrnt_genpos is not None and self._vrnt_genpos.shape == gp.shape:
                self._vrnt_genpos[:] = gp
            else:
                self.vrnt_genpos = gp
            self.vrnt_xoprob = gmapfn.rprob1g(gmap, self._vrnt_chrgrp, self._vrnt_genpos)

        def interp_skip_when_positions_unchanged(orig):
            def f(self, gmap, gmapfn, **kwargs):
                old_gp, old_xo = self._vrnt_genpos, self._vrnt_xoprob
                orig(self, gmap, gmapfn, **kwargs)
                if old_gp is not None and old_xo is not None and numpy.array_equal(old_gp, self._vrnt_genpos):
                    self.vrnt_xoprob = old_xo          # "positions unchanged: probabilities on record still valid"
            return f

        def embv_dh_only_heterozygous_markers(geno, sel, xoprob, rng):
            # markers at which the parent is homozygous cannot segregate: they are left out of the meiosis
            sel = numpy.asarray(sel)
            if len(sel) == 0:
                return cmate.dense_dh(geno, sel, xoprob, rng)
            hm = geno[0, sel[0], :] != geno[1, sel[0], :]
            if hm.all() or not hm.any() or not (sel == sel[0]).all():
                return cmate.dense_dh(geno, sel, xoprob, rng)
            mat = numpy.stack([geno[0, sel, :], geno[0, sel, :]])
            mat[:, :, hm] = cmate.dense_dh(geno[:, :, hm], sel, xoprob[hm], rng)
            return mat

        def embv_only_markers_with_effect(cls_orig):
            """from_gmod sends only the markers with a non-zero effect through the meiosis (xoprob subset, not composed)"""
            def from_gmod(cls, gmod, pgmat, nprogeny, nrep, **kwargs):
                vmask = numpy.any(numpy.asarray(gmod.u_a) != 0.0, axis=1)
                if vmask.all():
                    return cls_orig(gmod, pgmat, nprogeny, nrep, **kwargs)
                inner = embv_mod.dense_dh

                def dh(geno, sel, xoprob, rng):
                    mat = numpy.stack([geno[0, sel, :], geno[0, sel, :]])
                    mat[:, :, vmask] = inner(geno[:, :, vmask], sel, xoprob[vmask], rng)
                    return mat
                embv_mod.dense_dh = dh
                try:
                    return cls_orig(gmod, pgmat, nprogeny, nrep, **kwargs)
                finally:
                    embv_mod.dense_dh = inner
            return classmethod(from_gmod)

        def dh_fresh_generator(geno, sel, xoprob, rng):
            return cmate.dense_dh(geno, sel, xoprob, numpy.random.default_rng(1))

        def rprob1g_capped(self, gmap, vrnt_chrgrp, vrnt_genpos):
            # gaps of half a Morgan or more are treated as unlinked
            d = gmap.gdist1g(vrnt_chrgrp, vrnt_genpos)
            r = self.mapfn(d)
            r[d >= 0.5] = 0.5
            return r

        import pybrops.popgen.gmap.ExtendedGeneticMap as egm

        import pybrops.popgen.gmap.ExtendedGeneticMap as egm
        import pybrops.popgen.gmat.DenseGenotypeMatrix as dgm

        def reach_mat(c):          # cases that execute breed/prot/mate/util.py
            k = c["kind"]
            return k == "protocol" or (k in ("scripted", "big") and c["impl"] == "mat") or \
                (k == "statistical-support" and (c["target"].startswith("mat_") or c["target"].startswith("proto:")))

        def reach_dense(c):        # cases that execute core/util/mate.py
            k = c["kind"]
            return k == "embv" or (k in ("scripted", "big") and c["impl"] == "dense") or \
                (k == "statistical-support" and (c["target"].startswith("dense_") or c["target"] == "embv"))

        def reach_map(c):
            return c["kind"] in ("xoprob", "shared") or (c["kind"] == "statistical-support" and "map" in c)

        def reach_proto(pn):
            return lambda c: (c["kind"] == "protocol" and c["proto"] == pn) or \
                (c["kind"] == "statistical-support" and c["target"] == "proto:" + pn)

        def scope_of(name):
            if name.startswith("mat_meiosis"):
                return reach_mat
            if name.startswith("dense_meiosis"):
                return reach_dense
            if name.startswith("embv"):
                return lambda c: c["kind"] == "embv" or c.get("target") == "embv"
            for pn in PROTOS:
                if name.startswith(pn + "_"):
                    return reach_proto(pn)
            return reach_map
        r3 = []
        for mod, nm in ((mutil, "mat_meiosis"), (cmate, "dense_meiosis")):
            r3 += [
                (nm + "_ignores_hits_at_homozygous_markers", lambda mod=mod, nm=nm: patch(mod, nm, meiosis_variant(skip_homo=True))),
                (nm + "_isclose_ties_are_not_crossovers", lambda mod=mod, nm=nm: patch(mod, nm, meiosis_variant(isclose=True))),
                (nm + "_marker_blocks_of_8192", lambda mod=mod, nm=nm: patch(mod, nm, meiosis_variant(block=8192))),
                (nm + "_marker_blocks_of_32768", lambda mod=mod, nm=nm: patch(mod, nm, meiosis_variant(block=32768))),
                (nm + "_draws_cached_by_shape",
                 lambda mod=mod, nm=nm: fresh_each_time(mod, nm, lambda: meiosis_variant(cache={}))),
                (nm + "_parent_copy_used_as_scratch", lambda mod=mod, nm=nm: patch(mod, nm, meiosis_variant(inplace=True))),
                (nm + "_draw_chunk_recycled_after_1024_gametes",
                 lambda mod=mod, nm=nm: patch(mod, nm, meiosis_variant(row_chunk=1024))),
                (nm + "_sel_cast_to_int8", lambda mod=mod, nm=nm: patch(mod, nm, meiosis_variant(sel_int8=True))),
                (nm + "_sel_absolute_value", lambda mod=mod, nm=nm: patch(mod, nm, meiosis_variant(abs_sel=True))),
                (nm + "_assumes_c_layout", lambda mod=mod, nm=nm: patch(mod, nm, meiosis_variant(flat_c=True))),
                (nm + "_xoprob_floor_1e-6", lambda mod=mod, nm=nm: patch(mod, nm, meiosis_variant(clip_eps=True))),
                (nm + "_xoprob_cast_to_float32", lambda mod=mod, nm=nm: patch(mod, nm, meiosis_variant(xo32=True))),
                (nm + "_at_most_64_crossovers_per_gamete", lambda mod=mod, nm=nm: patch(mod, nm, meiosis_variant(cap=64))),
                (nm + "_at_most_256_crossovers_per_gamete", lambda mod=mod, nm=nm: patch(mod, nm, meiosis_variant(cap=256))),
                (nm + "_crossovers_memoised_per_parent", lambda mod=mod, nm=nm: patch(mod, nm, meiosis_variant(memo_parent=True))),
                (nm + "_compares_with_xoprob_minus_1e-12", lambda mod=mod, nm=nm: patch(mod, nm, meiosis_variant(minus_eps=True))),
                (nm + "_xoprob_below_1e-10_is_zero", lambda mod=mod, nm=nm: patch(mod, nm, meiosis_variant(tiny_zero=True))),
            ]
        for pn in ("TwoWayCross", "SelfCross", "ThreeWayCross", "FourWayDHCross"):
            r3.append((pn + "_selfing_overwrites_the_hybrid_matrix",
                       lambda pn=pn: mate_aliasing(pmods[pn].mat_mate)(pmods[pn])))
        r3 += [
            ("ThreeWayCross_parent_indices_cast_to_int8",
             lambda: patch(pmods["ThreeWayCross"], "mat_mate", mate_sel_int8(pmods["ThreeWayCross"].mat_mate))),
            ("TwoWayCross_memoises_xoprob_of_first_matrix",
             lambda: patch(protos["TwoWayCross"], "mate", proto_memo_xoprob(protos["TwoWayCross"]))),
            ("FourWayDHCross_memoises_xoprob_of_first_matrix",
             lambda: patch(protos["FourWayDHCross"], "mate", proto_memo_xoprob(protos["FourWayDHCross"]))),
            ("embv_forces_one_half_at_first_marker", lambda: patch(embv_mod, "dense_dh", embv_dh_half_at_start)),
        ]
        for mod, nm in ((mutil, "mat_meiosis"), (cmate, "dense_meiosis")):
            r3 += [
                (nm + "_count_location_fast_path_for_dense_panels",
                 lambda mod=mod, nm=nm: patch(mod, nm, count_location(getattr(mod, nm)))),
                (nm + "_no_crossover_right_after_a_crossover",
                 lambda mod=mod, nm=nm: patch(mod, nm, interference(getattr(mod, nm)))),
                (nm + "_one_block_of_512_draw_rows_tiled",
                 lambda mod=mod, nm=nm: patch(mod, nm, block_of_draws_recycled(getattr(mod, nm)))),
            ]
        r3.append(("embv_replicates_share_one_sample",
                   lambda: patch(embv_mod, "dense_dh", dh_replicates_share_one_sample(embv_mod.dense_dh))))
        for pn in ("ThreeWayDHCross", "TwoWayCross"):
            r3.append((pn + "_forces_one_half_at_chromosome_starts",
                       lambda pn=pn: patch(protos[pn], "mate", proto_half_at_starts(protos[pn]))))
        for pn in ("SelfCross", "FourWayCross"):
            r3.append((pn + "_memoises_xoprob_by_matrix_identity",
                       lambda pn=pn: patch(protos[pn], "mate", proto_memo_by_identity(protos[pn]))))
        for pn in ("TwoWayCross", "ThreeWayDHCross"):
            r3.append((pn + "_selfing_rewinds_the_generator",
                       lambda pn=pn: selfing_rewinds_generator(pmods[pn].mat_mate)(pmods[pn])))
        r3 += [
            ("kosambi_expm1_form_nan_at_infinite_distance", lambda: patch(kos.KosambiMapFunction, "mapfn", kosambi_expm1)),
            ("haldane_first_order_below_1e-4",
             lambda: patch(hal.HaldaneMapFunction, "mapfn", haldane_first_order(hal.HaldaneMapFunction.mapfn))),
            ("gdist1g_window_cut_from_whole_array_result",
             lambda: patch(sgm.StandardGeneticMap, "gdist1g", gdist_window_whole_labels(sgm.StandardGeneticMap.gdist1g))),
            ("extended_gdist1g_window_cut_from_whole_array_result",
             lambda: patch(egm.ExtendedGeneticMap, "gdist1g", gdist_window_whole_labels(egm.ExtendedGeneticMap.gdist1g))),
        ]
        r3 += [
            ("gdist1g_chromosome_start_only_where_label_increases",
             lambda: patch(sgm.StandardGeneticMap, "gdist1g", gdist_sorted_only)),
            ("extended_gdist1g_chromosome_start_only_where_label_increases",
             lambda: patch(egm.ExtendedGeneticMap, "gdist1g", gdist_sorted_only)),
            ("gdist1g_positions_in_float32", lambda: patch(sgm.StandardGeneticMap, "gdist1g", gdist_float32)),
            ("gdist1p_without_inf_at_chromosome_starts",
             lambda: patch(sgm.StandardGeneticMap, "gdist1p", gdist1p_no_inf)),
            ("haldane_snaps_distances_below_1e-6_to_zero",
             lambda: patch(hal.HaldaneMapFunction, "mapfn", mapfn_snap(hal.HaldaneMapFunction.mapfn))),
            ("kosambi_snaps_distances_below_1e-6_to_zero",
             lambda: patch(kos.KosambiMapFunction, "mapfn", mapfn_snap(kos.KosambiMapFunction.mapfn))),
            ("interp_xoprob_keeps_probabilities_already_present",
             lambda: patch(dpgm.DensePhasedGenotypeMatrix, "interp_xoprob",
                           interp_keep_existing(dpgm.DensePhasedGenotypeMatrix.interp_xoprob))),
            ("haldane_rprob1g_memoised_by_argument_identity",
             lambda: patch(hal.HaldaneMapFunction, "rprob1g", rprob1g_memo(hal.HaldaneMapFunction.rprob1g))),
            ("dense_genotype_matrix_interp_xoprob_without_map_function",
             lambda: patch(dgm.DenseGenotypeMatrix, "interp_xoprob", interp_skip_mapfn)),
            # round 5
            ("interp_xoprob_refreshes_a_shared_probability_array_in_place",
             lambda: patch(dpgm.DensePhasedGenotypeMatrix, "interp_xoprob", interp_in_place)),
            ("interp_xoprob_refreshes_a_shared_position_array_in_place",
             lambda: patch(dpgm.DensePhasedGenotypeMatrix, "interp_xoprob", interp_positions_in_place)),
            ("interp_xoprob_keeps_probabilities_when_positions_are_unchanged",
             lambda: patch(dpgm.DensePhasedGenotypeMatrix, "interp_xoprob",
                           interp_skip_when_positions_unchanged(dpgm.DensePhasedGenotypeMatrix.interp_xoprob))),
            ("embv_meiosis_only_at_heterozygous_markers", lambda: patch(embv_mod, "dense_dh", embv_dh_only_heterozygous_markers)),
            ("embv_meiosis_only_at_markers_with_an_effect",
             lambda: patch(embv_mod.DenseExpectedMaximumBreedingValueMatrix, "from_gmod",
                           embv_only_markers_with_effect(embv_mod.DenseExpectedMaximumBreedingValueMatrix.from_gmod))),
        ]
        return [(nm, (lambda nm=nm, ctx=ctx: self._scoped(scope_of(nm), ctx()))) for nm, ctx in r3 + [
            ("mat_meiosis_float32_draws", lambda: patch(mutil, "mat_meiosis", meiosis_variant(float32=True))),
            ("dense_meiosis_float32_draws", lambda: patch(cmate, "dense_meiosis", meiosis_variant(float32=True))),
            ("mat_meiosis_xoprob_clipped_to_half", lambda: patch(mutil, "mat_meiosis", meiosis_variant(clip_half=True))),
            ("dense_meiosis_xoprob_clipped_to_half",
             lambda: patch(cmate, "dense_meiosis", meiosis_variant(clip_half=True))),
            ("haldane_rprob1g_caps_gaps_at_half_morgan",
             lambda: patch(hal.HaldaneMapFunction, "rprob1g", rprob1g_capped)),
            ("kosambi_rprob1g_caps_gaps_at_half_morgan",
             lambda: patch(kos.KosambiMapFunction, "rprob1g", rprob1g_capped)),
            ("extended_gdist1g_without_inf_at_chromosome_starts",
             lambda: patch(egm.ExtendedGeneticMap, "gdist1g", gdist_no_inf)),
            ("embv_fresh_generator_each_replicate", lambda: patch(embv_mod, "dense_dh", dh_fresh_generator)),
            ("interp_xoprob_without_map_function",
             lambda: patch(dpgm.DensePhasedGenotypeMatrix, "interp_xoprob", interp_skip_mapfn)),
            ("mat_meiosis_le", lambda: patch(mutil, "mat_meiosis", meiosis_variant(le=True))),
            ("mat_meiosis_fixed_start_phase", lambda: patch(mutil, "mat_meiosis", meiosis_variant(drop0=True))),
            ("mat_meiosis_one_rnd_row", lambda: patch(mutil, "mat_meiosis", meiosis_variant(one_row=True))),
            ("mat_meiosis_xoprob_rolled", lambda: patch(mutil, "mat_meiosis", meiosis_variant(roll=True))),
            ("dense_meiosis_le", lambda: patch(cmate, "dense_meiosis", meiosis_variant(le=True))),
            ("dense_meiosis_fixed_start_phase", lambda: patch(cmate, "dense_meiosis", meiosis_variant(drop0=True))),
            ("dense_meiosis_one_rnd_row", lambda: patch(cmate, "dense_meiosis", meiosis_variant(one_row=True))),
            ("dense_meiosis_xoprob_rolled", lambda: patch(cmate, "dense_meiosis", meiosis_variant(roll=True))),
            ("gdist1g_without_inf_at_chromosome_starts",
             lambda: patch(sgm.StandardGeneticMap, "gdist1g", gdist_no_inf)),
            ("gdist1g_not_reset_at_chromosome_starts",
             lambda: patch(sgm.StandardGeneticMap, "gdist1g", gdist_not_reset)),
            ("haldane_exp_minus_d", lambda: patch(hal.HaldaneMapFunction, "mapfn",
                                                  lambda self, d: 0.5 * (1.0 - numpy.exp(-1.0 * d)))),
            ("kosambi_tanh_d", lambda: patch(kos.KosambiMapFunction, "mapfn",
                                             lambda self, d: 0.5 * numpy.tanh(1.0 * d))),
        ]]


PROP = C02()
