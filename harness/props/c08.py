"""C08 — seeded runs are reproducible, explicit generators are isolated.

Three things happen here.

1. `pre_build()` MEASURES, on the working tree, the dependency set of every stochastic API component
   (which of: python `random`, numpy global `RandomState`, the generator handed in, OS entropy it
   touches with `rng=None` and with an explicit generator) and writes the table to
   `lean/PybropsModel/Generated/C08Deps.lean`.  `Props/C08.lean` has obligations over that table that
   are closed by `decide`; they stop compiling when a component starts reading an unseeded source or
   stops honouring its `rng` argument (other than through a `finding:` line of KNOWN_FINDINGS.txt).
2. Cases are *programs* of stochastic API calls.  `run_impl` executes each program twice in this
   process after two different prior histories and records, per step, digests of the result, of both
   global streams and of every live generator, plus where OS entropy was acquired.
3. The Lean driver predicts from the compiled table which streams each step advances and which
   observables must coincide (`c08.predict`, correspondence) and evaluates the property's Spec on the
   implementation's digests (`c08.spec_repro`, `c08.spec_isolated`).
"""
import contextlib
import copy
import hashlib
import json
import os
import random
import sys
import time

import numpy

from .. import bridge, canon, compat, findings
from ..core import Prop

compat.install()

GEN_FILE = os.path.join(bridge.LEAN, "PybropsModel", "Generated", "C08Deps.lean")
_RAND = numpy.random.mtrand._rand          # numpy's legacy global RandomState (= pybrops global_prng)


# ------------------------------------------------------------------------------------------------
# digests
# ------------------------------------------------------------------------------------------------
def _feed(h, x):
    if x is None:
        h.update(b"N")
    elif isinstance(x, (bool, numpy.bool_)):
        h.update(b"b1" if x else b"b0")
    elif isinstance(x, (int, numpy.integer)):
        h.update(b"i" + str(int(x)).encode())
    elif isinstance(x, (float, numpy.floating)):
        h.update(b"f" + float(x).hex().encode())
    elif isinstance(x, (str, numpy.str_)):
        h.update(b"s" + str(x).encode("utf-8", "replace"))
    elif isinstance(x, bytes):
        h.update(b"y" + x)
    elif isinstance(x, numpy.ndarray):
        if x.dtype == object:
            h.update(b"O" + str(x.shape).encode())
            for v in x.ravel():
                _feed(h, v)
        else:
            h.update(b"A" + str(x.dtype).encode() + str(x.shape).encode())
            h.update(numpy.ascontiguousarray(x).tobytes())
    elif isinstance(x, (list, tuple)):
        h.update(b"L" + str(len(x)).encode())
        for v in x:
            _feed(h, v)
    elif isinstance(x, dict):
        h.update(b"D")
        for k in sorted(x, key=str):
            _feed(h, str(k))
            _feed(h, x[k])
    elif hasattr(x, "to_numpy") and hasattr(x, "columns"):      # pandas.DataFrame
        h.update(b"P")
        for c in x.columns:
            _feed(h, str(c))
            _feed(h, x[c].to_numpy())
    else:
        raise TypeError(f"cannot digest {type(x)}")


def dig(x):
    h = hashlib.sha1()
    _feed(h, x)
    return h.hexdigest()[:16]


def py_state():
    return dig(random.getstate())


def np_state():
    return dig(numpy.random.get_state())


def gen_state(g):
    if isinstance(g, numpy.random.RandomState):
        return dig(g.get_state())
    return dig(g.bit_generator.state)


# ------------------------------------------------------------------------------------------------
# entropy tracer: where is OS entropy acquired, who calls numpy.random.<fn> module functions
# ------------------------------------------------------------------------------------------------
_SKIP = ("random", "secrets", "numpy", "harness.props.c08", "uuid", "tempfile")


def _site(depth=2):
    f = sys._getframe(depth)
    while f is not None:
        m = f.f_globals.get("__name__", "?")
        if not (m in _SKIP or m.split(".")[0] in ("numpy", "random", "secrets")):
            if m == __name__:
                f = f.f_back
                continue
            return f"{m}:{f.f_code.co_name}"
        f = f.f_back
    return "?"


def _caller_module(depth=2):
    f = sys._getframe(depth)
    while f is not None:
        m = f.f_globals.get("__name__", "?")
        if m != __name__ and m.split(".")[0] != "numpy":
            return m
        f = f.f_back
    return "?"


class Tracer:
    """records OS-entropy acquisitions and numpy.random.<fn> module-function calls while `cur` is a set pair"""

    def __init__(self):
        self.os_sites = None
        self.npfn_sites = None
        self._saved = []
        self._depth = 0
        self.oracle = None      # None: the real OS; an int key: deterministic substitute bytes (perturbation runs)
        self._count = 0

    def begin(self):
        self.os_sites, self.npfn_sites = set(), set()

    def end(self):
        o, n = sorted(self.os_sites), sorted(self.npfn_sites)
        self.os_sites = self.npfn_sites = None
        return o, n

    def __enter__(self):
        tr = self
        self._depth += 1
        if self._depth > 1:
            return self
        orig_u = random._urandom
        orig_os = os.urandom

        def urandom(n):
            if tr.os_sites is not None:
                tr.os_sites.add("os:" + _site())
            if tr.oracle is not None:
                tr._count += 1
                out = b""
                while len(out) < n:
                    out += hashlib.sha256(f"{tr.oracle}:{tr._count}:{len(out)}".encode()).digest()
                return out[:n]
            return orig_os(n)

        self._saved = [(random, "_urandom", orig_u), (os, "urandom", orig_os)]
        random._urandom = urandom
        os.urandom = urandom
        for name in dir(numpy.random):
            fn = getattr(numpy.random, name)
            if name.startswith("_") or name in ("seed", "get_state", "set_state", "get_bit_generator", "set_bit_generator"):
                continue
            if getattr(fn, "__self__", None) is _RAND:
                def mk(fn):
                    def wrapped(*a, **k):
                        if tr.npfn_sites is not None:
                            tr.npfn_sites.add("npfn:" + _caller_module())
                        return fn(*a, **k)
                    wrapped.__wrapped_c08__ = fn
                    return wrapped
                self._saved.append((numpy.random, name, fn))
                setattr(numpy.random, name, mk(fn))
        return self

    def __exit__(self, *a):
        self._depth -= 1
        if self._depth > 0:
            return
        for obj, name, val in self._saved:
            setattr(obj, name, val)
        self._saved = []


TR = Tracer()        # one re-entrant tracer per process


class _TracedRS(numpy.random.RandomState):
    """proxy of the numpy global RandomState (shares its bit generator) that records who draws from it.
    Only ever installed for *attribution re-runs*, never while observations are taken."""
    _log = None

    def __getattribute__(self, name):
        if not name.startswith("_") and name not in ("get_state", "set_state", "seed"):
            log = type(self)._log
            if log is not None:
                log.add(_leak_site(self))
        return super().__getattribute__(name)


def _leak_site(proxy):
    """walk outwards from the draw: the first object whose `_rng` is the global proxy resolved
    `rng=None` to the global stream; otherwise name the innermost pybrops module that drew"""
    f = sys._getframe(2)
    inner = None
    while f is not None:
        m = f.f_globals.get("__name__", "?")
        if m.startswith("pybrops"):
            if inner is None:
                inner = m
            s = f.f_locals.get("self")
            if s is not None and getattr(s, "_rng", None) is proxy:
                return "rngNone:" + type(s).__name__
        f = f.f_back
    return "gprng:" + (inner or "?")


@contextlib.contextmanager
def traced_global(log):
    """replace every `global_prng` module attribute of pybrops by a recording proxy"""
    proxy = _TracedRS(_RAND._bit_generator)
    saved = []
    for name, mod in list(sys.modules.items()):
        if name.startswith("pybrops") and mod is not None and getattr(mod, "global_prng", None) is _RAND:
            saved.append(mod)
            mod.global_prng = proxy
    _TracedRS._log = log
    try:
        yield proxy
    finally:
        _TracedRS._log = None
        for mod in saved:
            mod.global_prng = _RAND


# ------------------------------------------------------------------------------------------------
# fixtures and the component registry
# ------------------------------------------------------------------------------------------------
_FX = None


def fixtures():
    """small deterministic inputs (built with a private RandomState; never touches a global stream)"""
    global _FX
    if _FX is not None:
        return _FX
    compat.import_pybrops()
    from pybrops.popgen.gmat.DensePhasedGenotypeMatrix import DensePhasedGenotypeMatrix
    from pybrops.model.gmod.DenseAdditiveLinearGenomicModel import DenseAdditiveLinearGenomicModel
    st_py, st_np = random.getstate(), numpy.random.get_state()
    r = numpy.random.RandomState(20240229)
    ntaxa, nvrnt, ntrait = 10, 12, 2
    mat = r.randint(0, 2, size=(2, ntaxa, nvrnt)).astype("int8")
    h = nvrnt // 2
    chrgrp = numpy.repeat([1, 2], [h, nvrnt - h]).astype("int64")
    phypos = numpy.arange(nvrnt, dtype="int64") * 10 + 1
    genpos = numpy.concatenate([numpy.linspace(0, 0.8, h), numpy.linspace(0, 0.9, nvrnt - h)])
    xoprob = numpy.full(nvrnt, 0.3)
    xoprob[0] = 0.5
    xoprob[h] = 0.5
    pg = DensePhasedGenotypeMatrix(
        mat=mat, taxa=numpy.array([f"t{i}" for i in range(ntaxa)], dtype=object),
        taxa_grp=numpy.arange(ntaxa, dtype="int64") // 2, vrnt_chrgrp=chrgrp, vrnt_phypos=phypos,
        vrnt_name=numpy.array([f"m{i}" for i in range(nvrnt)], dtype=object), vrnt_genpos=genpos,
        vrnt_xoprob=xoprob)
    pg.group_vrnt()
    u_a = r.randint(-3, 4, size=(nvrnt, ntrait)).astype(float)
    gm = DenseAdditiveLinearGenomicModel(beta=numpy.zeros((1, ntrait)), u_misc=None, u_a=u_a,
                                          trait=numpy.array([f"y{i}" for i in range(ntrait)], dtype=object))
    bv = gm.gebv(pg)
    # a symmetric matrix that is NOT positive semidefinite, so that apply_jitter has to draw
    k = r.randint(-2, 3, size=(5, 5)).astype(float)
    k = (k + k.T) / 2.0
    numpy.fill_diagonal(k, 0.0)
    _FX = {"pg": pg, "gm": gm, "bv": bv, "kmat": k, "ntaxa": ntaxa, "nvrnt": nvrnt, "ntrait": ntrait,
           "probs": {}}
    random.setstate(st_py)
    numpy.random.set_state(st_np)
    return _FX


_BIG = {}
SIZES = (12000, 70000)          # decision-space sizes of the `@large` variants (v even / v odd)


def big_pgmat():
    """5000 taxa x 12 markers (private RandomState, cached)"""
    if "pg" not in _BIG:
        from pybrops.popgen.gmat.DensePhasedGenotypeMatrix import DensePhasedGenotypeMatrix
        fx = fixtures()
        small = fx["pg"]
        r = numpy.random.RandomState(77)
        n = 5000
        _BIG["pg"] = DensePhasedGenotypeMatrix(
            mat=r.randint(0, 2, size=(2, n, fx["nvrnt"])).astype("int8"),
            taxa=numpy.array([f"b{i}" for i in range(n)], dtype=object), taxa_grp=numpy.arange(n, dtype="int64") // 50,
            vrnt_chrgrp=small.vrnt_chrgrp, vrnt_phypos=small.vrnt_phypos, vrnt_name=small.vrnt_name,
            vrnt_genpos=small.vrnt_genpos, vrnt_xoprob=small.vrnt_xoprob)
        _BIG["pg"].group_vrnt()
    return _BIG["pg"]


def big_kmat(n):
    if ("k", n) not in _BIG:
        k = numpy.random.RandomState(3).randint(-2, 3, size=(n, n)).astype(float)
        k = (k + k.T) / 2.0
        numpy.fill_diagonal(k, 0.0)
        _BIG[("k", n)] = k
    return _BIG[("k", n)]


def prepare_large():
    """build every large fixture before anything is observed (RandomState(seed) acquires OS entropy)"""
    big_pgmat()
    for n in (100, 160):
        big_kmat(n)
    for _m, _c, kind, nobj in GA_CLASSES:
        for v in (0, 1):
            big_problem(kind, nobj, _ga_size(kind, v))
    big_problem("subset1", 1, SIZES[0])


def big_problem(kind, nobj, n):
    """EBV selection problem over n candidates (subset: decision space of n elements, 4 chosen;
    real/integer/binary: n decision variables)"""
    key = (kind, nobj, n)
    if key not in _BIG:
        import pybrops.breed.prot.sel.prob.EstimatedBreedingValueSelectionProblem as EP
        ebv = numpy.random.RandomState(5).randint(-50, 50, size=(n, 2)).astype(float)
        trans = _sum_trans if nobj == 1 else _id_trans
        if kind == "subset":
            _BIG[key] = EP.EstimatedBreedingValueSubsetSelectionProblem(
                ebv=ebv, ndecn=4, decn_space=numpy.arange(n), decn_space_lower=numpy.repeat(0, 4),
                decn_space_upper=numpy.repeat(n - 1, 4), nobj=nobj, obj_wt=numpy.ones(nobj), obj_trans=trans)
        elif kind == "subset1":
            _BIG[key] = EP.EstimatedBreedingValueSubsetSelectionProblem(
                ebv=ebv, ndecn=1, decn_space=numpy.arange(n), decn_space_lower=numpy.repeat(0, 1),
                decn_space_upper=numpy.repeat(n - 1, 1), nobj=nobj, obj_wt=numpy.ones(nobj), obj_trans=trans)
        else:
            cls = {"real": EP.EstimatedBreedingValueRealSelectionProblem, "integer": EP.EstimatedBreedingValueIntegerSelectionProblem,
                   "binary": EP.EstimatedBreedingValueBinarySelectionProblem}[kind]
            lo, hi, dt = {"real": (0.0, 1.0, float), "integer": (0, 2, int), "binary": (0, 1, int)}[kind]
            _BIG[key] = cls(ebv=ebv, ndecn=n, decn_space=numpy.stack([numpy.repeat(lo, n), numpy.repeat(hi, n)]).astype(dt),
                            decn_space_lower=numpy.repeat(lo, n).astype(dt), decn_space_upper=numpy.repeat(hi, n).astype(dt),
                            nobj=nobj, obj_wt=numpy.ones(nobj), obj_trans=trans)
    return _BIG[key]


def _sum_trans(decnvec, latentvec, **kw):
    return latentvec.sum(keepdims=True)


def _id_trans(decnvec, latentvec, **kw):
    return latentvec


def _problem(kind, nobj):
    """EBV selection problems of the four decision-space kinds (single or two-objective)"""
    fx = fixtures()
    key = (kind, nobj)
    if key in fx["probs"]:
        return fx["probs"][key]
    import pybrops.breed.prot.sel.EstimatedBreedingValueSelection as E
    cls = {"subset": E.EstimatedBreedingValueSubsetSelection, "real": E.EstimatedBreedingValueRealSelection,
           "integer": E.EstimatedBreedingValueIntegerSelection, "binary": E.EstimatedBreedingValueBinarySelection}[kind]
    from pybrops.opt.algo.SortingSubsetOptimizationAlgorithm import SortingSubsetOptimizationAlgorithm
    kw = dict(ntrait=2, unscale=True, ncross=2, nparent=2, nmating=1, nprogeny=2, nobj=nobj,
              obj_wt=numpy.ones(nobj), obj_trans=_sum_trans if nobj == 1 else _id_trans)
    prot = cls(**kw)
    prob = prot.problem(fx["pg"], fx["pg"], None, fx["bv"], fx["gm"], 0, 1)
    fx["probs"][key] = prob
    return prob


def _xconfig(nparent, v):
    base = numpy.arange(3 * nparent).reshape(3, nparent)
    return (base * (v + 1) + v) % fixtures()["ntaxa"]


def _mate(clsname, nparent):
    def run(rng, v):
        import importlib
        cls = getattr(importlib.import_module("pybrops.breed.prot.mate." + clsname), clsname)
        fx = fixtures()
        m = cls(rng=rng)
        out = m.mate(fx["pg"], _xconfig(nparent, v), 1, 1 + v % 2, nself=v % 2)
        return [out.mat, out.taxa, out.taxa_grp]
    return run


def _phenotype(rng, v):
    from pybrops.breed.prot.pt.G_E_Phenotyping import G_E_Phenotyping
    fx = fixtures()
    pt = G_E_Phenotyping(fx["gm"], nenv=1 + v % 2, nrep=2, var_env=1.0, var_rep=0.5, var_err=1.0 + v, rng=rng)
    return pt.phenotype(fx["pg"])


def _sus(rng, v):
    import pybrops.core.random.sampling as S
    return S.stochastic_universal_sampling(numpy.arange(7), numpy.array([1.0, 2.0, 0.5, 3.0, 1.5, 0.25, 0.75]),
                                           5 + v, rng)


def _tiled(rng, v):
    import pybrops.core.random.sampling as S
    return S.tiled_choice(numpy.arange(5), (3 + v, 2), False, None, rng)


def _axis_shuffle(rng, v):
    import pybrops.core.random.sampling as S
    a = numpy.arange(12 + 4 * v).reshape(-1, 4)
    S.axis_shuffle(a, 1, rng)
    return a


def _outcross(rng, v):
    import pybrops.core.random.sampling as S
    a = numpy.array([[0, 0], [1, 1], [2, 3], [3, 2 + v % 2]])
    S.outcross_shuffle(a, rng)
    return a


def _cfg(clsname, decn, mate=False):
    def run(rng, v):
        import importlib
        cls = getattr(importlib.import_module("pybrops.breed.prot.sel.cfg." + clsname), clsname)
        fx = fixtures()
        kw = dict(ncross=3 + v, nparent=2, nmating=1, nprogeny=1, pgmat=fx["pg"], xconfig_decn=numpy.array(decn), rng=rng)
        if mate:
            kw["xconfig_xmap"] = numpy.array([[0, 1], [2, 3], [4, 5], [6, 7], [8, 9]])
        c = cls(**kw)
        first = c.xconfig.copy()
        second = c.sample_xconfig(return_xconfig=True)
        return [first, second]
    return run


def _opt(modname, clsname, kind, nobj, ga=True):
    def run(rng, v):
        import importlib
        cls = getattr(importlib.import_module("pybrops.opt.algo." + modname), clsname)
        prob = _problem(kind, nobj)
        if ga:
            a = cls(ngen=2, pop_size=8, rng=rng) if rng is not None else cls(ngen=2, pop_size=8)
        else:
            a = cls(rng=rng)
        s = a.minimize(prob)
        return [s.soln_decn, s.soln_obj]
    return run


def _opt_det(modname, clsname):
    def run(rng, v):
        import importlib
        cls = getattr(importlib.import_module("pybrops.opt.algo." + modname), clsname)
        s = cls().minimize(_problem("subset", 1))
        return [s.soln_decn, s.soln_obj]
    return run


def _jitter(rng, v):
    from pybrops.popgen.cmat.DenseMolecularCoancestryMatrix import DenseMolecularCoancestryMatrix as DenseCoancestryMatrix
    fx = fixtures()
    c = DenseCoancestryMatrix(fx["kmat"].copy() * (1 + v))
    ok = c.apply_jitter(eigvaltol=-1.0, minjitter=3.0 * (1 + v), maxjitter=9.0 * (1 + v), nattempt=50)
    return [bool(ok), c.mat]


def _embv(rng, v):
    from pybrops.model.embvmat.DenseExpectedMaximumBreedingValueMatrix import DenseExpectedMaximumBreedingValueMatrix
    fx = fixtures()
    sub = fx["pg"].select_taxa(numpy.arange(3 + v % 2))
    m = DenseExpectedMaximumBreedingValueMatrix.from_gmod(fx["gm"], sub, nprogeny=3, nrep=2)
    return m.mat


def _select(protname):
    def run(rng, v):
        import importlib
        fx = fixtures()
        from pybrops.opt.algo.SteepestDescentSubsetHillClimber import SteepestDescentSubsetHillClimber
        if protname == "EBVSubset":
            import pybrops.breed.prot.sel.EstimatedBreedingValueSelection as E
            prot = E.EstimatedBreedingValueSubsetSelection(
                ntrait=2, unscale=True, ncross=2 + v % 2, nparent=2, nmating=1, nprogeny=2, nobj=1,
                obj_wt=numpy.array([1.0]), obj_trans=_sum_trans, rng=rng,
                soalgo=SteepestDescentSubsetHillClimber(rng=rng))
        else:
            import pybrops.breed.prot.sel.RandomSelection as R
            prot = R.RandomSubsetSelection(
                ntrait=2, ncross=2 + v % 2, nparent=2, nmating=1, nprogeny=2, nobj=1,
                obj_wt=numpy.array([1.0]), obj_trans=_sum_trans, rng=rng,
                soalgo=SteepestDescentSubsetHillClimber(rng=rng))
        cfg = prot.select(fx["pg"], fx["pg"], None, fx["bv"], fx["gm"], 0, 1)
        return [cfg.xconfig_decn, cfg.xconfig]
    return run


# ---- `@large` variants: same entry points at sizes where size-gated code paths would be taken ----------
def _mate_large(clsname):
    def run(rng, v):
        import importlib
        cls = getattr(importlib.import_module("pybrops.breed.prot.mate." + clsname), clsname)
        out = cls(rng=rng).mate(fixtures()["pg"], _xconfig(2, v), 1, 1500 + 1000 * (v % 2))    # 9000 / 15000 gametes
        return [out.mat, out.taxa_grp]
    return run


def _phenotype_large(rng, v):
    from pybrops.breed.prot.pt.G_E_Phenotyping import G_E_Phenotyping
    pt = G_E_Phenotyping(fixtures()["gm"], nenv=1, nrep=1 + v % 2, var_env=1.0, var_rep=0.5, var_err=1.0, rng=rng)
    return pt.phenotype(big_pgmat())


def _sus_large(rng, v):
    import pybrops.core.random.sampling as S
    n = SIZES[v % 2]
    p = (numpy.arange(n) % 17 + 1).astype(float)
    return S.stochastic_universal_sampling(numpy.arange(n), p, 70000, rng)           # > 2**16 draws


def _tiled_large(rng, v):
    import pybrops.core.random.sampling as S
    n = SIZES[v % 2]
    return S.tiled_choice(numpy.arange(n), (35001, 2), False, None, rng)             # > 2**16 draws


def _axis_shuffle_large(rng, v):
    import pybrops.core.random.sampling as S
    a = numpy.arange(2 * SIZES[v % 2]).reshape(-1, 2)
    S.axis_shuffle(a, 1, rng)
    return a


def _cfg_large(clsname, mk, mate=False):
    def run(rng, v):
        import importlib
        cls = getattr(importlib.import_module("pybrops.breed.prot.sel.cfg." + clsname), clsname)
        n = SIZES[v % 2]
        kw = dict(ncross=3, nparent=2, nmating=1, nprogeny=1, pgmat=fixtures()["pg"], xconfig_decn=mk(n), rng=rng)
        if mate:
            kw["xconfig_xmap"] = numpy.stack([numpy.arange(n) % 10, (numpy.arange(n) // 10) % 10], axis=1)
        c = cls(**kw)
        return [c.xconfig.copy(), c.sample_xconfig(return_xconfig=True)]
    return run


def _ga_size(kind, v):
    # integer problems: 30 000 variables instead of 70 000 (pymoo's integer operators take 0.5 s per call there)
    n = SIZES[v % 2]
    return min(n, 30000) if kind == "integer" else n


def _opt_large(modname, clsname, kind, nobj, ga=True):
    def run(rng, v):
        import importlib
        cls = getattr(importlib.import_module("pybrops.opt.algo." + modname), clsname)
        prob = big_problem(kind, nobj, _ga_size(kind, v) if ga else SIZES[0])
        kw = {"phc": 0.0} if "SteepestDescentSubsetGenetic" in clsname else {}   # its hill climb is O(n) evaluations per sweep
        if ga:
            a = cls(ngen=2, pop_size=4, rng=rng, **kw) if rng is not None else cls(ngen=2, pop_size=4, **kw)
        else:
            a = cls(rng=rng)
        sol = a.minimize(prob)
        return [sol.soln_decn, sol.soln_obj]
    return run


def _jitter_large(rng, v):
    from pybrops.popgen.cmat.DenseMolecularCoancestryMatrix import DenseMolecularCoancestryMatrix
    n = 100 + 60 * (v % 2)
    c = DenseMolecularCoancestryMatrix(big_kmat(n).copy())
    ok = c.apply_jitter(eigvaltol=-1.0, minjitter=10.0 * n, maxjitter=30.0 * n, nattempt=20)
    return [bool(ok), c.mat]


def _embv_large(rng, v):
    from pybrops.model.embvmat.DenseExpectedMaximumBreedingValueMatrix import DenseExpectedMaximumBreedingValueMatrix
    fx = fixtures()
    sub = fx["pg"].select_taxa(numpy.arange(2))
    return DenseExpectedMaximumBreedingValueMatrix.from_gmod(fx["gm"], sub, nprogeny=4500 + 2000 * (v % 2), nrep=1).mat


GA_CLASSES = [
    ("SubsetGeneticAlgorithm", "SubsetGeneticAlgorithm", "subset", 1),
    ("NSGA2SubsetGeneticAlgorithm", "NSGA2SubsetGeneticAlgorithm", "subset", 2),
    ("NSGA3SubsetGeneticAlgorithm", "NSGA3SubsetGeneticAlgorithm", "subset", 2),
    ("RealGeneticAlgorithm", "RealGeneticAlgorithm", "real", 1),
    ("NSGA2RealGeneticAlgorithm", "NSGA2RealGeneticAlgorithm", "real", 2),
    ("IntegerGeneticAlgorithm", "IntegerGeneticAlgorithm", "integer", 1),
    ("NSGA2IntegerGeneticAlgorithm", "NSGA2IntegerGeneticAlgorithm", "integer", 2),
    ("BinaryGeneticAlgorithm", "BinaryGeneticAlgorithm", "binary", 1),
    ("NSGA2BinaryGeneticAlgorithm", "NSGA2BinaryGeneticAlgorithm", "binary", 2),
    ("NSGA2MemeticSubsetGeneticAlgorithm", "NSGA2SteepestDescentSubsetGeneticAlgorithm", "subset", 2),
    ("NSGA2MemeticSubsetGeneticAlgorithm", "NSGA2StochasticDescentSubsetGeneticAlgorithm", "subset", 2),
    ("NSGA2MemeticSubsetGeneticAlgorithm", "NSGA2MutatorASubsetGeneticAlgorithm", "subset", 2),
    ("NSGA2MemeticSubsetGeneticAlgorithm", "NSGA2MutatorBSubsetGeneticAlgorithm", "subset", 2),
]


def large_components():
    c = {}
    W = 0.08
    c["mate.TwoWayCross@large"] = (True, _mate_large("TwoWayCross"), W)
    c["mate.TwoWayDHCross@large"] = (True, _mate_large("TwoWayDHCross"), W)
    c["pt.G_E_Phenotyping@large"] = (True, _phenotype_large, W)
    c["samp.stochastic_universal_sampling@large"] = (True, _sus_large, W)
    c["samp.tiled_choice@large"] = (True, _tiled_large, W)
    c["samp.axis_shuffle@large"] = (True, _axis_shuffle_large, W)
    c["cfg.SubsetSelectionConfiguration@large"] = (True, _cfg_large("SubsetSelectionConfiguration", lambda n: numpy.arange(n)), W)
    c["cfg.IntegerSelectionConfiguration@large"] = (True, _cfg_large("IntegerSelectionConfiguration", lambda n: numpy.arange(n) % 3), W)
    c["cfg.RealSelectionConfiguration@large"] = (True, _cfg_large("RealSelectionConfiguration", lambda n: (numpy.arange(n) % 5 + 1) / 8.0), W)
    c["cfg.BinarySelectionConfiguration@large"] = (True, _cfg_large("BinarySelectionConfiguration", lambda n: numpy.arange(n) % 2), W)
    c["cfg.SubsetMateSelectionConfiguration@large"] = (True, _cfg_large("SubsetMateSelectionConfiguration", lambda n: numpy.arange(0, n, 3), mate=True), W)
    for mod, cls, kind, nobj in GA_CLASSES:
        c["opt." + cls + "@large"] = (True, _opt_large(mod, cls, kind, nobj), W)
    c["opt.SteepestDescentSubsetHillClimber@large"] = (True, _opt_large("SteepestDescentSubsetHillClimber", "SteepestDescentSubsetHillClimber", "subset1", 1, ga=False), 0.03)
    c["cmat.apply_jitter@large"] = (False, _jitter_large, W)
    c["embv.from_gmod@large"] = (False, _embv_large, W)
    return c


def is_large(name):
    return name.endswith("@large")


# name -> (accepts an rng argument, callable(rng, v) -> result, weight in random programs)
def components():
    c = {}
    for cls, k in [("TwoWayCross", 2), ("TwoWayDHCross", 2), ("ThreeWayCross", 3), ("ThreeWayDHCross", 3),
                   ("FourWayCross", 4), ("FourWayDHCross", 4), ("SelfCross", 1)]:
        c["mate." + cls] = (True, _mate(cls, k), 3)
    c["pt.G_E_Phenotyping"] = (True, _phenotype, 6)
    c["samp.stochastic_universal_sampling"] = (True, _sus, 4)
    c["samp.tiled_choice"] = (True, _tiled, 4)
    c["samp.axis_shuffle"] = (True, _axis_shuffle, 3)
    c["samp.outcross_shuffle"] = (True, _outcross, 3)
    c["cfg.SubsetSelectionConfiguration"] = (True, _cfg("SubsetSelectionConfiguration", [1, 3, 4, 6, 8]), 3)
    c["cfg.IntegerSelectionConfiguration"] = (True, _cfg("IntegerSelectionConfiguration", [0, 2, 1, 0, 3, 0, 1, 0, 2, 1]), 2)
    c["cfg.RealSelectionConfiguration"] = (True, _cfg("RealSelectionConfiguration", [0.0, 0.2, 0.1, 0.0, 0.3, 0.0, 0.1, 0.0, 0.2, 0.1]), 2)
    c["cfg.BinarySelectionConfiguration"] = (True, _cfg("BinarySelectionConfiguration", [0, 1, 1, 0, 1, 0, 1, 0, 1, 1]), 2)
    c["cfg.SubsetMateSelectionConfiguration"] = (True, _cfg("SubsetMateSelectionConfiguration", [0, 2, 3, 4], mate=True), 2)
    c["opt.SteepestDescentSubsetHillClimber"] = (True, _opt("SteepestDescentSubsetHillClimber", "SteepestDescentSubsetHillClimber", "subset", 1, ga=False), 3)
    c["opt.SortingSubsetOptimizationAlgorithm"] = (False, _opt_det("SortingSubsetOptimizationAlgorithm", "SortingSubsetOptimizationAlgorithm"), 1)
    c["opt.SortingSteepestDescentSubsetHillClimber"] = (False, _opt_det("SortingSteepestDescentSubsetHillClimber", "SortingSteepestDescentSubsetHillClimber"), 1)
    for mod, cls, kind, nobj in [
            ("SubsetGeneticAlgorithm", "SubsetGeneticAlgorithm", "subset", 1),
            ("NSGA2SubsetGeneticAlgorithm", "NSGA2SubsetGeneticAlgorithm", "subset", 2),
            ("NSGA3SubsetGeneticAlgorithm", "NSGA3SubsetGeneticAlgorithm", "subset", 2),
            ("RealGeneticAlgorithm", "RealGeneticAlgorithm", "real", 1),
            ("NSGA2RealGeneticAlgorithm", "NSGA2RealGeneticAlgorithm", "real", 2),
            ("IntegerGeneticAlgorithm", "IntegerGeneticAlgorithm", "integer", 1),
            ("NSGA2IntegerGeneticAlgorithm", "NSGA2IntegerGeneticAlgorithm", "integer", 2),
            ("BinaryGeneticAlgorithm", "BinaryGeneticAlgorithm", "binary", 1),
            ("NSGA2BinaryGeneticAlgorithm", "NSGA2BinaryGeneticAlgorithm", "binary", 2)]:
        c["opt." + cls] = (True, _opt(mod, cls, kind, nobj), 0.25)
    for cls in ("NSGA2SteepestDescentSubsetGeneticAlgorithm", "NSGA2StochasticDescentSubsetGeneticAlgorithm",
                "NSGA2MutatorASubsetGeneticAlgorithm", "NSGA2MutatorBSubsetGeneticAlgorithm"):
        c["opt." + cls] = (True, _opt("NSGA2MemeticSubsetGeneticAlgorithm", cls, "subset", 2), 0.2)
    c["cmat.apply_jitter"] = (False, _jitter, 3)
    c["embv.from_gmod"] = (False, _embv, 3)
    c["sel.EBVSubset.select"] = (True, _select("EBVSubset"), 1)
    c["sel.RandomSubset.select"] = (True, _select("RandomSubset"), 0.5)
    c.update(large_components())
    return c


_COMPS = None


def comps():
    global _COMPS
    if _COMPS is None:
        compat.import_pybrops()
        _COMPS = components()
    return _COMPS


def make_gen(spec):
    """caller-side generator from a JSON spec ["pcg", seed] | ["mt", seed] | ["rs", seed]"""
    kind, s = spec
    if kind == "pcg":
        return numpy.random.Generator(numpy.random.PCG64(int(s)))
    if kind == "mt":
        return numpy.random.Generator(numpy.random.MT19937(int(s)))
    if kind == "rs":
        return numpy.random.RandomState(int(s))
    raise ValueError(kind)


# ------------------------------------------------------------------------------------------------
# measurement of the dependency table (pre_build)
# ------------------------------------------------------------------------------------------------
def _call(name, rng, v=0):
    return dig(comps()[name][1](rng, v))


def attribute_leak(name, v, gen_spec_or_state):
    """re-run one explicit-generator call with recording proxies to find out WHO drew from a global
    stream; the global states are restored afterwards"""
    st_py, st_np = random.getstate(), numpy.random.get_state()
    log = set()
    try:
        g = gen_spec_or_state() if callable(gen_spec_or_state) else make_gen(gen_spec_or_state)
        with TR as tr, traced_global(log):
            tr.begin()
            try:
                comps()[name][1](g, v)
            except Exception:
                pass
            os_s, npfn_s = tr.end()
    finally:
        random.setstate(st_py)
        numpy.random.set_state(st_np)
    sites = sorted(set(npfn_s) | set(os_s) | log)
    return sites


def measure_component(name, tr):
    """small rows are measured at v=0; `@large` rows at both sizes (v=0: 12 000, v=1: 70 000), merged"""
    if not is_large(name):
        return measure_component_at(name, tr, 0)
    if "HillClimber" in name:          # one size only, two calls (O(n) objective evaluations per sweep)
        return measure_component_at(name, tr, 0, light=True)
    a = measure_component_at(name, tr, 0)
    b = measure_component_at(name, tr, 1, light=True)
    for mode in ("glob", "expl"):
        for k in a[mode]:
            a[mode][k] = a[mode][k] or b[mode][k]
    a["osSites"] = sorted(set(a["osSites"]) | set(b["osSites"]))
    a["leakSites"] = sorted(set(a["leakSites"]) | set(b["leakSites"]))
    return a


def measure_component_at(name, tr, v0, light=False):
    import pybrops.core.random.prng as prng
    accepts, fn, _w = comps()[name]
    row = {"name": name, "accepts": accepts}

    def globmode():
        prng.seed(777)
        p0, n0 = py_state(), np_state()
        tr.begin()
        out = _call(name, None, v0)
        os_s, npfn_s = tr.end()
        return out, {"own": False, "py": py_state() != p0, "np": np_state() != n0, "os": bool(os_s)}, os_s

    out1, g1, os1 = globmode()
    if os1 and not all(s_ in known_sites()[0] for s_ in os1):
        # (ii)+(iii): is the acquired OS entropy USED?  Substitute different oracles from identical streams.
        # (numpy.random.RandomState(seed) e.g. acquires OS entropy for a bit generator it re-seeds at once.)
        # Sites that are known findings are never downgraded, so the table of the unchanged tree is stable.
        res = []
        for key in (1, 2, 3):
            tr.oracle, tr._count = key, 0
            try:
                o, _g, _s = globmode()
                res.append((o, py_state(), np_state()))
            finally:
                tr.oracle = None
        if res[0] == res[1] == res[2]:
            os1 = []
            g1["os"] = False
    # (iii) perturbation: a different python stream must not change the result unless `py` is read;
    # identical streams must give identical results unless an unseeded source is read.
    # (meaningless for a component already seen to use OS entropy: its results differ anyway)
    if not g1["os"] and not light:
        prng.seed(777)
        if not g1["py"]:
            random.seed(424242)
        out2 = _call(name, None, v0)
        if out2 != out1:
            prng.seed(777)
            out3 = _call(name, None, v0)
            if out3 != out1:
                os1 = ["os:unattributed-nondeterminism:" + name]
                g1["os"] = True
            else:
                g1["py"] = True
    row["glob"] = g1
    os_all = set(os1)
    leak = []
    if accepts:
        def explmode(seed_glob):
            prng.seed(seed_glob)
            own = make_gen(["pcg", 4242])
            p0, n0, o0 = py_state(), np_state(), gen_state(own)
            tr.begin()
            out = _call(name, own, v0)
            os_s, npfn_s = tr.end()
            return out, {"own": gen_state(own) != o0, "py": py_state() != p0, "np": np_state() != n0,
                         "os": bool(os_s)}, os_s

        e_out1, e1, eos1 = explmode(777)
        e_out2, e2, eos2 = (e_out1, e1, eos1) if light else explmode(31337)   # other global streams, same own generator
        os_all |= set(eos1) | set(eos2)
        if e_out2 != e_out1 and not (e1["py"] or e1["np"] or e1["os"]):
            # result depends on a global stream that was read without being advanced
            e1["np"] = True
        row["expl"] = e1
        if e1["py"] or e1["np"] or e1["os"]:
            leak = attribute_leak(name, v0, ["pcg", 4242]) or ["unattributed:" + name]
    else:
        row["expl"] = dict(g1)
    row["osSites"] = sorted(os_all)
    row["leakSites"] = leak
    return row


def measure_spawn(n=2, name="prng.spawn"):
    import pybrops.core.random.prng as prng
    with TR as tr:
        prng.seed(777)
        p0, n0 = py_state(), np_state()
        tr.begin()
        gens = prng.spawn(n)
        os_s, _ = tr.end()
        a = [gen_state(g) for g in gens]
        g = {"own": False, "py": py_state() != p0, "np": np_state() != n0, "os": bool(os_s)}
        prng.seed(777)
        b = [gen_state(x) for x in prng.spawn(n)]
        if a != b and not os_s:
            os_s = ["os:unattributed-nondeterminism:prng.spawn"]
            g["os"] = True
    return {"name": name, "accepts": False, "glob": g, "expl": dict(g), "osSites": sorted(os_s), "leakSites": []}


def warm_up():
    """first calls import modules lazily (scipy.stats draws from an OS-seeded generator at import time):
    run everything once before anything is observed"""
    fixtures()
    st_py, st_np = random.getstate(), numpy.random.get_state()
    for name, (accepts, fn, _w) in comps().items():
        if is_large(name):
            continue
        fn(None, 0)
        if accepts:
            fn(make_gen(["rs", 1]), 1)
    prepare_large()
    random.setstate(st_py)
    numpy.random.set_state(st_np)


_WARM = False


def measure_table():
    global _WARM
    if not _WARM:
        warm_up()
        _WARM = True
    rows = [measure_spawn(), measure_spawn(300, "prng.spawn@large")]
    with TR as tr:
        for name in comps():
            rows.append(measure_component(name, tr))
    return rows


def known_sites():
    """`via` tokens of the C08 lines of KNOWN_FINDINGS.txt"""
    os_k, leak_k = [], []
    for f in findings.load("C08"):
        via = f["match"].get("via", "")
        toks = [t for t in via.split("+") if t]
        if f["match"].get("cond") == "unseeded_entropy":
            os_k += toks
        if f["match"].get("cond") == "explicit_rng_not_isolated":
            leak_k += toks
            os_k += [t for t in toks if t.startswith("os:")]
    return sorted(set(os_k)), sorted(set(leak_k))


def _lean_str(s):
    return json.dumps(s, ensure_ascii=True)


def _lean_list(xs):
    return "[" + ", ".join(_lean_str(x) for x in xs) + "]"


def _lean_obs(o):
    b = lambda x: "true" if x else "false"
    return f"⟨{b(o['own'])}, {b(o['py'])}, {b(o['np'])}, {b(o['os'])}⟩"


def render_table(rows, os_k, leak_k):
    out = ["/- GENERATED by harness/props/c08.py (pre_build) from measurements on the working tree of /repo.",
           "   Do not edit: every `./check C08` run rewrites this file when the measurement changes.",
           "   Row = component, has-rng-parameter, streams touched with rng=None ⟨own, py, np, os⟩, streams touched",
           "   with an explicit generator, OS-entropy call sites, global-stream leak sites with an explicit generator.",
           "   knownOsSites / knownLeakSites come from the `finding:` lines of KNOWN_FINDINGS.txt. -/",
           "import PybropsModel.Model.Prng", "", "namespace C08Deps", "open Prng", "", "def table : List Row := ["]
    lines = []
    for r in rows:
        lines.append(f"  {{ name := {_lean_str(r['name'])}, accepts := {'true' if r['accepts'] else 'false'}, "
                     f"glob := {_lean_obs(r['glob'])}, expl := {_lean_obs(r['expl'])}, "
                     f"osSites := {_lean_list(r['osSites'])}, leakSites := {_lean_list(r['leakSites'])} }}")
    out.append(",\n".join(lines))
    out += ["]", "", f"def knownOsSites : List String := {_lean_list(os_k)}",
            f"def knownLeakSites : List String := {_lean_list(leak_k)}", "", "end C08Deps", ""]
    return "\n".join(out)


def row_deps(r):
    if r["accepts"]:
        e = r["expl"]
        return {"rng": e["own"], "py": e["py"], "np": e["np"], "os": e["os"]}
    g = r["glob"]
    return {"rng": False, "py": g["py"], "np": g["np"], "os": g["os"]}


# ------------------------------------------------------------------------------------------------
# program execution (implementation side)
# ------------------------------------------------------------------------------------------------
def run_pre(ops):
    """an arbitrary prior interpreter history"""
    import pybrops.core.random.prng as prng
    for op in ops:
        k = op[0]
        if k == "py":
            for _ in range(op[1]):
                random.random()
        elif k == "np":
            numpy.random.random(op[1])
        elif k == "normal":
            numpy.random.standard_normal(op[1])      # leaves a cached gaussian behind when odd
        elif k == "seed":
            prng.seed(op[1])
        elif k == "npseed":
            numpy.random.seed(op[1])
        elif k == "pyseed":
            random.seed(op[1])
        elif k == "osgen":
            numpy.random.default_rng().random(3)
        elif k == "spawn":
            prng.spawn(op[1])
        elif k == "call":
            comps()[op[1]][1](None, op[2])
        else:
            raise ValueError(op)


def exec_program(case, which, tr):
    import pybrops.core.random.prng as prng
    run_pre(case["pre_" + which])
    ext = [make_gen(s) for s in case.get("ext", [])]
    spawned = []
    steps = []
    start = {"py": py_state(), "np": np_state()}
    for op in case["prog"]:
        p0, n0 = py_state(), np_state()
        g0 = [gen_state(g) for g in ext] + [gen_state(g) for g in spawned]
        rec = {"py0": p0, "np0": n0}
        clone = rng = None
        if "c" in op and op["rng"] != "glob":
            rng = ext[op["rng"][1]] if op["rng"][0] == "ext" else spawned[op["rng"][1]]
            clone = copy.deepcopy(rng)      # (unpickling a RandomState acquires OS entropy: keep it out of the window)
        tr.begin()
        if "seed" in op:
            prng.seed(op["seed"])
            spawned = []
            out = "seeded"
        elif "spawn" in op:
            new = prng.spawn(op["spawn"])
            out = dig([gen_state(g) for g in new])
            spawned = spawned + list(new)
        else:
            out = dig(comps()[op["c"]][1](rng, op.get("v", 0)))
        os_s, npfn_s = tr.end()
        p1, n1 = py_state(), np_state()
        names = [f"ext{i}" for i in range(len(ext))] + [f"spawned{i}" for i in range(len(spawned))]
        g1 = [gen_state(g) for g in ext] + [gen_state(g) for g in spawned]
        # (an OS-entropy acquisition is recorded in os_sites but is not counted as "touched": it may be inert)
        touched = (["py"] if p1 != p0 else []) + (["np"] if n1 != n0 else [])
        if "seed" in op:
            touched = ["py", "np"]
        for i, nm in enumerate(names):
            if i >= len(g0) or g0[i] != g1[i]:
                touched.append(nm)
        rec.update({"out": out, "py1": p1, "np1": n1, "gens": dig(g1), "touched": touched, "os_sites": os_s,
                    "npfn_sites": npfn_s})
        if clone is not None and (p1 != p0 or n1 != n0 or os_s):
            # an explicit generator was supplied and a global stream / the OS was used: find out who did it
            c = clone
            rec["leak_sites"] = attribute_leak(op["c"], op.get("v", 0), lambda: copy.deepcopy(c)) or ["unattributed:" + op["c"]]
        steps.append(rec)
    return {"start": start, "steps": steps}


# ------------------------------------------------------------------------------------------------
# the property module
# ------------------------------------------------------------------------------------------------
class C08(Prop):
    PID = "C08"
    MODULE = "PybropsModel.Props.C08"
    N_QUICK = 300
    N_THOROUGH = 3000
    CORRESPONDENCE = "relational"
    RULE = ("programs of 1-8 stochastic API calls (7 mating protocols, phenotyping, 4 samplers, 5 sampled selection "
            "configurations, 12 optimisers, apply_jitter, EMBV matrix, an EBV select(), spawn, mid-program seed) with "
            "rng=None / a spawned generator / a caller generator (PCG64, MT19937 Generator or RandomState), executed "
            "twice in-process after two different random prior histories (draws, foreign seeds, component calls, "
            "OS-seeded generators, cached gaussians); kind `repro` re-seeds with the same seed, kind `isolated` does "
            "not seed and only hands over caller generators.  Non-trivial = the two executions start from different "
            "python AND numpy global states and the program makes >= 2 stochastic calls (repro) / >= 1 (isolated)")
    TRUSTED = ["the dependency table is measured (state snapshots of random / numpy.random / the generator handed in, "
               "interception of os.urandom and numpy.random.<fn>, perturbation runs) on the explored calls only",
               "sha1 digests of canonical bytes stand for bit-identity of results and generator states",
               "hash randomisation, thread scheduling, BLAS non-determinism are outside the model"]
    ASSUMPTIONS = ["components are constructed afresh for every call (protocol counters are not part of the property)",
                   "seed(None) (seeding from the OS) is out of scope: the property quantifies over given seeds",
                   "a program names caller generators by construction seed and spawned generators by index since the last seed()"]

    def __init__(self):
        self._table = None
        self._measure_s = None

    # ------------------------------------------------------------------ regenerated Lean
    def pre_build(self):
        t0 = time.time()
        try:
            rows = measure_table()
        except Exception as e:      # the measurement itself broke: treated as a broken obligation
            import traceback
            return False, f"measurement failed: {type(e).__name__}: {e} {traceback.format_exc()[-600:]}"
        self._table = rows
        os_k, leak_k = known_sites()
        text = render_table(rows, os_k, leak_k)
        old = open(GEN_FILE).read() if os.path.exists(GEN_FILE) else None
        if old != text:
            os.makedirs(os.path.dirname(GEN_FILE), exist_ok=True)
            with bridge.Lock():
                with open(GEN_FILE, "w") as f:
                    f.write(text)
        self._measure_s = round(time.time() - t0, 2)
        return True, ""

    def table(self):
        if self._table is None:
            self._table = measure_table()
        return self._table

    # ------------------------------------------------------------------ cases
    def _valid(self, case):
        nsp = 0
        for op in case["prog"]:
            if "seed" in op:
                nsp = 0
            elif "spawn" in op:
                nsp += op["spawn"]
            else:
                if op["c"] not in comps():
                    return False
                a = op["rng"]
                if a != "glob":
                    if not comps()[op["c"]][0]:
                        return False
                    if a[0] == "ext" and a[1] >= len(case.get("ext", [])):
                        return False
                    if a[0] == "spawned" and a[1] >= nsp:
                        return False
        return True

    def corpus(self):
        out = [{"kind": "table"}]
        pre_a = [["seed", 1], ["py", 3], ["np", 5]]
        pre_b = [["npseed", 99], ["normal", 3], ["py", 1], ["osgen", 1]]
        names = list(comps())
        # every component once with rng=None after a re-seed (this is also the replay of a failing
        # `table_unseeded_known` obligation: run the offending component twice)
        for i, n in enumerate(names):
            out.append({"kind": "repro", "pre_a": pre_a, "pre_b": pre_b, "ext": [],
                        "prog": [{"seed": 12345}, {"c": n, "rng": "glob", "v": 0}, {"c": n, "rng": "glob", "v": 1}]})
        out.append({"kind": "repro", "pre_a": pre_a, "pre_b": [["spawn", 2]], "ext": [],
                    "prog": [{"seed": 4}, {"spawn": 300}, {"c": "samp.tiled_choice", "rng": ["spawned", 299], "v": 0}]})
        # every component that has an rng parameter once with a caller generator and no seeding
        for i, n in enumerate(names):
            if comps()[n][0]:
                prog = [{"c": n, "rng": ["ext", 0], "v": 0}, {"c": n, "rng": ["ext", 0], "v": 1}]
                out.append({"kind": "isolated", "pre_a": [["seed", 5], ["np", 2]], "pre_b": [["seed", 6], ["py", 4]],
                            "ext": [[["pcg", "mt", "rs"][i % 3], 7 + i]], "prog": prog[1:] if is_large(n) else prog})
        # spawn: streams, splitting, use of spawned streams, mid-program re-seed
        out.append({"kind": "repro", "pre_a": [], "pre_b": [["py", 7], ["spawn", 3]], "ext": [],
                    "prog": [{"seed": 0}, {"spawn": 0}, {"spawn": 3}, {"c": "mate.TwoWayCross", "rng": ["spawned", 2], "v": 0},
                             {"c": "pt.G_E_Phenotyping", "rng": ["spawned", 0], "v": 1}, {"seed": 2 ** 32 + 5},
                             {"spawn": 1}, {"c": "samp.tiled_choice", "rng": ["spawned", 0], "v": 2}]})
        # D12 with all three kinds of caller generator, D11 / D11b
        for k in ("pcg", "mt", "rs"):
            out.append({"kind": "isolated", "pre_a": [["seed", 11]], "pre_b": [["seed", 12], ["np", 1]], "ext": [[k, 7]],
                        "prog": [{"c": "sel.EBVSubset.select", "rng": ["ext", 0], "v": 0}]})
        out.append({"kind": "repro", "pre_a": [["seed", 3]], "pre_b": [["seed", 4]], "ext": [],
                    "prog": [{"seed": 12345}, {"c": "opt.SubsetGeneticAlgorithm", "rng": "glob", "v": 0}]})
        out.append({"kind": "isolated", "pre_a": [["seed", 3]], "pre_b": [["seed", 4]], "ext": [["pcg", 1]],
                    "prog": [{"c": "opt.SubsetGeneticAlgorithm", "rng": ["ext", 0], "v": 0}]})
        return out

    def exhaustive(self, tier):
        """thorough tier: every component x every way of passing a generator (a finite space)"""
        if tier != "thorough":
            return None
        out = []
        for n, (accepts, _f, _w) in comps().items():
            for v in (0, 1, 2):
                out.append({"kind": "repro", "pre_a": [["np", 1]], "pre_b": [["pyseed", 4], ["normal", 1]], "ext": [],
                            "prog": [{"seed": 7 + v}, {"c": n, "rng": "glob", "v": v}]})
            if accepts:
                for k in ("pcg", "mt", "rs"):
                    out.append({"kind": "isolated", "pre_a": [["seed", 1]], "pre_b": [["seed", 2], ["normal", 1]],
                                "ext": [[k, 99]], "prog": [{"c": n, "rng": ["ext", 0], "v": 1}]})
                    out.append({"kind": "repro", "pre_a": [["seed", 1]], "pre_b": [["osgen", 1]], "ext": [[k, 98]],
                                "prog": [{"seed": 3}, {"spawn": 2}, {"c": n, "rng": ["spawned", 1], "v": 2},
                                         {"c": n, "rng": ["ext", 0], "v": 0}]})
        return out

    def _pre(self, rng):
        ops = []
        for _ in range(rng.randint(1, 5)):
            r = rng.random()
            if r < 0.2:
                ops.append(["py", rng.randint(1, 9)])
            elif r < 0.4:
                ops.append(["np", rng.randint(1, 9)])
            elif r < 0.5:
                ops.append(["normal", rng.choice([1, 3, 5])])
            elif r < 0.62:
                ops.append(["seed", rng.randint(0, 2 ** 40)])
            elif r < 0.7:
                ops.append(["npseed", rng.randint(0, 2 ** 32 - 1)])
            elif r < 0.78:
                ops.append(["pyseed", rng.randint(0, 2 ** 40)])
            elif r < 0.84:
                ops.append(["osgen", 1])
            elif r < 0.9:
                ops.append(["spawn", rng.randint(1, 3)])
            else:
                cheap = [n for n in comps() if not n.startswith("opt.") and not n.startswith("sel.") and not is_large(n)]
                ops.append(["call", rng.choice(cheap), rng.randint(0, 2)])
        return ops

    def generate(self, rng, n, tier):
        names = list(comps())
        weights = [comps()[x][2] for x in names]
        acc = [x for x in names if comps()[x][0]]
        acc_w = [comps()[x][2] for x in acc]
        out = []
        for _ in range(n):
            kind = "isolated" if rng.random() < 0.3 else "repro"
            next_ = rng.randint(1, 2) if rng.random() < 0.6 else 0
            ext = [[rng.choice(["pcg", "mt", "rs"]), rng.randint(0, 2 ** 31)] for _ in range(next_)]
            prog = []
            nsp = 0
            if kind == "repro":
                prog.append({"seed": rng.choice([0, 1, 12345, 2 ** 32 - 1, 2 ** 32, rng.randint(0, 2 ** 63)])})
                for _ in range(rng.randint(2, 7)):
                    r = rng.random()
                    if r < 0.15:
                        k = rng.randint(0, 3)
                        prog.append({"spawn": k})
                        nsp += k
                    elif r < 0.2:
                        prog.append({"seed": rng.randint(0, 2 ** 34)})
                        nsp = 0
                    else:
                        c = rng.choices(names, weights)[0]
                        arg = "glob"
                        if comps()[c][0]:
                            q = rng.random()
                            if q < 0.3 and nsp:
                                arg = ["spawned", rng.randrange(nsp)]
                            elif q < 0.55 and ext:
                                arg = ["ext", rng.randrange(len(ext))]
                        prog.append({"c": c, "rng": arg, "v": rng.randint(0, 2)})
            else:
                if not ext:
                    ext = [[rng.choice(["pcg", "mt", "rs"]), rng.randint(0, 2 ** 31)]]
                for _ in range(rng.randint(1, 5)):
                    c = rng.choices(acc, acc_w)[0]
                    prog.append({"c": c, "rng": ["ext", rng.randrange(len(ext))], "v": rng.randint(0, 2)})
            pre_a, pre_b = self._pre(rng), self._pre(rng)
            if kind == "isolated":          # make sure the global streams differ between the executions
                pre_a.append(["seed", rng.randint(0, 2 ** 30)])
                pre_b.append(["seed", 2 ** 31 + rng.randint(0, 2 ** 30)])
                if rng.random() < 0.5:
                    pre_b.append(["np", 1])
            out.append({"kind": kind, "pre_a": pre_a, "pre_b": pre_b, "ext": ext, "prog": prog})
        return out

    # ------------------------------------------------------------------ implementation
    def run_impl(self, case):
        global _WARM
        if not _WARM:
            warm_up()
            _WARM = True
        if case["kind"] == "table":
            return {"rows": [{"name": r["name"], "accepts": r["accepts"], "deps": row_deps(r), "osSites": r["osSites"],
                              "leakSites": r["leakSites"]} for r in self.table()]}
        if not self._valid(case):
            raise ValueError("ill-formed program (generator/shrinker bug)")
        st_py, st_np = random.getstate(), numpy.random.get_state()
        try:
            with TR as tr:
                a = exec_program(case, "a", tr)
                b = exec_program(case, "b", tr)
        finally:
            random.setstate(st_py)
            numpy.random.set_state(st_np)
        return {"A": a, "B": b}

    # ------------------------------------------------------------------ model / Spec requests
    def requests(self, case, obs):
        if case["kind"] == "table":
            return [{"op": "c08.table"}]
        reqs = [{"op": "c08.predict", "prog": [self._model_op(op) for op in case["prog"]], "n_ext": len(case.get("ext", []))}]
        sa, sb = obs["A"]["steps"], obs["B"]["steps"]
        if case["kind"] == "repro":
            reqs.append({"op": "c08.spec_repro", "a": [s["out"] for s in sa], "b": [s["out"] for s in sb]})
        for op, x, y in zip(case["prog"], sa, sb):
            if "c" in op and op["rng"] != "glob":
                iso = lambda s: {"py0": s["py0"], "py1": s["py1"], "np0": s["np0"], "np1": s["np1"], "out": s["out"]}
                reqs.append({"op": "c08.spec_isolated", "a": iso(x), "b": iso(y), "same_generator": True})
        return reqs

    @staticmethod
    def _model_op(op):
        if "seed" in op:
            return {"seed": op["seed"]}
        if "spawn" in op:
            return {"spawn": op["spawn"]}
        return {"c": op["c"], "rng": op["rng"]}

    def judge(self, case, obs, answers):
        for a in answers:
            if "err" in a:
                raise RuntimeError("driver error: " + a["err"])
        if case["kind"] == "table":
            t = answers[0]["ok"]
            mine = obs["rows"]
            theirs = [{k: r[k] for k in ("name", "accepts", "deps", "osSites", "leakSites")} for r in t["rows"]]
            corr = mine == theirs
            bad = [r["name"] for r in t["rows"] if not (r["consistent"] and r["unseeded_known"] and r["leaks_known"])]
            return {"corr": corr, "spec": True, "nontrivial": False,
                    "detail": f"compiled table {'==' if corr else '!='} measured table ({len(mine)} rows); rows failing a table obligation: {bad}"}
        pred = answers[0]["ok"]
        sa, sb = obs["A"]["steps"], obs["B"]["steps"]
        notes = []
        corr = pred["complete"] and len(pred["steps"]) == len(sa) == len(sb)
        if not corr:
            notes.append("model could not run the program")
        else:
            for i, (p, x, y) in enumerate(zip(pred["steps"], sa, sb)):
                for t in (x, y):
                    extra = [s for s in t["touched"] if s not in p["touched"]]
                    if extra:
                        corr = False
                        notes.append(f"step {i}: advances {extra}, table says {p['touched']}")
                for flag, key in (("eq_out", "out"), ("eq_py", "py1"), ("eq_np", "np1"), ("eq_gens", "gens")):
                    if p[flag] and x[key] != y[key]:
                        corr = False
                        notes.append(f"step {i}: {key} differs between the executions, model says equal")
        # Spec on the implementation's observations (evaluated by the driver)
        fails = self._spec_failures(case, obs, answers)
        spec = not fails
        starts_differ = obs["A"]["start"]["py"] != obs["B"]["start"]["py"] and obs["A"]["start"]["np"] != obs["B"]["start"]["np"]
        ncalls = sum(1 for op in case["prog"] if "c" in op or "spawn" in op)
        nontriv = starts_differ and ncalls >= (2 if case["kind"] == "repro" else 1)
        return {"corr": corr, "spec": spec, "nontrivial": nontriv, "fails": fails,
                "detail": f"{case['kind']} spec_failures={fails[:3]} correspondence={notes[:3]}"}

    def _spec_failures(self, case, obs, answers):
        """[(step, clause, detail)] — clause 'isolated' (explicit generator: globals touched / result not a
        function of the generator) or 'repro' (outputs of the two executions differ)"""
        fails = []
        k = 1
        first_diff = None
        if case["kind"] == "repro":
            r = answers[k]["ok"]
            k += 1
            if not r["ok"]:
                first_diff = r["first_diff"] if r["first_diff"] is not None else 0
        for i, op in enumerate(case["prog"]):
            if "c" in op and op["rng"] != "glob":
                r = answers[k]["ok"]
                k += 1
                if not r["ok"]:
                    fails.append([i, "isolated", r["detail"]])
        if first_diff is not None:
            fails.append([first_diff, "repro", "outputs differ after re-seeding"])
        fails.sort(key=lambda f: (f[0], 0 if f[1] == "isolated" else 1))
        return fails

    # ------------------------------------------------------------------ findings matcher
    def signature(self, case, obs, verdict):
        sig = {"kind": case.get("kind")}
        fails = verdict.get("fails") if isinstance(verdict, dict) else None
        if not fails or not isinstance(obs, dict) or "A" not in obs:
            return sig
        i, clause, _ = fails[0]
        op = case["prog"][i]
        sig["component"] = op.get("c", "spawn" if "spawn" in op else "seed")
        steps = [obs["A"]["steps"], obs["B"]["steps"]]
        if clause == "isolated":
            sites = set()
            for st in steps:
                sites |= set(st[i].get("leak_sites", []))
                sites |= set(st[i].get("os_sites", []))
            touched = any(st[i]["py0"] != st[i]["py1"] or st[i]["np0"] != st[i]["np1"] for st in steps)
            sig["cond"] = "explicit_rng_not_isolated"
            sig["via"] = "+".join(sorted(sites)) if sites else ("unattributed" if touched else "result_depends_on_global_state")
        else:
            # entropy acquired by the first divergent step itself; earlier steps only if it acquired none
            sites = set()
            for st in steps:
                sites |= set(st[i].get("os_sites", []))
            if not sites:
                for st in steps:
                    for j in range(i):
                        sites |= set(st[j].get("os_sites", []))
            sig["cond"] = "unseeded_entropy"
            sig["via"] = "+".join(sorted(sites)) if sites else "no_os_read_observed"
        return sig

    # ------------------------------------------------------------------ shrinking
    def shrink(self, case):
        if case.get("kind") not in ("repro", "isolated"):
            return
        prog = case["prog"]
        for i in range(len(prog)):
            if len(prog) > 1 and not (i == 0 and case["kind"] == "repro"):
                c = dict(case)
                c["prog"] = prog[:i] + prog[i + 1:]
                if self._valid(c):
                    yield c
        for key in ("pre_a", "pre_b"):
            for i in range(len(case[key])):
                if case["kind"] == "isolated" and case[key][i][0] == "seed" and i == len(case[key]) - 1:
                    continue
                c = dict(case)
                c[key] = case[key][:i] + case[key][i + 1:]
                yield c
        for i, op in enumerate(prog):
            if op.get("v"):
                c = dict(case)
                c["prog"] = prog[:i] + [dict(op, v=0)] + prog[i + 1:]
                yield c

    # ------------------------------------------------------------------ self-test mutants
    def mutants(self):
        compat.import_pybrops()
        import pybrops.core.random.prng as prng
        import pybrops.core.random.sampling as sampling
        import pybrops.breed.prot.mate.util as mutil
        import pybrops.breed.prot.pt.G_E_Phenotyping as gep
        import pybrops.opt.algo.pymoo_addon as addon
        import pybrops.opt.algo.SteepestDescentSubsetHillClimber as hc
        import pybrops.breed.prot.sel.cfg.SubsetSelectionConfiguration as ssc
        prop = self

        @contextlib.contextmanager
        def patch(obj, name, new):
            old = getattr(obj, name)
            setattr(obj, name, new)
            try:
                yield
            finally:
                setattr(obj, name, old)

        import random as py_random

        def seed_py_only(s=None):                       # mechanism 1: seed() without re-seeding numpy
            py_random.seed(s)

        def seed_numpy_from_os(s=None):                 # mechanism 1: numpy re-seeded, but from the OS
            py_random.seed(s)
            numpy.random.seed()

        def spawn_from_os(n=None, BitGenerator=numpy.random.PCG64, sbits=64):   # mechanism 2
            if n is None:
                return numpy.random.Generator(BitGenerator())
            return [numpy.random.Generator(BitGenerator()) for _ in range(n)]

        def spawn_from_numpy(n=None, BitGenerator=numpy.random.PCG64, sbits=64):
            # still reproducible, but no longer the measured dependency set {py}: correspondence must flag it
            f = lambda: numpy.random.Generator(BitGenerator(int(_RAND.randint(0, 2 ** 31 - 1))))
            return f() if n is None else [f() for _ in range(n)]

        orig_meiosis = mutil.mat_meiosis

        def meiosis_ignores_rng(geno, sel, xoprob, rng):        # mechanism 3: component ignores self.rng
            return orig_meiosis(geno, sel, xoprob, prng.global_prng)

        orig_pheno = gep.G_E_Phenotyping.phenotype

        def pheno_default_rng(self, pgmat, miscout=None, **kw):  # mechanism 3: default_rng() inside a component
            old = self._rng
            self._rng = numpy.random.default_rng()
            try:
                return orig_pheno(self, pgmat, miscout, **kw)
            finally:
                self._rng = old

        orig_sus = sampling.stochastic_universal_sampling

        def sus_ignores_rng(a, p, size=None, rng=None):          # mechanism 3: sampler ignores its rng
            return orig_sus(a, p, size, None)

        orig_tiled = sampling.tiled_choice

        def tiled_time_seeded(a, size=None, replace=True, p=None, rng=None):   # mechanism 3: clock-derived seed
            return orig_tiled(a, size, replace, p, numpy.random.RandomState(time.perf_counter_ns() % (2 ** 32)))

        orig_sampling_do = addon.SubsetRandomSampling._do

        def sampling_default_rng(self, problem, n_samples, **kw):   # mechanism 4: custom pymoo operator reads the OS
            g = numpy.random.default_rng()
            out = numpy.empty((n_samples, problem.n_var), dtype=self._setspace.dtype)
            for i in range(n_samples):
                out[i, :] = g.choice(self._setspace, problem.n_var, replace=self._replace)
            return out

        def sampling_default_rng_large(self, problem, n_samples, **kw):   # size-gated: only set spaces > 10 000
            if len(self._setspace) <= 10000:
                return orig_sampling_do(self, problem, n_samples, **kw)
            return sampling_default_rng(self, problem, n_samples, **kw)

        def meiosis_fresh_generator_large(geno, sel, xoprob, rng):        # size-gated: only > 4096 gametes
            if len(sel) > 4096:
                rng = numpy.random.default_rng()
            return orig_meiosis(geno, sel, xoprob, rng)

        def tiled_default_rng_large(a, size=None, replace=True, p=None, rng=None):   # size-gated: > 2**16 draws
            if numpy.prod(size) > 65536:
                rng = numpy.random.default_rng()
            return orig_tiled(a, size, replace, p, rng)

        def spawn_from_os_large(n=None, BitGenerator=numpy.random.PCG64, sbits=64):    # size-gated: > 64 streams
            if n is not None and n > 64:
                return spawn_from_os(n, BitGenerator, sbits)
            return orig_spawn(n, BitGenerator, sbits)

        orig_spawn = prng.spawn
        orig_min = hc.SteepestDescentSubsetHillClimber.minimize

        def hillclimber_global(self, prob, miscout=None, **kw):  # D12 matcher must stay narrow
            old = self._rng
            self._rng = prng.global_prng
            try:
                return orig_min(self, prob, miscout, **kw)
            finally:
                self._rng = old

        return [
            ("seed_without_numpy", lambda: patch(prng, "seed", seed_py_only)),
            ("seed_numpy_from_os", lambda: patch(prng, "seed", seed_numpy_from_os)),
            ("spawn_from_os_entropy", lambda: patch(prng, "spawn", spawn_from_os)),
            ("spawn_from_numpy_global", lambda: patch(prng, "spawn", spawn_from_numpy)),
            ("mating_ignores_rng", lambda: patch(mutil, "mat_meiosis", meiosis_ignores_rng)),
            ("phenotyping_default_rng", lambda: patch(gep.G_E_Phenotyping, "phenotype", pheno_default_rng)),
            ("sus_ignores_rng", lambda: patch(sampling, "stochastic_universal_sampling", sus_ignores_rng)),
            ("tiled_choice_clock_seeded", lambda: patch(ssc, "tiled_choice", tiled_time_seeded)),
            ("pymoo_sampling_default_rng", lambda: patch(addon.SubsetRandomSampling, "_do", sampling_default_rng)),
            ("pymoo_sampling_default_rng_above_10000", lambda: patch(addon.SubsetRandomSampling, "_do", sampling_default_rng_large)),
            ("meiosis_fresh_generator_above_4096_gametes", lambda: patch(mutil, "mat_meiosis", meiosis_fresh_generator_large)),
            ("tiled_choice_default_rng_above_65536_draws", lambda: patch(sampling, "tiled_choice", tiled_default_rng_large)),
            ("spawn_from_os_above_64_streams", lambda: patch(prng, "spawn", spawn_from_os_large)),
            ("hillclimber_uses_global_in_select", lambda: patch(hc.SteepestDescentSubsetHillClimber, "minimize", hillclimber_global)),
        ]


PROP = C08()
