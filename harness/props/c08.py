"""C08 — seeded runs are reproducible, explicit generators are isolated.

What happens here.

1. `pre_build()` MEASURES, on the working tree, the dependency set of every stochastic API component
   (which of: python `random`, numpy global `RandomState`, the generator handed in, OS entropy it
   touches with `rng=None` and with an explicit generator; for classes of long-lived objects also what the
   constructor / `rng` setter touches and the fifth source `cached`: a method call after `seed(s)` depends on
   private state the object acquired before the re-seeding) and writes the table to
   `lean/PybropsModel/Generated/C08Deps.lean`.  It also scans the AST of EVERY pybrops module for calls of
   numpy.random.* / random.* / default_rng() / SeedSequence() / os.urandom / clocks / uses of global_prng, records
   (sys.monitoring) which measured component executes the enclosing function, and writes
   `Generated/C08Static.lean`.  `Props/C08.lean` has obligations over both tables that are closed by `decide`;
   they stop compiling when a component starts reading an unseeded source, stops honouring its `rng`
   argument, caches generator-derived state, or when a new global / OS / clock reader appears anywhere
   (other than through a `finding:` line of KNOWN_FINDINGS.txt).
2. Cases are *programs* of stochastic API calls, including long-lived objects (`new` / `use` / `setrng` / `copy`) built
   in a set-up before the re-seeding; kind `xproc` runs one seeded program here and in a fresh interpreter process.  `run_impl` executes each program twice in this process after two different
   prior histories — with `share` the second execution CONTINUES with the objects of the first — and records, per
   step, digests of the result, of both global streams and of every live generator, plus where OS entropy was
   acquired.  Input arrays are long-lived too (one array object per argument, restored between cases).
3. The Lean driver predicts from the compiled table which streams each step advances and which
   observables must coincide (`c08.predict`, correspondence), evaluates the property's Spec on the
   implementation's digests (`c08.spec_repro`, `c08.spec_isolated`), and runs the literal model of
   `seed()` / `spawn()` on primitives recorded from the standard library (`c08.prim_run`).
"""
import ast
import contextlib
import copy
import hashlib
import json
import os
import random
import sys
import time

import numpy

from .. import bridge, canon, compat, findings
from ..core import Prop

compat.install()

GEN_FILE = os.path.join(bridge.LEAN, "PybropsModel", "Generated", "C08Deps.lean")
STATIC_FILE = os.path.join(bridge.LEAN, "PybropsModel", "Generated", "C08Static.lean")
_RAND = numpy.random.mtrand._rand          # numpy's legacy global RandomState (= pybrops global_prng)


# ------------------------------------------------------------------------------------------------
# digests
# ------------------------------------------------------------------------------------------------
def _feed(h, x):
    if x is None:
        h.update(b"N")
    elif isinstance(x, (bool, numpy.bool_)):
        h.update(b"b1" if x else b"b0")
    elif isinstance(x, (int, numpy.integer)):
        h.update(b"i" + str(int(x)).encode())
    elif isinstance(x, (float, numpy.floating)):
        h.update(b"f" + float(x).hex().encode())
    elif isinstance(x, (str, numpy.str_)):
        h.update(b"s" + str(x).encode("utf-8", "replace"))
    elif isinstance(x, bytes):
        h.update(b"y" + x)
    elif isinstance(x, numpy.ndarray):
        if x.dtype == object:
            h.update(b"O" + str(x.shape).encode())
            for v in x.ravel():
                _feed(h, v)
        else:
            h.update(b"A" + str(x.dtype).encode() + str(x.shape).encode())
            h.update(numpy.ascontiguousarray(x).tobytes())
    elif isinstance(x, (list, tuple)):
        h.update(b"L" + str(len(x)).encode())
        for v in x:
            _feed(h, v)
    elif isinstance(x, dict):
        h.update(b"D")
        for k in sorted(x, key=str):
            _feed(h, str(k))
            _feed(h, x[k])
    elif hasattr(x, "to_numpy") and hasattr(x, "columns"):      # pandas.DataFrame
        h.update(b"P")
        for c in x.columns:
            _feed(h, str(c))
            _feed(h, x[c].to_numpy())
    else:
        raise TypeError(f"cannot digest {type(x)}")


def dig(x):
    h = hashlib.sha1()
    _feed(h, x)
    return h.hexdigest()[:16]


def py_state():
    """digest of the `random` module's state (version, 625 words, cached gaussian); the words through one numpy buffer:
    this is called four times per program step"""
    st = random.getstate()
    try:
        h = hashlib.sha1()
        h.update(str(st[0]).encode())
        h.update(numpy.array(st[1], dtype=numpy.uint64).tobytes())
        h.update(repr(st[2]).encode())
        return h.hexdigest()[:16]
    except Exception:
        return dig(st)


def _rs_state(rs):
    d = rs.get_state(legacy=False)
    try:
        h = hashlib.sha1()
        h.update(d["bit_generator"].encode())
        h.update(d["state"]["key"].tobytes())
        h.update(str(d["state"]["pos"]).encode())
        h.update(str(d["has_gauss"]).encode())
        h.update(float(d["gauss"]).hex().encode())
        return h.hexdigest()[:16]
    except Exception:
        return dig(d)


def np_state():
    """digest of numpy's legacy global RandomState (key, position, cached gaussian)"""
    return _rs_state(_RAND)


def gen_state(g):
    if isinstance(g, numpy.random.RandomState):
        return _rs_state(g)
    return dig(g.bit_generator.state)


# ------------------------------------------------------------------------------------------------
# entropy tracer: where is OS entropy acquired, who calls numpy.random.<fn> module functions
# ------------------------------------------------------------------------------------------------
_SKIP = ("random", "secrets", "numpy", "harness.props.c08", "uuid", "tempfile")


def _site(depth=2):
    f = sys._getframe(depth)
    while f is not None:
        m = f.f_globals.get("__name__", "?")
        if not (m in _SKIP or m.split(".")[0] in ("numpy", "random", "secrets")):
            if m == __name__:
                f = f.f_back
                continue
            return f"{m}:{f.f_code.co_name}"
        f = f.f_back
    return "?"


PLUGIN_PKGS = ("pymoo",)      # third-party frameworks whose operator base classes pybrops subclasses


def _is_plugin_operator(obj):
    """`obj` is an instance of a pybrops class that derives from an operator base class of a plug-in framework"""
    try:
        return any((c.__module__ or "").split(".")[0] in PLUGIN_PKGS for c in type(obj).__mro__)
    except Exception:
        return False


def _np_token(depth=2):
    """who called numpy.random.<fn>: `npfn:<module>` when the draw happens while a method of a plug-in operator
    (a pybrops subclass of a pymoo Sampling / Crossover / Mutation ...) is on the stack or when the caller is not
    pybrops code; `npfn:<module>:<function>` for any other pybrops function (so a finding about the custom
    operators of a module does not cover a new reader elsewhere in that module)"""
    f = sys._getframe(depth)
    while f is not None:
        m = f.f_globals.get("__name__", "?")
        if m != __name__ and m.split(".")[0] != "numpy":
            break
        f = f.f_back
    if f is None:
        return "npfn:?"
    m0 = f.f_globals.get("__name__", "?")
    if not m0.startswith("pybrops"):
        return "npfn:" + m0
    q0 = getattr(f.f_code, "co_qualname", f.f_code.co_name)
    g = f
    while g is not None:
        gm = g.f_globals.get("__name__", "?")
        if gm.startswith("pybrops"):
            s_ = g.f_locals.get("self")
            if s_ is not None and _is_plugin_operator(s_):
                return "npfn:" + m0
        g = g.f_back
    return "npfn:" + m0 + ":" + q0


def _py_token():
    """who called random.<fn>: `pyfn:<pybrops module>` when a library (DEAP ...) called by that module draws,
    `pyfn:<module>:<function>` when pybrops code calls `random.<fn>` itself; None for prng.py"""
    f = sys._getframe(2)
    m = f.f_globals.get("__name__", "?")
    if m.startswith("pybrops"):
        if m.startswith("pybrops.core.random.prng"):
            return None
        return "pyfn:" + m + ":" + getattr(f.f_code, "co_qualname", f.f_code.co_name)
    while f is not None:
        m = f.f_globals.get("__name__", "?")
        if m.startswith("pybrops"):
            return None if m.startswith("pybrops.core.random.prng") else "pyfn:" + m
        f = f.f_back
    return None


def _pybrops_caller(depth=2):
    """innermost pybrops module on the stack (a library such as DEAP may sit between it and `random`)"""
    f = sys._getframe(depth)
    while f is not None:
        m = f.f_globals.get("__name__", "?")
        if m.startswith("pybrops"):
            return m
        f = f.f_back
    return None


class Tracer:
    """records OS-entropy acquisitions and numpy.random.<fn> module-function calls while `cur` is a set pair"""

    def __init__(self):
        self.os_sites = None
        self.npfn_sites = None
        self._saved = []
        self._depth = 0
        self.exec_index = 0     # added to os.getpid() when pybrops asks for it (0 in the first execution of a case)
        self.oracle = None      # None: the real OS; an int key: deterministic substitute bytes (perturbation runs)
        self._count = 0

    def begin(self):
        self.os_sites, self.npfn_sites = set(), set()

    def end(self):
        o, n = sorted(self.os_sites), sorted(self.npfn_sites)
        self.os_sites = self.npfn_sites = None
        return o, n

    def __enter__(self):
        tr = self
        self._depth += 1
        if self._depth > 1:
            return self
        orig_u = random._urandom
        orig_os = os.urandom

        def urandom(n):
            if tr.os_sites is not None:
                tr.os_sites.add("os:" + _site())
            if tr.oracle is not None:
                tr._count += 1
                out = b""
                while len(out) < n:
                    out += hashlib.sha256(f"{tr.oracle}:{tr._count}:{len(out)}".encode()).digest()
                return out[:n]
            return orig_os(n)

        orig_pid = os.getpid

        def getpid():
            # process identity is entropy the seed does not control: the two executions of a case see different ones
            m = _pybrops_caller()
            if m is None:
                return orig_pid()
            if tr.os_sites is not None:
                tr.os_sites.add("os:getpid:" + m)
            return orig_pid() + tr.exec_index

        self._saved = [(random, "_urandom", orig_u), (os, "urandom", orig_os), (os, "getpid", orig_pid)]
        random._urandom = urandom
        os.urandom = urandom
        os.getpid = getpid
        for name in dir(numpy.random):
            fn = getattr(numpy.random, name)
            if name.startswith("_") or name in ("seed", "get_state", "set_state", "get_bit_generator", "set_bit_generator"):
                continue
            if getattr(fn, "__self__", None) is _RAND:
                def mk(fn):
                    def wrapped(*a, **k):
                        if tr.npfn_sites is not None:
                            tr.npfn_sites.add(_np_token())
                        return fn(*a, **k)
                    wrapped.__wrapped_c08__ = fn
                    return wrapped
                self._saved.append((numpy.random, name, fn))
                setattr(numpy.random, name, mk(fn))
        for name in dir(random):
            fn = getattr(random, name)
            if name.startswith("_") or name in ("seed", "getstate", "setstate"):
                continue
            if getattr(fn, "__self__", None) is random._inst:
                def mkpy(fn):
                    def wrapped(*a, **k):
                        if tr.npfn_sites is not None:
                            t_ = _py_token()
                            if t_:
                                tr.npfn_sites.add(t_)
                        return fn(*a, **k)
                    wrapped.__wrapped_c08__ = fn
                    return wrapped
                self._saved.append((random, name, fn))
                setattr(random, name, mkpy(fn))
        return self

    def __exit__(self, *a):
        self._depth -= 1
        if self._depth > 0:
            return
        for obj, name, val in self._saved:
            setattr(obj, name, val)
        self._saved = []


TR = Tracer()        # one re-entrant tracer per process


class _TracedRS(numpy.random.RandomState):
    """proxy of the numpy global RandomState (shares its bit generator) that records who draws from it.
    Only ever installed for *attribution re-runs*, never while observations are taken."""
    _log = None

    def __getattribute__(self, name):
        if not name.startswith("_") and name not in ("get_state", "set_state", "seed"):
            log = type(self)._log
            if log is not None:
                log.add(_leak_site(self))
        return super().__getattribute__(name)


def _leak_site(proxy):
    """walk outwards from the draw: the first object whose `_rng` is the global proxy resolved
    `rng=None` to the global stream; otherwise name the innermost pybrops module that drew"""
    f = sys._getframe(2)
    inner = None
    while f is not None:
        m = f.f_globals.get("__name__", "?")
        if m.startswith("pybrops"):
            if inner is None:
                inner = m
            s = f.f_locals.get("self")
            if s is not None and getattr(s, "_rng", None) is proxy:
                # (optimisers by category: which of the thirteen GA classes a protocol defaults to is not the point)
                if any(c.__name__ == "OptimizationAlgorithm" for c in type(s).__mro__):
                    return "rngNone:OptimizationAlgorithm"
                return "rngNone:" + type(s).__name__
        f = f.f_back
    return "gprng:" + (inner or "?")


@contextlib.contextmanager
def traced_global(log):
    """replace every `global_prng` module attribute of pybrops by a recording proxy"""
    proxy = _TracedRS(_RAND._bit_generator)
    saved = []
    for name, mod in list(sys.modules.items()):
        if name.startswith("pybrops") and mod is not None and getattr(mod, "global_prng", None) is _RAND:
            saved.append(mod)
            mod.global_prng = proxy
    # `def __init__(self, ..., rng = global_prng)`: the default was evaluated when the function was defined
    dflts = []
    for fn in _functions_with_global_default():
        d0, k0 = fn.__defaults__, fn.__kwdefaults__
        dflts.append((fn, d0, k0))
        if d0:
            fn.__defaults__ = tuple(proxy if x is _RAND else x for x in d0)
        if k0:
            fn.__kwdefaults__ = {k: (proxy if x is _RAND else x) for k, x in k0.items()}
    _TracedRS._log = log
    try:
        yield proxy
    finally:
        _TracedRS._log = None
        for mod in saved:
            mod.global_prng = _RAND
        for fn, d0, k0 in dflts:
            fn.__defaults__, fn.__kwdefaults__ = d0, k0


_GLOBAL_DEFAULT_FNS = None


def _functions_with_global_default():
    """pybrops functions / methods one of whose default argument values IS the global generator"""
    global _GLOBAL_DEFAULT_FNS
    if _GLOBAL_DEFAULT_FNS is None:
        import types
        out, seen = [], set()

        def visit(fn):
            if isinstance(fn, (staticmethod, classmethod)):
                fn = fn.__func__
            if isinstance(fn, types.FunctionType) and id(fn) not in seen:
                seen.add(id(fn))
                if any(x is _RAND for x in (fn.__defaults__ or ())) or any(x is _RAND for x in (fn.__kwdefaults__ or {}).values()):
                    out.append(fn)
        for name, mod in list(sys.modules.items()):
            if not name.startswith("pybrops") or mod is None:
                continue
            for v in list(vars(mod).values()):
                if getattr(v, "__module__", None) != name:
                    continue
                visit(v)
                if isinstance(v, type):
                    for w in list(vars(v).values()):
                        visit(w)
        _GLOBAL_DEFAULT_FNS = out
    return _GLOBAL_DEFAULT_FNS


# ------------------------------------------------------------------------------------------------
# fixtures and the component registry
# ------------------------------------------------------------------------------------------------
_FX = None


def fixtures():
    """small deterministic inputs (built with a private RandomState; never touches a global stream)"""
    global _FX
    if _FX is not None:
        return _FX
    compat.import_pybrops()
    from pybrops.popgen.gmat.DensePhasedGenotypeMatrix import DensePhasedGenotypeMatrix
    from pybrops.model.gmod.DenseAdditiveLinearGenomicModel import DenseAdditiveLinearGenomicModel
    st_py, st_np = random.getstate(), numpy.random.get_state()
    r = numpy.random.RandomState(20240229)
    ntaxa, nvrnt, ntrait = 10, 12, 2
    mat = r.randint(0, 2, size=(2, ntaxa, nvrnt)).astype("int8")
    h = nvrnt // 2
    chrgrp = numpy.repeat([1, 2], [h, nvrnt - h]).astype("int64")
    phypos = numpy.arange(nvrnt, dtype="int64") * 10 + 1
    genpos = numpy.concatenate([numpy.linspace(0, 0.8, h), numpy.linspace(0, 0.9, nvrnt - h)])
    xoprob = numpy.full(nvrnt, 0.3)
    xoprob[0] = 0.5
    xoprob[h] = 0.5
    pg = DensePhasedGenotypeMatrix(
        mat=mat, taxa=numpy.array([f"t{i}" for i in range(ntaxa)], dtype=object),
        taxa_grp=numpy.arange(ntaxa, dtype="int64") // 2, vrnt_chrgrp=chrgrp, vrnt_phypos=phypos,
        vrnt_name=numpy.array([f"m{i}" for i in range(nvrnt)], dtype=object), vrnt_genpos=genpos,
        vrnt_xoprob=xoprob)
    pg.group_vrnt()
    u_a = r.randint(-3, 4, size=(nvrnt, ntrait)).astype(float)
    gm = DenseAdditiveLinearGenomicModel(beta=numpy.zeros((1, ntrait)), u_misc=None, u_a=u_a,
                                          trait=numpy.array([f"y{i}" for i in range(ntrait)], dtype=object))
    bv = gm.gebv(pg)
    # a symmetric matrix that is NOT positive semidefinite, so that apply_jitter has to draw
    k = r.randint(-2, 3, size=(5, 5)).astype(float)
    k = (k + k.T) / 2.0
    numpy.fill_diagonal(k, 0.0)
    # a coancestry matrix with duplicated taxa: PSD in exact arithmetic, one eigenvalue slightly negative in floats
    z = r.randint(0, 3, size=(4, 9)).astype(float) - 1.0
    z = numpy.concatenate([z, z[:2]])
    kd = z.dot(z.T) / 7.0
    # partially structured data: a one-marker chromosome, a two-marker one, fully homozygous taxa next to fully
    # heterozygous ones, a monomorphic marker
    mat1 = mat.copy()
    mat1[1, 0, :] = mat1[0, 0, :]                 # taxon 0 inbred
    mat1[1, 1, :] = 1 - mat1[0, 1, :]             # taxon 1 heterozygous everywhere
    mat1[:, 2, :h] = mat1[:1, 2, :h]              # taxon 2 inbred on the first chromosomes only
    mat1[:, :, 3] = 1                             # monomorphic marker
    chr1 = numpy.repeat([1, 2, 3], [1, 2, nvrnt - 3]).astype("int64")
    gp1 = numpy.concatenate([[0.0], [0.0, 0.4], numpy.linspace(0, 1.1, nvrnt - 3)])
    xo1 = numpy.full(nvrnt, 0.25)
    xo1[[0, 1, 3]] = 0.5
    pg1 = DensePhasedGenotypeMatrix(
        mat=mat1, taxa=numpy.array([f"t{i}" for i in range(ntaxa)], dtype=object),
        taxa_grp=numpy.arange(ntaxa, dtype="int64") // 2, vrnt_chrgrp=chr1, vrnt_phypos=phypos,
        vrnt_name=numpy.array([f"m{i}" for i in range(nvrnt)], dtype=object), vrnt_genpos=gp1, vrnt_xoprob=xo1)
    pg1.group_vrnt()
    _FX = {"pg": pg, "pg1": pg1, "gm": gm, "bv": bv, "kmat": k, "kmat_psd_but_for_rounding": kd, "ntaxa": ntaxa, "nvrnt": nvrnt,
           "ntrait": ntrait, "probs": {}, "uncon_w": r.randint(0, 6, size=20).astype(float)}
    random.setstate(st_py)
    numpy.random.set_state(st_np)
    return _FX


# ---- long-lived INPUT arrays: built once, handed to every call (a component that permutes or overwrites
# an argument in place changes what the next call sees); restored in place at the start of every case
_SH = {}


def shared(key, build):
    if key not in _SH:
        a = build()
        _SH[key] = (a, a.copy())
    return _SH[key][0]


def restore_shared():
    for a, pristine in _SH.values():
        if a.shape == pristine.shape:
            a[...] = pristine


_BIG = {}
HC_LARGE = 5000                 # decision-space size of the hill climber's `@large` variant (> 4096)
SIZES = (12000, 70000)          # decision-space sizes of the `@large` variants (v even / v odd)


def big_pgmat():
    """5000 taxa x 12 markers (private RandomState, cached)"""
    if "pg" not in _BIG:
        from pybrops.popgen.gmat.DensePhasedGenotypeMatrix import DensePhasedGenotypeMatrix
        fx = fixtures()
        small = fx["pg"]
        r = numpy.random.RandomState(77)
        n = 5000
        _BIG["pg"] = DensePhasedGenotypeMatrix(
            mat=r.randint(0, 2, size=(2, n, fx["nvrnt"])).astype("int8"),
            taxa=numpy.array([f"b{i}" for i in range(n)], dtype=object), taxa_grp=numpy.arange(n, dtype="int64") // 50,
            vrnt_chrgrp=small.vrnt_chrgrp, vrnt_phypos=small.vrnt_phypos, vrnt_name=small.vrnt_name,
            vrnt_genpos=small.vrnt_genpos, vrnt_xoprob=small.vrnt_xoprob)
        _BIG["pg"].group_vrnt()
    return _BIG["pg"]


def big_kmat(n):
    if ("k", n) not in _BIG:
        k = numpy.random.RandomState(3).randint(-2, 3, size=(n, n)).astype(float)
        k = (k + k.T) / 2.0
        numpy.fill_diagonal(k, 0.0)
        _BIG[("k", n)] = k
    return _BIG[("k", n)]


def prepare_large():
    """build every large fixture before anything is observed (RandomState(seed) acquires OS entropy)"""
    big_pgmat()
    for n in (70, 110):
        big_kmat(n)
    for _m, _c, kind, nobj in GA_CLASSES:
        for v in (0, 1):
            big_problem(kind, nobj, _ga_size(kind, v))
    big_problem("subset1", 1, HC_LARGE)


def big_problem(kind, nobj, n):
    """EBV selection problem over n candidates (subset: decision space of n elements, 4 chosen;
    real/integer/binary: n decision variables)"""
    key = (kind, nobj, n)
    if key not in _BIG:
        import pybrops.breed.prot.sel.prob.EstimatedBreedingValueSelectionProblem as EP
        ebv = numpy.random.RandomState(5).randint(-50, 50, size=(n, 2)).astype(float)
        trans = _sum_trans if nobj == 1 else _id_trans
        if kind == "subset":
            _BIG[key] = EP.EstimatedBreedingValueSubsetSelectionProblem(
                ebv=ebv, ndecn=4, decn_space=numpy.arange(n), decn_space_lower=numpy.repeat(0, 4),
                decn_space_upper=numpy.repeat(n - 1, 4), nobj=nobj, obj_wt=numpy.ones(nobj), obj_trans=trans)
        elif kind == "subset1":
            _BIG[key] = EP.EstimatedBreedingValueSubsetSelectionProblem(
                ebv=ebv, ndecn=1, decn_space=numpy.arange(n), decn_space_lower=numpy.repeat(0, 1),
                decn_space_upper=numpy.repeat(n - 1, 1), nobj=nobj, obj_wt=numpy.ones(nobj), obj_trans=trans)
        else:
            cls = {"real": EP.EstimatedBreedingValueRealSelectionProblem, "integer": EP.EstimatedBreedingValueIntegerSelectionProblem,
                   "binary": EP.EstimatedBreedingValueBinarySelectionProblem}[kind]
            lo, hi, dt = {"real": (0.0, 1.0, float), "integer": (0, 2, int), "binary": (0, 1, int)}[kind]
            _BIG[key] = cls(ebv=ebv, ndecn=n, decn_space=numpy.stack([numpy.repeat(lo, n), numpy.repeat(hi, n)]).astype(dt),
                            decn_space_lower=numpy.repeat(lo, n).astype(dt), decn_space_upper=numpy.repeat(hi, n).astype(dt),
                            nobj=nobj, obj_wt=numpy.ones(nobj), obj_trans=trans)
    return _BIG[key]


def _sum_trans(decnvec, latentvec, **kw):
    return latentvec.sum(keepdims=True)


def _id_trans(decnvec, latentvec, **kw):
    return latentvec


def _problem(kind, nobj):
    """EBV selection problems of the four decision-space kinds (single or two-objective)"""
    fx = fixtures()
    key = (kind, nobj)
    if key in fx["probs"]:
        return fx["probs"][key]
    import pybrops.breed.prot.sel.EstimatedBreedingValueSelection as E
    cls = {"subset": E.EstimatedBreedingValueSubsetSelection, "real": E.EstimatedBreedingValueRealSelection,
           "integer": E.EstimatedBreedingValueIntegerSelection, "binary": E.EstimatedBreedingValueBinarySelection}[kind]
    from pybrops.opt.algo.SortingSubsetOptimizationAlgorithm import SortingSubsetOptimizationAlgorithm
    kw = dict(ntrait=2, unscale=True, ncross=2, nparent=2, nmating=1, nprogeny=2, nobj=nobj,
              obj_wt=numpy.ones(nobj), obj_trans=_sum_trans if nobj == 1 else _id_trans)
    prot = cls(**kw)
    prob = prot.problem(fx["pg"], fx["pg"], None, fx["bv"], fx["gm"], 0, 1)
    fx["probs"][key] = prob
    return prob


def _tie_problem(nobj):
    """subset selection over 10 candidates whose breeding values take two levels only: almost every exchange
    the hill climbers / GAs consider is an exact tie"""
    fx = fixtures()
    key = ("ties", nobj)
    if key not in fx["probs"]:
        import pybrops.breed.prot.sel.prob.EstimatedBreedingValueSelectionProblem as EP
        ebv = numpy.array([[1.0, 0.0], [1.0, 0.0], [0.0, 1.0], [1.0, 0.0], [0.0, 1.0], [0.0, 1.0], [1.0, 0.0], [0.0, 1.0],
                           [1.0, 0.0], [0.0, 1.0]])
        fx["probs"][key] = EP.EstimatedBreedingValueSubsetSelectionProblem(
            ebv=ebv, ndecn=4, decn_space=numpy.arange(10), decn_space_lower=numpy.repeat(0, 4),
            decn_space_upper=numpy.repeat(9, 4), nobj=nobj, obj_wt=numpy.ones(nobj),
            obj_trans=_sum_trans if nobj == 1 else _id_trans)
    return fx["probs"][key]


def _xconfig(nparent, v):
    def build():
        base = numpy.arange(3 * nparent).reshape(3, nparent)
        return (base * (v + 1) + v) % fixtures()["ntaxa"]
    return shared(("xconfig", nparent, v), build)


def _mate_args(nparent, v):
    """(xconfig, nmating, nprogeny, nself): scalars for v < 3, per-cross arrays with unequal entries above"""
    xc = _xconfig(nparent, v % 3)
    if v == 5 and nparent > 1:
        # crosses whose parents coincide (a selfing row, a backcross-like row with a repeated parent)
        xc = shared(("xconfig_dup", nparent), lambda: numpy.array(
            [[3] * nparent, list(range(nparent)), [2] * (nparent - 1) + [5]]))
    if v < 3:
        return xc, 1, 1 + v % 2, v % 2
    nm = shared(("nmating", v), lambda: numpy.array([1, 2, 1]))
    npg = shared(("nprogeny", v), lambda: numpy.array([2, 1, 3]))
    return xc, nm, npg, (v - 3) % 3          # nself 0, 1, 2


def _mate_out(out):
    # progeny names / family numbers come from the protocol's counters (not part of the property): the
    # genotypes and the family STRUCTURE are what the generator decides
    return [out.mat, out.taxa_grp - out.taxa_grp.min()]


def _mate_cls(clsname):
    import importlib
    return getattr(importlib.import_module("pybrops.breed.prot.mate." + clsname), clsname)


def _mate_pg(v):
    fx = fixtures()
    return fx["pg1"] if v >= 4 else fx["pg"]      # v = 4, 5: one-marker chromosome, inbred / heterozygous parents


def _mate(clsname, nparent):
    def run(rng, v):
        m = _mate_cls(clsname)(rng=rng)
        xc, nm, npg, nself = _mate_args(nparent, v)
        out = m.mate(_mate_pg(v), xc, nm, npg, nself=nself)
        return [out.mat, out.taxa, out.taxa_grp]
    return run


def _mate_obj(clsname, nparent):
    def new(rng, v):
        return _mate_cls(clsname)(rng=rng), None

    def use(m, v):
        xc, nm, npg, nself = _mate_args(nparent, v)
        return _mate_out(m.mate(_mate_pg(v), xc, nm, npg, nself=nself))
    return new, use


def _pheno_new(rng, v):
    from pybrops.breed.prot.pt.G_E_Phenotyping import G_E_Phenotyping
    fx = fixtures()
    if v < 3:
        return G_E_Phenotyping(fx["gm"], nenv=1 + v % 2, nrep=2, var_env=1.0, var_rep=0.5, var_err=1.0 + v, rng=rng)
    # per-trait arrays with unequal entries, one replicate, non-default location
    nrep = shared(("pt_nrep",), lambda: numpy.array([1, 3])) if v == 5 else 1 + v % 2     # per-environment array
    return G_E_Phenotyping(fx["gm"], nenv=2, nrep=nrep, var_env=shared(("venv", v), lambda: numpy.array([0.5, 2.0])),
                           var_rep=shared(("vrep", v), lambda: numpy.array([0.25, 0.0])),
                           var_err=shared(("verr", v), lambda: numpy.array([1.0, 3.0])), rng=rng)


def _phenotype(rng, v):
    return _pheno_new(rng, v).phenotype(fixtures()["pg"])


_SUS_P = {0: [1.0, 2.0, 0.5, 3.0, 1.5, 0.25, 0.75],
          1: [0.0] * 7,                                   # no weight anywhere (total 0: every pointer on one option)
          2: [1.0] * 7,                                   # exact ties
          3: [0.0, 2.0, 0.0, 2.0, 1.0, 0.0, 1.0],         # zero weights
          4: [1e-8, 1.0, 1e-5, 25000.0, 25000.5, 1.0, 1e-8],
          5: [3.0, 3.0, 3.0, 1.0, 1.0, 1.0, 2.0]}


def _sus(rng, v):
    import pybrops.core.random.sampling as S
    a = shared(("sus_a",), lambda: numpy.arange(7))
    p = shared(("sus_p", v), lambda: numpy.array(_SUS_P[v % 6]))
    size = [5, 6, 7, (2, 4), 14, 1][v % 6]               # 7 = exactly one pointer per option
    return S.stochastic_universal_sampling(a, p, size, rng)


_TILED = {0: ((3, 2), False, False), 1: ((4, 2), False, False), 2: ((2, 2), False, False),
          3: ((6, 2), False, False), 4: (5, True, True), 5: ((5, 2), False, True)}   # (size, replace, with p)


def _tiled(rng, v):
    import pybrops.core.random.sampling as S
    a = shared(("tiled_a",), lambda: numpy.arange(6) * 3 + 1)       # 6 options: (3,2) = one complete set
    size, replace, with_p = _TILED[v % 6]
    p = shared(("tiled_p",), lambda: numpy.array([0.1, 0.2, 0.3, 0.1, 0.2, 0.1])) if with_p else None
    return S.tiled_choice(a, size, replace, p, rng)


def _axis_shuffle(rng, v):
    import pybrops.core.random.sampling as S
    a = numpy.arange(12 + 4 * (v % 3)).reshape(-1, 4)               # shuffled in place by contract: a fresh array
    if v >= 3:
        a = numpy.asfortranarray(a)
    S.axis_shuffle(a, (1, -1, (1,))[v % 3], rng)
    return a


def _outcross(rng, v):
    import pybrops.core.random.sampling as S
    a = numpy.array([[0, 0], [1, 1], [2, 3], [3, 2 + v % 2]])
    if v >= 3:
        a = numpy.array([[0, 0, 1], [1, 1, 2], [2, 2, 0]])
    S.outcross_shuffle(a, rng)
    return a


_CFG_NCROSS = (3, 4, 2, 5, 1, 6)


def _cfg_new(clsname, decn, mate=False):
    def new(rng, v):
        import importlib
        cls = getattr(importlib.import_module("pybrops.breed.prot.sel.cfg." + clsname), clsname)
        fx = fixtures()
        # variant 1 of the real-valued configurations: the all-zero contribution vector (total weight 0, the lower
        # corner of the decision space - accepted, every cross gets the same parent)
        zero = clsname.startswith("Real") and v % 6 == 1
        kw = dict(ncross=_CFG_NCROSS[v % 6], nparent=2, nmating=1, nprogeny=1, pgmat=fx["pg"],
                  xconfig_decn=shared(("decn", clsname, zero), lambda: numpy.array(decn) * (0.0 if zero else 1)), rng=rng)
        if mate:
            kw["xconfig_xmap"] = shared(("xmap",), lambda: numpy.array([[0, 1], [2, 3], [4, 5], [6, 7], [8, 9]]))
        c = cls(**kw)
        return c, c.xconfig.copy()
    return new


def _cfg_use(c, v):
    return c.sample_xconfig(return_xconfig=True)


def _cfg(clsname, decn, mate=False):
    new = _cfg_new(clsname, decn, mate)

    def run(rng, v):
        c, first = new(rng, v)
        return [first, _cfg_use(c, v)]
    return run


def _opt_cls(modname, clsname):
    import importlib
    return getattr(importlib.import_module("pybrops.opt.algo." + modname), clsname)


def _opt_new(modname, clsname, ga=True):
    def new(rng, v):
        cls = _opt_cls(modname, clsname)
        if ga:
            return (cls(ngen=2, pop_size=8, rng=rng) if rng is not None else cls(ngen=2, pop_size=8)), None
        return cls(rng=rng), None
    return new


def _opt_use(kind, nobj):
    def use(a, v):
        # subset optimisers: odd variants run on the tie-rich problem
        s = a.minimize(_tie_problem(nobj) if (kind == "subset" and v % 2) else _problem(kind, nobj))
        return [s.soln_decn, s.soln_obj]
    return use


def _opt(modname, clsname, kind, nobj, ga=True):
    new, use = _opt_new(modname, clsname, ga), _opt_use(kind, nobj)

    def run(rng, v):
        return use(new(rng, v)[0], v)
    return run


def _opt_det(modname, clsname):
    def run(rng, v):
        import importlib
        cls = getattr(importlib.import_module("pybrops.opt.algo." + modname), clsname)
        s = cls().minimize(_problem("subset", 1))
        return [s.soln_decn, s.soln_obj]
    return run


def _jitter(rng, v):
    import pybrops.popgen.cmat.DenseMolecularCoancestryMatrix as M
    import pybrops.popgen.cmat.DenseVanRadenCoancestryMatrix as V
    fx = fixtures()
    cls = (M.DenseMolecularCoancestryMatrix, V.DenseVanRadenCoancestryMatrix)[v % 2]    # both inherit apply_jitter
    k = fx["kmat"] if v < 3 else fx["kmat_psd_but_for_rounding"]
    c = cls(k.copy() * (1 + v % 3))          # (jittered in place by contract: a copy)
    import warnings
    with warnings.catch_warnings():
        warnings.simplefilter("ignore")
        if v == 2:                               # jitter far too small: every attempt fails, the diagonal is restored
            ok = c.apply_jitter(eigvaltol=-1.0, minjitter=1e-12, maxjitter=1e-11, nattempt=3)
        elif v == 1:                             # jitter range in which one attempt in eleven succeeds: late attempts
            ok = c.apply_jitter(eigvaltol=-1.0, minjitter=1.0, maxjitter=5.0, nattempt=60)
        elif v < 3:
            ok = c.apply_jitter(eigvaltol=-1.0, minjitter=3.0 * (1 + v), maxjitter=9.0 * (1 + v), nattempt=50)
        else:                                    # duplicated taxa: one eigenvalue is ~ -1e-17, default tolerance
            ok = c.apply_jitter(eigvaltol=2e-14, minjitter=1e-10, maxjitter=1e-6, nattempt=100)
    return [bool(ok), c.mat]


def _embv(rng, v):
    from pybrops.model.embvmat.DenseExpectedMaximumBreedingValueMatrix import DenseExpectedMaximumBreedingValueMatrix
    fx = fixtures()
    sub = fx["pg"].select_taxa(numpy.arange(3 + v % 2))
    if v == 5:      # per-taxon arrays with unequal entries
        m = DenseExpectedMaximumBreedingValueMatrix.from_gmod(
            fx["gm"], sub, nprogeny=shared(("embv_np",), lambda: numpy.array([2, 4, 3, 5])),
            nrep=shared(("embv_nr",), lambda: numpy.array([1, 3, 2, 1])))
    else:
        m = DenseExpectedMaximumBreedingValueMatrix.from_gmod(fx["gm"], sub, nprogeny=3 + v // 2, nrep=2 + v // 4)
    return m.mat


DEFAULT_OPT_VARIANTS = (4, 5)      # select() variants that leave the optimiser to the protocol's default


def _select_new(protname):
    """select() of the four decision-space kinds (each protocol base class has its own copy of select()), odd
    variants take the multi-objective branch (NSGA-II front, then the weighted choice); variants 4 and 5 do not
    hand over an optimiser: the protocol constructs its default one (trimmed to 3 generations of 8 afterwards)"""
    def new(rng, v):
        from pybrops.opt.algo.SteepestDescentSubsetHillClimber import SteepestDescentSubsetHillClimber
        nobj = 2 if (v % 2 and protname != "RandomSubset") else 1
        dflt = v % 6 in DEFAULT_OPT_VARIANTS
        kw = dict(ntrait=2, ncross=2 + (v // 2) % 2, nparent=2, nmating=1, nprogeny=2, nobj=nobj,
                  obj_wt=numpy.ones(nobj), obj_trans=_sum_trans if nobj == 1 else _id_trans, rng=rng)
        if nobj == 2:
            kw.update(ndset_wt=1.0, ndset_trans=_ndset_trans)
        ga = lambda mod, c: (_opt_cls(mod, c)(ngen=2, pop_size=8, rng=rng) if rng is not None else _opt_cls(mod, c)(ngen=2, pop_size=8))
        if protname == "RandomSubset":
            import pybrops.breed.prot.sel.RandomSelection as R
            if not dflt:
                kw["soalgo"] = SteepestDescentSubsetHillClimber(rng=rng)
            prot = R.RandomSubsetSelection(**kw)
        else:
            kind = protname[3:]
            if protname.startswith("OHV"):      # a MATE selection protocol (decisions are cross configurations)
                import pybrops.breed.prot.sel.OptimalHaploidValueSelection as O
                cls = getattr(O, "OptimalHaploidValue" + kind + "Selection")
                kw.update(nhaploblk=2, unique_parents=bool(v % 4 < 2))
            else:
                import pybrops.breed.prot.sel.EstimatedBreedingValueSelection as E
                cls = getattr(E, "EstimatedBreedingValue" + kind + "Selection")
                kw.update(unscale=True)
            if not dflt:
                if kind == "Subset":
                    kw["soalgo"] = SteepestDescentSubsetHillClimber(rng=rng)
                else:
                    kw["soalgo"] = ga(kind + "GeneticAlgorithm", kind + "GeneticAlgorithm")
                if nobj == 2:
                    kw["moalgo"] = ga("NSGA2" + kind + "GeneticAlgorithm", "NSGA2" + kind + "GeneticAlgorithm")
            prot = cls(**kw)
        if dflt:
            for a in (prot.soalgo, prot.moalgo):
                a.ngen, a.pop_size = 3, 8
        return prot, None
    return new


def _ndset_trans(mat, **kw):
    return mat.sum(1)


def _select_use(prot, v):
    fx = fixtures()
    cfg = prot.select(fx["pg"], fx["pg"], None, fx["bv"], fx["gm"], 0, 1)
    return [cfg.xconfig_decn, cfg.xconfig]


def _select(protname):
    new = _select_new(protname)

    def run(rng, v):
        return _select_use(new(rng, v)[0], v)
    return run


def _selprob_new(kind):
    def new(rng, v):
        import pybrops.breed.prot.sel.RandomSelection as R
        cls = getattr(R, "Random" + kind + "Selection")
        return cls(ntrait=2 + v % 2, ncross=2, nparent=2, nmating=1, nprogeny=2, nobj=1, obj_wt=numpy.array([1.0]),
                   obj_trans=_sum_trans, rng=rng), None
    return new


def _selprob_use(prot, v):
    fx = fixtures()
    return prot.problem(fx["pg"], fx["pg"], None, fx["bv"], fx["gm"], 0, 1).rbv


def _selprob(kind):
    new = _selprob_new(kind)

    def run(rng, v):
        return _selprob_use(new(rng, v)[0], v)
    return run


_PROT_CLASSES = None


def protocol_classes():
    """every concrete selection protocol class of pybrops.breed.prot.sel whose constructor has an `rng` parameter
    (59 on the unchanged tree: 18 protocol families x the decision-space kinds), with constructor arguments by name"""
    global _PROT_CLASSES
    if _PROT_CLASSES is None:
        import importlib
        import inspect
        import pkgutil
        import pybrops.breed.prot.sel as sel
        from pybrops.popgen.cmat.fcty.DenseMolecularCoancestryMatrixFactory import DenseMolecularCoancestryMatrixFactory
        from pybrops.model.vmat.fcty.DenseTwoWayDHAdditiveGeneticVarianceMatrixFactory import DenseTwoWayDHAdditiveGeneticVarianceMatrixFactory
        from pybrops.popgen.gmap.HaldaneMapFunction import HaldaneMapFunction
        from pybrops.breed.prot.mate.TwoWayDHCross import TwoWayDHCross
        nv = fixtures()["nvrnt"]
        args = dict(ncross=2, nparent=2, nprogeny=2, nmating=1, nobj=1, ntrait=2, unscale=True, unique_parents=True,
                    nhaploblk=2, nself=0, nrep=1, alpha=0.5, upper_percentile=0.1, weight=numpy.ones((nv, 2)),
                    target=numpy.ones((nv, 2)), nbestfndr=2, nconfig=2, cmatfcty=DenseMolecularCoancestryMatrixFactory(),
                    vmatfcty=DenseTwoWayDHAdditiveGeneticVarianceMatrixFactory(), gmapfn=HaldaneMapFunction(),
                    mateprot=TwoWayDHCross())
        out = []
        for m in pkgutil.iter_modules(sel.__path__):
            if m.ispkg:
                continue
            try:
                mod = importlib.import_module("pybrops.breed.prot.sel." + m.name)
            except Exception:
                continue
            for n, c in sorted(vars(mod).items()):
                if inspect.isclass(c) and c.__module__ == mod.__name__ and not inspect.isabstract(c):
                    try:
                        ps = inspect.signature(c.__init__).parameters
                    except (TypeError, ValueError):
                        continue
                    if "rng" not in ps:
                        continue
                    req = [p.name for p in ps.values() if p.default is inspect.Parameter.empty
                           and p.name != "self" and p.kind not in (p.VAR_KEYWORD, p.VAR_POSITIONAL)]
                    if all(k in args for k in req):
                        out.append((mod.__name__.split(".")[-1] + "." + n, c, {k: args[k] for k in req}))
        _PROT_CLASSES = out
    return _PROT_CLASSES


def _ctor_rng(rng, v):
    """construct EVERY concrete selection protocol class with the generator and report the state of the generator the
    object ends up holding (a constructor that forgets to hand `rng` on leaves the object on the global generator)"""
    out = []
    for name, cls, kw in protocol_classes():
        try:
            o = cls(rng=rng, **kw)
        except Exception as e:          # arguments by name did not fit this class: not this property's business
            out.append(name + ":" + type(e).__name__)
            continue
        out.append(gen_state(o.rng))
    return out


# ---- secondary entry points ------------------------------------------------------------------------------
_WRAP_ARGS = {
    "beta": (2.0, 3.0, 2), "binomial": (5, 0.3, 2), "bytes": (4,), "chisquare": (2.0, 2), "choice": (5, 3),
    "dirichlet": ([1.0, 2.0], 2), "exponential": (1.0, 2), "f": (2.0, 3.0, 2), "gamma": (2.0, 1.0, 2),
    "geometric": (0.3, 2), "gumbel": (0.0, 1.0, 2), "hypergeometric": (5, 4, 3, 2), "laplace": (0.0, 1.0, 2),
    "logistic": (0.0, 1.0, 2), "lognormal": (0.0, 1.0, 2), "logseries": (0.5, 2), "multinomial": (5, [0.2, 0.8], 2),
    "multivariate_normal": ([0.0, 1.0], [[1.0, 0.5], [0.5, 2.0]], 2), "negative_binomial": (3, 0.4, 2),
    "noncentral_chisquare": (2.0, 1.0, 2), "noncentral_f": (2.0, 3.0, 1.0, 2), "normal": (0.0, 1.0, 3),
    "pareto": (2.0, 2), "permutation": (5,), "poisson": (2.0, 2), "power": (2.0, 2), "random": (3,),
    "rayleigh": (1.0, 2), "standard_cauchy": (2,), "standard_exponential": (2,), "standard_gamma": (2.0, 2),
    "standard_normal": (3,), "standard_t": (3.0, 2), "triangular": (0.0, 0.5, 1.0, 2), "uniform": (0.0, 1.0, 2),
    "vonmises": (0.0, 1.0, 2), "wald": (1.0, 1.0, 2), "weibull": (2.0, 2), "zipf": (2.0, 2),
}


def _wrappers(rng, v):
    """every public wrapper of the library's global generator (pybrops.core.random.prng.<name>)"""
    import pybrops.core.random.prng as prng
    out = []
    names = sorted(_WRAP_ARGS)
    for n in names[v % 3::3] if v else names:
        out.append(getattr(prng, n)(*_WRAP_ARGS[n]))
    a = numpy.arange(6)
    prng.shuffle(a)
    out.append(a)
    return out


def _seed_comp(rng, v):
    """seed() as a component: both global streams afterwards (seeds 0, 1, > 32 bit)"""
    import pybrops.core.random.prng as prng
    prng.seed([0, 1, -7, 2 ** 40 + 3, 12345, 2 ** 32][v % 6])
    return [py_state(), np_state()]


def _spawn_opts(rng, v):
    import pybrops.core.random.prng as prng
    sbits = (32, 48, 64, 16, 8, 1)[v % 6]
    gens = [prng.spawn(), *prng.spawn(2, numpy.random.MT19937), *prng.spawn(2, sbits=sbits),
            *prng.spawn(1, numpy.random.Philox, 128), prng.spawn(None, numpy.random.SFC64, sbits),
            *prng.spawn(1, numpy.random.PCG64DXSM, 96), *prng.spawn(0), prng.spawn(None, sbits=sbits)]
    return [gen_state(g) for g in gens] + [g.random() for g in gens]


def _dense_cross(rng, v):
    """core/util/mate.py: a second copy of the meiosis / cross mechanism (rng is a mandatory argument)"""
    import pybrops.core.util.mate as UM
    import pybrops.core.random.prng as prng
    fx = fixtures()
    r = prng.global_prng if rng is None else rng
    sel = shared(("dense_sel", v % 2), lambda: numpy.array([0, 3, 5, 1 + v % 2]))
    geno = fx["pg"].mat
    xo = fx["pg"].vrnt_xoprob
    return [UM.dense_cross(geno, geno, sel, sel[::-1].copy(), xo, r), UM.dense_dh(geno, sel, xo, r)]


def _uncon_objfn(x):
    w = fixtures()["uncon_w"]
    return float(w[numpy.asarray(x, dtype=int)].sum())


def _uncon_objfn2(x):
    w = fixtures()["uncon_w"]
    x = numpy.asarray(x, dtype=int)
    return (float(w[x].sum()), float((w[x] % 3).sum()))


def _uncon_new(clsname, **kw):
    def new(rng, v):
        return _opt_cls(clsname, clsname)(rng=rng, **kw), None
    return new


def _uncon_use(multi):
    def use(a, v):
        if multi:
            r = a.optimize(_uncon_objfn2, 4, numpy.arange(20), numpy.array([1.0, 1.0]))
        else:
            r = a.optimize(_uncon_objfn, 4, numpy.arange(20), 1.0)
        return [numpy.asarray(r[0]), numpy.asarray(r[1])]
    return use


def _uncon(clsname, multi=False, **kw):
    new, use = _uncon_new(clsname, **kw), _uncon_use(multi)

    def run(rng, v):
        return use(new(rng, v)[0], v)
    return run


# ---- `@large` variants: same entry points at sizes where size-gated code paths would be taken ----------
def _mate_large(clsname):
    def run(rng, v):
        import importlib
        cls = getattr(importlib.import_module("pybrops.breed.prot.mate." + clsname), clsname)
        out = cls(rng=rng).mate(fixtures()["pg"], _xconfig(2, v), 1, 1500 + 1000 * (v % 2))    # 9000 / 15000 gametes
        return [out.mat, out.taxa_grp]
    return run


def _phenotype_large(rng, v):
    from pybrops.breed.prot.pt.G_E_Phenotyping import G_E_Phenotyping
    pt = G_E_Phenotyping(fixtures()["gm"], nenv=1, nrep=1 + v % 2, var_env=1.0, var_rep=0.5, var_err=1.0, rng=rng)
    return pt.phenotype(big_pgmat())


def _sus_large(rng, v):
    import pybrops.core.random.sampling as S
    n = SIZES[v % 2]
    p = (numpy.arange(n) % 17 + 1).astype(float)
    return S.stochastic_universal_sampling(numpy.arange(n), p, 70000, rng)           # > 2**16 draws


def _tiled_large(rng, v):
    import pybrops.core.random.sampling as S
    n = SIZES[v % 2]
    return S.tiled_choice(numpy.arange(n), (35001, 2), False, None, rng)             # > 2**16 draws


def _axis_shuffle_large(rng, v):
    import pybrops.core.random.sampling as S
    a = numpy.arange(2 * SIZES[v % 2]).reshape(-1, 2)
    S.axis_shuffle(a, 1, rng)
    return a


def _cfg_large(clsname, mk, mate=False):
    def run(rng, v):
        import importlib
        cls = getattr(importlib.import_module("pybrops.breed.prot.sel.cfg." + clsname), clsname)
        n = SIZES[v % 2]
        kw = dict(ncross=3, nparent=2, nmating=1, nprogeny=1, pgmat=fixtures()["pg"], xconfig_decn=mk(n), rng=rng)
        if mate:
            kw["xconfig_xmap"] = numpy.stack([numpy.arange(n) % 10, (numpy.arange(n) // 10) % 10], axis=1)
        c = cls(**kw)
        return [c.xconfig.copy(), c.sample_xconfig(return_xconfig=True)]
    return run


def _ga_size(kind, v):
    # integer problems: 16 000 variables instead of 70 000 (pymoo's integer operators take 0.5 s per call there)
    n = SIZES[v % 2]
    return min(n, 16000) if kind == "integer" else n


def _opt_large(modname, clsname, kind, nobj, ga=True):
    def run(rng, v):
        import importlib
        cls = getattr(importlib.import_module("pybrops.opt.algo." + modname), clsname)
        prob = big_problem(kind, nobj, _ga_size(kind, v) if ga else HC_LARGE)
        kw = {"phc": 0.0} if "SteepestDescentSubsetGenetic" in clsname else {}   # its hill climb is O(n) evaluations per sweep
        if ga:
            a = cls(ngen=2, pop_size=4, rng=rng, **kw) if rng is not None else cls(ngen=2, pop_size=4, **kw)
        else:
            a = cls(rng=rng)
        sol = a.minimize(prob)
        return [sol.soln_decn, sol.soln_obj]
    return run


def _jitter_large(rng, v):
    from pybrops.popgen.cmat.DenseMolecularCoancestryMatrix import DenseMolecularCoancestryMatrix
    n = 70 + 40 * (v % 2)                  # 4 900 / 12 100 entries
    c = DenseMolecularCoancestryMatrix(big_kmat(n).copy())
    ok = c.apply_jitter(eigvaltol=-1.0, minjitter=10.0 * n, maxjitter=30.0 * n, nattempt=8)
    return [bool(ok), c.mat]


def _embv_large(rng, v):
    from pybrops.model.embvmat.DenseExpectedMaximumBreedingValueMatrix import DenseExpectedMaximumBreedingValueMatrix
    fx = fixtures()
    sub = fx["pg"].select_taxa(numpy.arange(2))
    return DenseExpectedMaximumBreedingValueMatrix.from_gmod(fx["gm"], sub, nprogeny=4500 + 2000 * (v % 2), nrep=1).mat


GA_CLASSES = [
    ("SubsetGeneticAlgorithm", "SubsetGeneticAlgorithm", "subset", 1),
    ("NSGA2SubsetGeneticAlgorithm", "NSGA2SubsetGeneticAlgorithm", "subset", 2),
    ("NSGA3SubsetGeneticAlgorithm", "NSGA3SubsetGeneticAlgorithm", "subset", 2),
    ("RealGeneticAlgorithm", "RealGeneticAlgorithm", "real", 1),
    ("NSGA2RealGeneticAlgorithm", "NSGA2RealGeneticAlgorithm", "real", 2),
    ("IntegerGeneticAlgorithm", "IntegerGeneticAlgorithm", "integer", 1),
    ("NSGA2IntegerGeneticAlgorithm", "NSGA2IntegerGeneticAlgorithm", "integer", 2),
    ("BinaryGeneticAlgorithm", "BinaryGeneticAlgorithm", "binary", 1),
    ("NSGA2BinaryGeneticAlgorithm", "NSGA2BinaryGeneticAlgorithm", "binary", 2),
    ("NSGA2MemeticSubsetGeneticAlgorithm", "NSGA2SteepestDescentSubsetGeneticAlgorithm", "subset", 2),
    ("NSGA2MemeticSubsetGeneticAlgorithm", "NSGA2StochasticDescentSubsetGeneticAlgorithm", "subset", 2),
    ("NSGA2MemeticSubsetGeneticAlgorithm", "NSGA2MutatorASubsetGeneticAlgorithm", "subset", 2),
    ("NSGA2MemeticSubsetGeneticAlgorithm", "NSGA2MutatorBSubsetGeneticAlgorithm", "subset", 2),
]


def large_components():
    c = {}
    W = 0.08
    c["mate.TwoWayCross@large"] = (True, _mate_large("TwoWayCross"), W)
    c["mate.TwoWayDHCross@large"] = (True, _mate_large("TwoWayDHCross"), W)
    c["pt.G_E_Phenotyping@large"] = (True, _phenotype_large, W)
    c["samp.stochastic_universal_sampling@large"] = (True, _sus_large, W)
    c["samp.tiled_choice@large"] = (True, _tiled_large, W)
    c["samp.axis_shuffle@large"] = (True, _axis_shuffle_large, W)
    c["cfg.SubsetSelectionConfiguration@large"] = (True, _cfg_large("SubsetSelectionConfiguration", lambda n: numpy.arange(n)), W)
    c["cfg.IntegerSelectionConfiguration@large"] = (True, _cfg_large("IntegerSelectionConfiguration", lambda n: numpy.arange(n) % 3), W)
    c["cfg.RealSelectionConfiguration@large"] = (True, _cfg_large("RealSelectionConfiguration", lambda n: (numpy.arange(n) % 5 + 1) / 8.0), W)
    c["cfg.BinarySelectionConfiguration@large"] = (True, _cfg_large("BinarySelectionConfiguration", lambda n: numpy.arange(n) % 2), W)
    c["cfg.SubsetMateSelectionConfiguration@large"] = (True, _cfg_large("SubsetMateSelectionConfiguration", lambda n: numpy.arange(0, n, 3), mate=True), W)
    for mod, cls, kind, nobj in GA_CLASSES:
        c["opt." + cls + "@large"] = (True, _opt_large(mod, cls, kind, nobj), W)
    c["opt.SteepestDescentSubsetHillClimber@large"] = (True, _opt_large("SteepestDescentSubsetHillClimber", "SteepestDescentSubsetHillClimber", "subset1", 1, ga=False), 0.03)
    c["cmat.apply_jitter@large"] = (False, _jitter_large, W)
    c["embv.from_gmod@large"] = (False, _embv_large, W)
    return c


def is_large(name):
    return name.endswith("@large")


# name -> (accepts an rng argument, callable(rng, v) -> result, weight in random programs)
def components():
    c = {}
    for cls, k in [("TwoWayCross", 2), ("TwoWayDHCross", 2), ("ThreeWayCross", 3), ("ThreeWayDHCross", 3),
                   ("FourWayCross", 4), ("FourWayDHCross", 4), ("SelfCross", 1)]:
        c["mate." + cls] = (True, _mate(cls, k), 3)
        OBJ["mate." + cls] = _mate_obj(cls, k)
    c["pt.G_E_Phenotyping"] = (True, _phenotype, 6)
    OBJ["pt.G_E_Phenotyping"] = (lambda rng, v: (_pheno_new(rng, v), None), lambda o, v: o.phenotype(fixtures()["pg"]))
    c["samp.stochastic_universal_sampling"] = (True, _sus, 4)
    c["samp.tiled_choice"] = (True, _tiled, 4)
    c["samp.axis_shuffle"] = (True, _axis_shuffle, 3)
    c["samp.outcross_shuffle"] = (True, _outcross, 3)
    for nm, decn, mate, w in [
            ("SubsetSelectionConfiguration", [1, 3, 4, 6, 8, 9], False, 3),      # 6 selected: ncross 3 = one complete set
            ("IntegerSelectionConfiguration", [0, 2, 1, 0, 3, 0, 1, 0, 2, 1], False, 2),
            ("RealSelectionConfiguration", [0.0, 0.2, 0.1, 0.0, 0.3, 0.0, 0.1, 0.0, 0.2, 0.1], False, 2),
            ("BinarySelectionConfiguration", [0, 1, 1, 0, 1, 0, 1, 0, 1, 1], False, 2),
            ("SubsetMateSelectionConfiguration", [0, 2, 3, 4], True, 2),
            ("IntegerMateSelectionConfiguration", [1, 0, 2, 1, 0], True, 0.7),
            ("RealMateSelectionConfiguration", [0.25, 0.0, 0.5, 0.125, 0.125], True, 0.7),
            ("BinaryMateSelectionConfiguration", [1, 0, 1, 1, 0], True, 0.7)]:
        c["cfg." + nm] = (True, _cfg(nm, decn, mate), w)
        OBJ["cfg." + nm] = (_cfg_new(nm, decn, mate), _cfg_use)
    hc = "SteepestDescentSubsetHillClimber"
    c["opt." + hc] = (True, _opt(hc, hc, "subset", 1, ga=False), 3)
    OBJ["opt." + hc] = (_opt_new(hc, hc, ga=False), _opt_use("subset", 1))
    c["opt.SortingSubsetOptimizationAlgorithm"] = (False, _opt_det("SortingSubsetOptimizationAlgorithm", "SortingSubsetOptimizationAlgorithm"), 1)
    c["opt.SortingSteepestDescentSubsetHillClimber"] = (False, _opt_det("SortingSteepestDescentSubsetHillClimber", "SortingSteepestDescentSubsetHillClimber"), 1)
    for mod, cls, kind, nobj in GA_CLASSES:
        c["opt." + cls] = (True, _opt(mod, cls, kind, nobj), 0.25 if mod == cls else 0.2)
        OBJ["opt." + cls] = (_opt_new(mod, cls), _opt_use(kind, nobj))
    c["cmat.apply_jitter"] = (False, _jitter, 3)
    c["embv.from_gmod"] = (False, _embv, 3)
    c["sel.EBVSubset.select"] = (True, _select("EBVSubset"), 1)
    OBJ["sel.EBVSubset.select"] = (_select_new("EBVSubset"), _select_use)
    c["sel.RandomSubset.select"] = (True, _select("RandomSubset"), 0.5)
    OBJ["sel.RandomSubset.select"] = (_select_new("RandomSubset"), _select_use)
    for kind in ("Real", "Integer", "Binary"):
        c["sel.EBV" + kind + ".select"] = (True, _select("EBV" + kind), 0.3)
        OBJ["sel.EBV" + kind + ".select"] = (_select_new("EBV" + kind), _select_use)
    for kind in ("Subset", "Real", "Integer", "Binary"):       # the four MateSelectionProtocol base classes
        c["sel.OHV" + kind + ".select"] = (True, _select("OHV" + kind), 0.3)
        OBJ["sel.OHV" + kind + ".select"] = (_select_new("OHV" + kind), _select_use)
    for kind in ("Subset", "Real", "Integer", "Binary"):
        c["selprob.Random" + kind] = (True, _selprob(kind), 0.6)
        OBJ["selprob.Random" + kind] = (_selprob_new(kind), _selprob_use)
    c["sel.ctor_rng"] = (True, _ctor_rng, 0.5)
    # secondary entry points
    c["prng.seed"] = (False, _seed_comp, 0.5)
    c["prng.wrappers"] = (False, _wrappers, 2)
    c["prng.spawn_opts"] = (False, _spawn_opts, 1)
    c["util.dense_cross"] = (True, _dense_cross, 1.5)
    for cls, multi, kw in [("UnconstrainedSetGeneticAlgorithm", False, dict(ngen=3, mu=6, lamb=6)),
                           ("UnconstrainedNSGA2SetGeneticAlgorithm", True, dict(ngen=3, mu=8, lamb=8)),
                           ("UnconstrainedSteepestAscentSetHillClimber", False, {})]:
        c["opt." + cls] = (True, _uncon(cls, multi, **kw), 0.4)
        OBJ["opt." + cls] = (_uncon_new(cls, **kw), _uncon_use(multi))
    c.update(large_components())
    return c


OBJ = {}       # name -> (new(rng, v) -> (object, observable of the construction | None), use(object, v) -> result)


def has_obj(name):
    comps()
    return name in OBJ


def set_rng(name, obj, rng):
    """`obj.rng = rng` — for a selection protocol also on the optimiser it owns (the protocol and its `soalgo` are
    two holders of the generator the caller configured the protocol with)"""
    obj.rng = rng
    if name.startswith("sel."):
        for a in ("soalgo", "moalgo"):
            if getattr(obj, a, None) is not None:
                getattr(obj, a).rng = rng


# ---- objects derived from objects: the copy API of a stochastic class (copy.deepcopy / copy.copy / .deepcopy() /
# .copy()).  Only classes that DEFINE their own copy semantics take part (python's default deep copy of a class
# without one clones whatever generator the object holds, which is the caller's business, not the library's).
_COPY_HOWS = {}


def copy_hows(name):
    """ways of duplicating an object of the component's class through an API the class defines itself"""
    if name in _COPY_HOWS:
        return _COPY_HOWS[name]
    hows = []
    if name in OBJ:
        st_py, st_np = random.getstate(), numpy.random.get_state()
        try:
            obj = OBJ[name][0](None, 0)[0]
            own = [c for c in type(obj).__mro__ if (c.__module__ or "").startswith("pybrops")]
            if any("__deepcopy__" in vars(c) for c in own):
                hows.append("deepcopy")
            if any("__copy__" in vars(c) for c in own):
                hows.append("copy")
            if any("deepcopy" in vars(c) for c in own):
                hows.append("m_deepcopy")
            if any("copy" in vars(c) for c in own):
                hows.append("m_copy")
        finally:
            random.setstate(st_py)
            numpy.random.set_state(st_np)
    _COPY_HOWS[name] = hows
    return hows


def do_copy(obj, how):
    if how == "deepcopy":
        return copy.deepcopy(obj)
    if how == "copy":
        return copy.copy(obj)
    if how == "m_deepcopy":
        return obj.deepcopy()
    if how == "m_copy":
        return obj.copy()
    raise ValueError(how)


_COMPS = None


def comps():
    global _COMPS
    if _COMPS is None:
        compat.import_pybrops()
        _COMPS = components()
    return _COMPS


BITGENS = ("PCG64", "MT19937", "Philox", "SFC64", "PCG64DXSM")     # index = `bg` of the model's SOpt


def spawn_args(op):
    """(BitGenerator class, sbits) of a `spawn` operation (defaults: PCG64, 64)"""
    return getattr(numpy.random, BITGENS[op.get("bg", 0)]), op.get("sbits", 64)


_BG_OF = {"pcg": "PCG64", "mt": "MT19937", "philox": "Philox", "sfc": "SFC64", "dxsm": "PCG64DXSM"}
EXT_HIST_COMPS = ("pt.G_E_Phenotyping", "mate.TwoWayCross", "samp.tiled_choice", "samp.stochastic_universal_sampling",
                  "cfg.RealSelectionConfiguration", "samp.axis_shuffle")     # what a caller generator did before


def gen_checkpoint(g):
    """the generator's stream position the way a caller checkpoints it (bit_generator.state / get_state())"""
    return g.get_state() if isinstance(g, numpy.random.RandomState) else copy.deepcopy(g.bit_generator.state)


def gen_restore(g, ck):
    if isinstance(g, numpy.random.RandomState):
        g.set_state(ck)
    else:
        g.bit_generator.state = ck


def make_gen(spec, which="a"):
    """caller-side generator from a JSON spec [kind, seed] or [kind, seed, history], kind = "pcg" | "mt" | "philox" |
    "sfc" | "dxsm" (numpy Generator on PCG64 / MT19937 / Philox / SFC64 / PCG64DXSM) | "rs" (legacy RandomState).  The HISTORY of the generator object - how its stream
    position was established - is part of the case:
      absent                      created from the seed (`Generator(PCG64(seed))`)
      {"how": "transplant"}       created WITHOUT a seed (OS entropy) and handed the state of a seeded twin through
                                  `bit_generator.state = ...` / `set_state(...)` - a resumed simulation
      {"how": "reused", "a": [[component, v], ...], "b": [...]}
                                  created from the seed, checkpointed, used by the listed component calls (execution
                                  A: list `a`, execution B: list `b`), then RESTORED to the checkpoint
    In every form the generator enters the program in exactly the state of `Generator(BG(seed))`."""
    kind, s = spec[0], spec[1]
    hist = spec[2] if len(spec) > 2 and spec[2] else {}
    how = hist.get("how", "seeded")
    if (kind != "rs" and kind not in _BG_OF) or how not in ("seeded", "transplant", "reused"):
        raise ValueError(spec)
    if kind == "rs":
        g = numpy.random.RandomState(int(s))
    else:
        g = numpy.random.Generator(getattr(numpy.random, _BG_OF[kind])(int(s)))
    if how == "transplant":
        ck = gen_checkpoint(g)
        g = numpy.random.RandomState() if kind == "rs" else numpy.random.Generator(getattr(numpy.random, _BG_OF[kind])())
        gen_restore(g, ck)
    elif how == "reused":
        ck = gen_checkpoint(g)
        for name, v in hist.get(which, []):
            comps()[name][1](g, v)
        gen_restore(g, ck)
    return g


# ------------------------------------------------------------------------------------------------
# static tie: AST scan of every pybrops module for entropy call sites; which measured component executes them
# ------------------------------------------------------------------------------------------------
_NP_CTORS = {"default_rng", "SeedSequence", "RandomState", "Generator", "PCG64", "PCG64DXSM", "MT19937", "Philox",
             "SFC64", "BitGenerator"}
_NP_IGNORE = {"mtrand", "bit_generator", "_generator", "_pcg64", "_mt19937", "_philox", "_sfc64"}
_PY_CTORS = {"Random", "SystemRandom"}
_TIME_FNS = {"time", "time_ns", "perf_counter", "perf_counter_ns", "monotonic", "monotonic_ns", "process_time",
             "process_time_ns", "now", "utcnow", "today"}


def _scan_source(src, mod):
    tree = ast.parse(src)
    np_alias, nprand_alias, pyrand_alias, os_alias, time_alias = set(), set(), set(), set(), set()
    from_names = {}
    for node in ast.walk(tree):
        if isinstance(node, ast.Import):
            for a in node.names:
                nm = a.asname or a.name.split(".")[0]
                if a.name == "numpy":
                    np_alias.add(nm)
                elif a.name == "numpy.random":
                    (nprand_alias if a.asname else np_alias).add(a.asname or "numpy")
                elif a.name == "random":
                    pyrand_alias.add(nm)
                elif a.name == "os":
                    os_alias.add(nm)
                elif a.name in ("time", "datetime", "secrets", "uuid"):
                    time_alias.add(nm)
        elif isinstance(node, ast.ImportFrom) and node.module:
            for a in node.names:
                from_names[a.asname or a.name] = (node.module, a.name)
                if node.module == "numpy" and a.name == "random":
                    nprand_alias.add(a.asname or a.name)
    sites = []
    # classes of this module that derive (directly or through another class of the module) from an operator base
    # class of a plug-in framework (pymoo Sampling / Crossover / Mutation ...)
    plugin_cls = set()
    cls_bases = {}
    for node in tree.body:
        if isinstance(node, ast.ClassDef):
            bs = []
            for b in node.bases:
                if isinstance(b, ast.Name):
                    bs.append(b.id)
                elif isinstance(b, ast.Attribute):
                    d_ = []
                    x = b
                    while isinstance(x, ast.Attribute):
                        d_.append(x.attr)
                        x = x.value
                    if isinstance(x, ast.Name):
                        bs.append(".".join([x.id] + d_[::-1]))
            cls_bases[node.name] = bs
    changed = True
    while changed:
        changed = False
        for c_, bs in cls_bases.items():
            if c_ in plugin_cls:
                continue
            for b in bs:
                head = b.split(".")[0]
                src_mod = from_names.get(head, (head, None))[0] if head in from_names else head
                if b in plugin_cls or (src_mod or "").split(".")[0] in PLUGIN_PKGS:
                    plugin_cls.add(c_)
                    changed = True
                    break
    name_refs = []          # (identifier, enclosing function qualname) of every Name load inside a function

    def dotted(n):
        parts = []
        while isinstance(n, ast.Attribute):
            parts.append(n.attr)
            n = n.value
        if isinstance(n, ast.Name):
            parts.append(n.id)
            return list(reversed(parts))
        return None

    def classify(d):
        """(family, name) of a dotted reference, or None"""
        if d[0] in from_names and len(d) >= 1:
            m, a = from_names[d[0]]
            if m == "numpy.random":
                return ("np", a)
            if m == "random":
                return ("py", a)
            if m == "os" and a in ("urandom", "getrandom", "getpid", "getppid", "times"):
                return ("os", a)
            if m == "time" and a in _TIME_FNS:
                return ("time", a)
            if m == "datetime" and len(d) >= 2 and d[1] in _TIME_FNS:
                return ("time", a + "." + d[1])
            if m in ("secrets", "uuid"):
                return ("os", m + "." + a)
            if m.endswith("random.prng") and a == "global_prng":
                return ("gprng", a)
            if m == "numpy" and a == "random" and len(d) >= 2:
                return ("np", d[1])
        if len(d) >= 3 and d[0] in np_alias and d[1] == "random":
            return ("np", d[2])
        if len(d) >= 2 and d[0] in nprand_alias:
            return ("np", d[1])
        if len(d) >= 2 and d[0] in pyrand_alias:
            return ("py", d[1])
        if len(d) >= 2 and d[0] in os_alias and d[1] in ("urandom", "getrandom", "getpid", "getppid", "times"):
            return ("os", d[1])
        if len(d) >= 2 and d[0] in time_alias:
            if d[0] in ("secrets", "uuid"):
                return ("os", ".".join(d[:2]))
            if d[-1] in _TIME_FNS or d[1] in _TIME_FNS:
                return ("time", ".".join(d))
        if d == ["global_prng"] and mod.endswith("random.prng"):
            return None
        return None

    class V(ast.NodeVisitor):
        def __init__(self):
            self.stack = []
            self.called = set()
            self.default_ok = set()
            self.seed_ctx = 0       # > 0 inside the arguments of a seeding call / the value of a `*seed*` variable
            self.params = []        # parameter names of the enclosing functions

        def visit_Assign(self, n):
            named_seed = any(isinstance(t, ast.Name) and "seed" in t.id.lower() or
                             isinstance(t, ast.Attribute) and "seed" in t.attr.lower() for t in n.targets)
            self.seed_ctx += named_seed
            self.generic_visit(n)
            self.seed_ctx -= named_seed

        def qual(self):
            return ".".join(self.stack) or "<module>"

        def visit_ClassDef(self, n):
            self.stack.append(n.name)
            self.generic_visit(n)
            self.stack.pop()

        def visit_FunctionDef(self, n):
            for dflt in list(n.args.defaults) + [d for d in n.args.kw_defaults if d is not None]:
                if isinstance(dflt, ast.Name):
                    self.default_ok.add(id(dflt))           # `def f(rng = global_prng)`
            for dec in n.decorator_list:
                self.visit(dec)
            self.visit(n.args)
            params = [a.arg for a in n.args.posonlyargs + n.args.args + n.args.kwonlyargs]
            self.stack.append(n.name)
            # a function that takes a generator must hand it on: `rng` parameter never read
            body = [b for b in n.body if not (isinstance(b, ast.Expr) and isinstance(getattr(b, "value", None), ast.Constant))]
            if "rng" in params and body and not all(isinstance(b, (ast.Pass, ast.Raise)) for b in body):
                if not any(isinstance(x, ast.Name) and x.id == "rng" and isinstance(x.ctx, ast.Load) for b in body for x in ast.walk(b)):
                    sites.append((mod, self.qual(), "rng-unused", "rng"))
            self.stack.append("<locals>")
            self.params.append(params)
            for b in n.body:
                self.visit(b)
            self.params.pop()
            self.stack.pop()
            self.stack.pop()

        visit_AsyncFunctionDef = visit_FunctionDef

        def visit_If(self, n):
            # `if x is None: x = global_prng`
            t = n.test
            if (isinstance(t, ast.Compare) and len(t.ops) == 1 and isinstance(t.ops[0], ast.Is)
                    and isinstance(t.comparators[0], ast.Constant) and t.comparators[0].value is None):
                for b in n.body:
                    if isinstance(b, ast.Assign) and isinstance(b.value, ast.Name):
                        self.default_ok.add(id(b.value))
            self.generic_visit(n)

        def visit_IfExp(self, n):
            t = n.test
            if (isinstance(t, ast.Compare) and len(t.ops) == 1 and isinstance(t.ops[0], (ast.Is, ast.IsNot))
                    and isinstance(t.comparators[0], ast.Constant) and t.comparators[0].value is None):
                for b in (n.body, n.orelse):
                    if isinstance(b, ast.Name):
                        self.default_ok.add(id(b))
            self.generic_visit(n)

        def add(self, kind, what):
            # clocks and process / host identity are only entropy when they end up in a seed: elapsed-time logging,
            # temporary file names etc. are none of this property's business (and the two executions of every
            # case see different clocks and pids anyway, so a seed that reaches a result shows up dynamically)
            soft = kind == "time" or (kind == "os" and (what in ("getpid", "getppid", "times") or what.startswith("uuid")))
            if soft and self.seed_ctx == 0:
                return
            q = self.qual()
            if q.endswith(".<locals>"):
                q = q[:-len(".<locals>")]
            sites.append((mod, q, kind, what))

        def visit_Call(self, n):
            d = dotted(n.func)
            # a generator is in scope (an `rng` parameter, or `self` of an object that may hold one) and the callee is ...
            if self.params and ("rng" in self.params[-1] or "self" in self.params[-1]):
                q_ = self.qual()
                q_ = q_[:-len(".<locals>")] if q_.endswith(".<locals>") else q_
                for k in n.keywords:        # ... told to use the global generator: `rng = None` / `rng = global_prng`
                    if k.arg == "rng" and ((isinstance(k.value, ast.Constant) and k.value.value is None)
                                           or (isinstance(k.value, ast.Name) and k.value.id == "global_prng")):
                        sites.append((mod, q_, "rng-dropped", "rng = " + ("None" if isinstance(k.value, ast.Constant) else "global_prng")))
                callee = n.func.id if isinstance(n.func, ast.Name) else (n.func.attr if isinstance(n.func, ast.Attribute) else None)
                if callee in _RNG_CLASSES and not any(k.arg == "rng" or k.arg is None for k in n.keywords) \
                        and not any(isinstance(a_, ast.Starred) for a_ in n.args) and len(n.args) <= _RNG_CLASSES[callee]:
                    # ... a stochastic class constructed without any generator (its default is the global one)
                    sites.append((mod, q_, "rng-omitted", callee))
            if isinstance(n.func, ast.Name) and n.func.id in ("id", "hash") and self.seed_ctx:
                # a memory address / a randomised string hash that ends up in a seed
                sites.append((mod, (self.qual()[:-len(".<locals>")] if self.qual().endswith(".<locals>") else self.qual()),
                              "os", "builtin " + n.func.id + "()"))
            if d:
                c = classify(d)
                if c:
                    self.called.add(id(n.func))
                    fam, name = c
                    unseeded = not n.args and not any(k.arg in ("seed", "entropy", "x", "a") for k in n.keywords)
                    if fam == "np":
                        if name in _NP_CTORS:
                            if unseeded and name not in ("Generator", "BitGenerator"):
                                self.add("os", name)
                        elif name == "seed" and unseeded:
                            self.add("os", "numpy.random.seed()")
                        elif name not in _NP_IGNORE:
                            self.add("np", name)
                    elif fam == "py":
                        if name in _PY_CTORS:
                            if unseeded or name == "SystemRandom":
                                self.add("os", "random." + name)
                        elif name == "seed" and unseeded:
                            self.add("os", "random.seed()")
                        elif name not in ("getstate", "setstate"):
                            self.add("py", name)
                    elif fam in ("os", "time"):
                        self.add(fam, name)
                    elif fam == "gprng":
                        self.add("gprng", "global_prng()")
            seeding = False
            if d:
                c2 = classify(d)
                seeding = bool(c2) and ((c2[0] == "np" and (c2[1] in _NP_CTORS or c2[1] == "seed"))
                                        or (c2[0] == "py" and c2[1] in ("seed", "Random")))
                seeding = seeding or d[-1].lower() in ("seed", "default_rng", "randomstate", "seedsequence")
            self.seed_ctx += seeding
            for child in ast.iter_child_nodes(n):
                # `f(..., seed = <expr>)` / `random_state = <expr>`: the expression ends up in a seed
                kw_seed = isinstance(child, ast.keyword) and child.arg is not None and (
                    "seed" in child.arg.lower() or child.arg.lower() in ("random_state", "entropy"))
                self.seed_ctx += kw_seed
                self.visit(child)
                self.seed_ctx -= kw_seed
            self.seed_ctx -= seeding

        def visit_Attribute(self, n):
            if id(n) not in self.called:
                d = dotted(n)
                if d:
                    c = classify(d)
                    if c:
                        fam, name = c
                        if fam == "np" and name not in _NP_CTORS and name not in _NP_IGNORE and name[:1].islower():
                            self.add("npref", name)
                        elif fam == "py" and name not in _PY_CTORS and name[:1].islower():
                            self.add("py", name)
                        elif fam in ("os", "time"):
                            self.add(fam, name)
                        elif fam == "gprng":
                            self.add("gprng", "global_prng." + ".".join(d[1:]))
                        self.called.add(id(n))
                        # do not descend: the inner attribute chain is the same reference
                        return
            self.generic_visit(n)

        def visit_Name(self, n):
            if isinstance(n.ctx, ast.Load) and self.stack:
                name_refs.append((n.id, self.qual()))
            if n.id in from_names and id(n) not in self.called:
                m, a = from_names[n.id]
                if m.endswith("random.prng") and a == "global_prng":
                    self.add("gprng-default" if id(n) in self.default_ok else "gprng", "global_prng")
                else:
                    c = classify([n.id])
                    if c and c[0] in ("os", "time"):
                        self.add(c[0], c[1])
                    elif c and c[0] == "np" and c[1] not in _NP_CTORS and c[1][:1].islower():
                        self.add("npref", c[1])
                    elif c and c[0] == "py" and c[1] not in _PY_CTORS and c[1][:1].islower():
                        self.add("py", c[1])

    V().visit(tree)
    # scope of a site: inside a plug-in operator class, or inside a module-level helper that is referenced only
    # from such classes (and imported by no other module: checked in scan_static)
    top_funcs = {n.name for n in tree.body if isinstance(n, (ast.FunctionDef, ast.AsyncFunctionDef))}
    for (m_, q, _k, _w) in sites:
        top = q.split(".")[0]
        if top in plugin_cls:
            _SCOPED[(m_, q)] = True
        elif top in top_funcs:
            refs = [rq for (nm, rq) in name_refs if nm == top and rq.split(".")[0] != top]
            _SCOPED[(m_, q)] = bool(refs) and all(rq.split(".")[0] in plugin_cls for rq in refs)
        else:
            _SCOPED.setdefault((m_, q), False)
    for nm, (m_, a_) in from_names.items():
        _IMPORTED.add((m_, a_))
    return sites


_SCOPED = {}        # (module, function qualname) -> the function only runs as part of a plug-in operator
_IMPORTED = set()   # (module, name) pairs imported with `from module import name` anywhere in the package


def site_scoped(mod, q):
    """plug-in operator scope (see _scan_source); a module-level helper imported elsewhere is not scoped"""
    scan_static()
    if not _SCOPED.get((mod, q), False):
        return False
    top = q.split(".")[0]
    return (mod, top) not in _IMPORTED


_SCAN = None
_PREFILTER = __import__("re").compile(r"random|global_prng|urandom|secrets|uuid|\btime\b|datetime|seed|rng")


_RNG_CLASSES = {}      # class name -> position of `rng` among the positional parameters of its __init__ (without self)


def scan_static():
    """[(module, function qualname, kind, what)] with multiplicity, for every module of the package"""
    global _SCAN
    if _SCAN is not None:
        return _SCAN
    root = compat.REPO
    out = []
    files = []
    for dp, _dn, fns in os.walk(os.path.join(root, "pybrops")):
        if os.sep + "test" in dp:
            continue
        for f in sorted(fns):
            if not f.endswith(".py"):
                continue
            path = os.path.join(dp, f)
            mod = os.path.relpath(path, root)[:-3].replace(os.sep, ".")
            if mod.endswith(".__init__"):
                mod = mod[:-len(".__init__")]
            try:
                src = open(path, encoding="utf-8", errors="replace").read()
            except OSError:
                continue
            if not _PREFILTER.search(src):       # no import of an entropy source, no generator: nothing to find
                continue
            files.append((mod, src))
    # pass 1: the stochastic classes of the package (their constructor has an `rng` parameter)
    _RNG_CLASSES.clear()
    for mod, src in files:
        if "rng" not in src:
            continue
        try:
            tree = ast.parse(src)
        except SyntaxError:
            continue
        for node in tree.body:
            if isinstance(node, ast.ClassDef):
                for b in node.body:
                    if isinstance(b, ast.FunctionDef) and b.name == "__init__":
                        pos = [a.arg for a in b.args.posonlyargs + b.args.args][1:]
                        if "rng" in pos:
                            _RNG_CLASSES[node.name] = pos.index("rng")
                        elif "rng" in [a.arg for a in b.args.kwonlyargs]:
                            _RNG_CLASSES[node.name] = 10 ** 6
    # pass 2: the sites
    for mod, src in files:
        try:
            out += _scan_source(src, mod)
        except SyntaxError:
            out.append((mod, "<module>", "os", "unparsable-source"))
    _SCAN = out
    return out


class Reach:
    """which functions that contain a site are executed during the measurement of which component
    (sys.monitoring PY_START on exactly those code objects: no overhead elsewhere)"""

    def __init__(self):
        self.codes = {}          # code object -> (module, qualname)
        self.hit = set()
        self.by_row = {}         # (module, qualname) -> [row names]
        self.on = False

    def install(self):
        import importlib
        import types
        want = {}
        for mod, q, kind, _w in scan_static():
            if q != "<module>":
                want.setdefault(mod, set()).add(q)
        for mod, quals in want.items():
            try:
                m = importlib.import_module(mod)
            except Exception:
                continue
            fname = getattr(m, "__file__", None)
            seen = set()

            def walk_code(co):
                if co in seen:
                    return
                seen.add(co)
                q = getattr(co, "co_qualname", co.co_name)
                if q in quals:
                    self.codes[co] = (mod, q)
                for k in co.co_consts:
                    if isinstance(k, types.CodeType):
                        walk_code(k)

            def walk_obj(o, depth=0):
                if depth > 3:
                    return
                if isinstance(o, (staticmethod, classmethod)):
                    o = o.__func__
                if isinstance(o, property):
                    for f in (o.fget, o.fset, o.fdel):
                        if f is not None:
                            walk_obj(f, depth + 1)
                    return
                co = getattr(o, "__code__", None)
                if isinstance(co, types.CodeType):
                    if co.co_filename == fname:
                        walk_code(co)
                    return
                if isinstance(o, type) and getattr(o, "__module__", None) == mod:
                    for v in list(vars(o).values()):
                        walk_obj(v, depth + 1)
            for v in list(vars(m).values()):
                walk_obj(v)
        mon = sys.monitoring
        self.tool = mon.PROFILER_ID
        try:
            mon.use_tool_id(self.tool, "c08-reach")
        except ValueError:
            return False
        mon.register_callback(self.tool, mon.events.PY_START, self._cb)
        for co in self.codes:
            mon.set_local_events(self.tool, co, mon.events.PY_START)
        self.on = True
        return True

    def _cb(self, code, offset):
        self.hit.add(code)
        return sys.monitoring.DISABLE

    def begin(self):
        if self.on:
            self.hit = set()
            sys.monitoring.restart_events()

    def end(self, rowname):
        if self.on:
            for co in self.hit:
                key = self.codes.get(co)
                if key:
                    self.by_row.setdefault(key, [])
                    if rowname not in self.by_row[key]:
                        self.by_row[key].append(rowname)

    def uninstall(self):
        if self.on:
            mon = sys.monitoring
            for co in self.codes:
                mon.set_local_events(self.tool, co, 0)
            mon.register_callback(self.tool, mon.events.PY_START, None)
            mon.free_tool_id(self.tool)
            self.on = False


def static_allow():
    """allow-list from the `via` tokens of the C08 `finding:` lines, plus the definition of `global_prng` itself
    (pybrops.core.random.prng refers to numpy.random.random to get at the global RandomState).
    `npfn:<module>` / `pyfn:<module>` (a finding about the plug-in operators of a module / about a library the module
    calls) -> (kind, module): covers sites in operator scope only; `<k>:<module>:<function>` -> ("static",
    "module:function"): covers that function only."""
    allow = [("static", "pybrops.core.random.prng", "<module>")]
    for f in findings.load("C08"):
        for t in f["match"].get("via", "").split("+"):
            parts = t.split(":")
            if len(parts) < 2 or not parts[1].startswith("pybrops"):
                continue
            k, m = parts[0], parts[1]
            if len(parts) >= 3:
                if k in ("npfn", "pyfn", "gprng", "static"):
                    allow.append(("static", m, ":".join(parts[2:])))
            elif k == "npfn":
                allow += [("np", m, ""), ("npref", m, "")]
            elif k == "pyfn":
                allow.append(("py", m, ""))
            elif k == "gprng":
                allow.append(("gprng", m, ""))
    return sorted(set(allow))


def _stream_in(kind, row):
    if kind in ("np", "npref", "gprng"):
        return row["glob"]["np"] and (not row["accepts"] or row["expl"]["np"])
    if kind == "py":
        return row["glob"]["py"] and (not row["accepts"] or row["expl"]["py"])
    return False


def static_table(rows, reach):
    """sites grouped by (module, function, kind, callee) with multiplicity; `reached` = indices of (at most four)
    measured rows that executed the function and whose measured set contains the stream the site addresses,
    else of (at most two) rows that executed it"""
    idx = {r["name"]: i for i, r in enumerate(rows)}
    cnt = {}
    for key in scan_static():
        cnt[key] = cnt.get(key, 0) + 1
    out = []
    for (mod, q, kind, what), c in sorted(cnt.items()):
        names = reach.by_row.get((mod, q), []) if reach is not None else []
        good = [idx[n] for n in names if n in idx and _stream_in(kind, rows[idx[n]])][:4]
        other = [idx[n] for n in names if n in idx][:2]
        out.append({"module": mod, "func": q, "kind": kind, "what": what, "count": c, "reached": good or other,
                    "scoped": site_scoped(mod, q)})
    return out


def render_static(sites, allow):
    out = ["/- GENERATED by harness/props/c08.py (pre_build): AST scan of every module under /repo/pybrops for calls of",
           "   numpy.random.* / random.* / default_rng() / SeedSequence() / os.urandom / clocks and uses of global_prng,",
           "   with the measured components (row indices of Generated/C08Deps.lean) that execute the enclosing function.",
           "   Do not edit: rewritten by every `./check C08` run when the scan changes. -/",
           "import PybropsModel.Model.Prng", "", "namespace C08Static", "open Prng", "", "def sites : List Site := ["]
    lines = []
    for x in sites:
        lines.append(f"  ⟨{_lean_str(x['module'])}, {_lean_str(x['func'])}, {_lean_str(x['kind'])}, {_lean_str(x['what'])}, "
                     f"{x['count']}, [{', '.join(str(i) for i in x['reached'])}], {'true' if x['scoped'] else 'false'}⟩")
    out.append(",\n".join(lines))
    out += ["]", "", "def allow : List (String × String × String) := ["
            + ", ".join(f"({_lean_str(k)}, {_lean_str(m)}, {_lean_str(f)})" for k, m, f in allow) + "]", "", "end C08Static", ""]
    return "\n".join(out)


# ------------------------------------------------------------------------------------------------
# measurement of the dependency table (pre_build)
# ------------------------------------------------------------------------------------------------
def _call(name, rng, v=0):
    return dig(comps()[name][1](rng, v))


def attribute_leak(name, v, gen_spec_or_state):
    """re-run one explicit-generator call with recording proxies to find out WHO drew from a global
    stream; the global states are restored afterwards"""
    st_py, st_np = random.getstate(), numpy.random.get_state()
    log = set()
    try:
        g = gen_spec_or_state() if callable(gen_spec_or_state) else make_gen(gen_spec_or_state)
        with TR as tr, traced_global(log):
            tr.begin()
            try:
                comps()[name][1](g, v)
            except Exception:
                pass
            os_s, npfn_s = tr.end()
    finally:
        random.setstate(st_py)
        numpy.random.set_state(st_np)
    sites = sorted(set(npfn_s) | set(os_s) | log)
    return sites


def attribute_obj_leak(name, obj, v):
    """who drew from a global stream during a method call of an object that holds its own generator?
    Re-run with recording proxies: every holder (the object, its sub-objects) of the object's generator draws from
    a clone of it, every holder of the global generator draws through the proxy; afterwards each holder has
    exactly the generator it had, and the global states are restored."""
    st_py, st_np = random.getstate(), numpy.random.get_state()
    old = getattr(obj, "_rng", None)
    log = set()
    os_s = npfn_s = []
    try:
        subs = [obj] + [x for x in vars(obj).values() if hasattr(x, "__dict__")]
    except TypeError:
        subs = [obj]
    swapped = []
    try:
        with TR as tr, traced_global(log) as proxy:
            clone = copy.deepcopy(old) if (old is not None and old is not _RAND) else None
            for o in subs:
                r = getattr(o, "_rng", None)
                if r is _RAND:
                    swapped.append((o, r))
                    o._rng = proxy
                elif clone is not None and r is old:
                    swapped.append((o, r))
                    o._rng = clone
            tr.begin()
            try:
                OBJ[name][1](obj, v)
            except Exception:
                pass
            os_s, npfn_s = tr.end()
    finally:
        for o, r in swapped:
            o._rng = r
        random.setstate(st_py)
        numpy.random.set_state(st_np)
    return sorted(set(npfn_s) | set(os_s) | log)


def measure_component(name, tr):
    """rows are measured at v=0 (in full) and v=1 (one call per mode), merged; for `@large` rows these are the two
    sizes (v=0: 12 000, v=1: 70 000)"""
    if "HillClimber" in name and is_large(name):      # one size only, two calls (O(n) objective evaluations per sweep)
        return measure_component_at(name, tr, 0, light=True)
    # small rows: variant 0 in full, variant 1 (the other branch of two-branch components: multi-objective select(),
    # tie-rich problems, two environments ...) with one call per mode; `@large` rows: both sizes
    a = measure_component_at(name, tr, 0)
    b = measure_component_at(name, tr, 1, light=True)
    for mode in ("glob", "expl"):
        for k in a[mode]:
            a[mode][k] = a[mode][k] or b[mode][k]
    a["osSites"] = sorted(set(a["osSites"]) | set(b["osSites"]))
    a["leakSites"] = sorted(set(a["leakSites"]) | set(b["leakSites"]))
    return a


def measure_component_at(name, tr, v0, light=False):
    import pybrops.core.random.prng as prng
    accepts, fn, _w = comps()[name]
    row = {"name": name, "accepts": accepts}

    def globmode():
        prng.seed(777)
        p0, n0 = py_state(), np_state()
        tr.begin()
        out = _call(name, None, v0)
        os_s, npfn_s = tr.end()
        return out, {"own": False, "py": py_state() != p0, "np": np_state() != n0, "os": bool(os_s)}, os_s

    out1, g1, os1 = globmode()
    if os1 and not all(s_ in known_sites()[0] for s_ in os1):
        # (ii)+(iii): is the acquired OS entropy USED?  Substitute different oracles from identical streams.
        # (numpy.random.RandomState(seed) e.g. acquires OS entropy for a bit generator it re-seeds at once.)
        # Sites that are known findings are never downgraded, so the table of the unchanged tree is stable.
        res = []
        for key in (1, 2, 3):
            tr.oracle, tr._count = key, 0
            try:
                o, _g, _s = globmode()
                res.append((o, py_state(), np_state()))
            finally:
                tr.oracle = None
        if res[0] == res[1] == res[2]:
            os1 = []
            g1["os"] = False
    # (iii) perturbation: a different python stream must not change the result unless `py` is read;
    # identical streams must give identical results unless an unseeded source is read.
    # (meaningless for a component already seen to use OS entropy: its results differ anyway)
    if not g1["os"] and not light:
        prng.seed(777)
        if not g1["py"]:
            random.seed(424242)
        out2 = _call(name, None, v0)
        if out2 != out1:
            prng.seed(777)
            out3 = _call(name, None, v0)
            if out3 != out1:
                os1 = ["os:unattributed-nondeterminism:" + name]
                g1["os"] = True
            else:
                g1["py"] = True
    row["glob"] = g1
    os_all = set(os1)
    leak = []
    if accepts:
        def explmode(seed_glob, gkind="pcg"):
            prng.seed(seed_glob)
            own = make_gen([gkind, 4242])
            p0, n0, o0 = py_state(), np_state(), gen_state(own)
            tr.begin()
            out = _call(name, own, v0)
            os_s, npfn_s = tr.end()
            return out, {"own": gen_state(own) != o0, "py": py_state() != p0, "np": np_state() != n0,
                         "os": bool(os_s)}, os_s

        e_out1, e1, eos1 = explmode(777)
        e_out2, e2, eos2 = (e_out1, e1, eos1) if light else explmode(31337)   # other global streams, same own generator
        os_all |= set(eos1) | set(eos2)
        if e_out2 != e_out1 and not (e1["py"] or e1["np"] or e1["os"]):
            # result depends on a global stream that was read without being advanced
            e1["np"] = True
        lk_kind = "pcg"
        if not light:
            # the other way of spelling a caller generator: a legacy RandomState (duck-typed `randint` vs `integers`)
            r_out1, r1, ros1 = explmode(777, "rs")
            os_all |= set(ros1)
            if (r1["py"] or r1["np"] or r1["os"]) and not (e1["py"] or e1["np"] or e1["os"]):
                lk_kind = "rs"
            for k_ in ("own", "py", "np", "os"):
                e1[k_] = e1[k_] or r1[k_]
            if not (e1["py"] or e1["np"] or e1["os"]):
                r_out2, _r2, ros2 = explmode(31337, "rs")
                os_all |= set(ros2)
                if r_out2 != r_out1:
                    e1["np"] = True
                    lk_kind = "rs"
        row["expl"] = e1
        if e1["py"] or e1["np"] or e1["os"]:
            leak = attribute_leak(name, v0, [lk_kind, 4242]) or ["unattributed:" + name]
    else:
        row["expl"] = dict(g1)
    row["osSites"] = sorted(os_all)
    row["leakSites"] = leak
    return row


def measure_object(name, tr, row):
    """long-lived form of a component: streams touched by the constructor (rng=None / explicit), and the fifth
    source `cached`: does the result of a method call after `seed(s)` depend on private state the object acquired
    BEFORE the re-seeding (built under another stream state; used before; generator re-assigned)?"""
    import pybrops.core.random.prng as prng
    new, use = OBJ[name]
    accepts = row["accepts"]
    os_all = set()

    def ctor(rng_of):
        prng.seed(777)
        own = rng_of()
        p0, n0, o0 = py_state(), np_state(), (gen_state(own) if own is not None else None)
        tr.begin()
        obj, first = new(own, 0)
        os_s, _ = tr.end()
        os_all.update(os_s)
        return obj, {"own": own is not None and gen_state(own) != o0, "py": py_state() != p0, "np": np_state() != n0,
                     "os": bool(os_s)}

    _o, row["ctorGlob"] = ctor(lambda: None)
    if accepts:
        _o, row["ctorExpl"] = ctor(lambda: make_gen(["pcg", 4242]))
    else:
        row["ctorExpl"] = dict(row["ctorGlob"])
    cached = False
    if not row["glob"]["os"]:
        def after_history(hist):
            restore_shared()
            prng.seed(1000 + hist)
            numpy.random.random(hist)
            obj, _first = new(None, 0)
            for _ in range(hist - 1):
                use(obj, 0)                        # used a different number of times before the re-seeding
            if hist == 3 and accepts:
                set_rng(name, obj, None)           # the generator re-assigned (setter derives private state again)
            prng.seed(777)
            # (the result AND both global streams afterwards: an optimiser may find the same optimum from another seed)
            return dig(use(obj, 0)), py_state(), np_state()
        outs = [after_history(h) for h in (1, 2, 3)]
        cached = len(set(outs)) > 1
    row["cached"] = cached
    row["osSites"] = sorted(set(row["osSites"]) | os_all)


def measure_spawn(n=2, name="prng.spawn"):
    import pybrops.core.random.prng as prng
    with TR as tr:
        prng.seed(777)
        p0, n0 = py_state(), np_state()
        tr.begin()
        gens = prng.spawn(n)
        os_s, _ = tr.end()
        a = [gen_state(g) for g in gens]
        g = {"own": False, "py": py_state() != p0, "np": np_state() != n0, "os": bool(os_s)}
        prng.seed(777)
        b = [gen_state(x) for x in prng.spawn(n)]
        if a != b and not os_s:
            os_s = ["os:unattributed-nondeterminism:prng.spawn"]
            g["os"] = True
    return {"name": name, "accepts": False, "glob": g, "expl": dict(g), "osSites": sorted(os_s), "leakSites": []}


def warm_up():
    """first calls import modules lazily (scipy.stats draws from an OS-seeded generator at import time):
    run everything once before anything is observed"""
    fixtures()
    st_py, st_np = random.getstate(), numpy.random.get_state()
    for name, (accepts, fn, _w) in comps().items():
        if is_large(name):
            continue
        fn(None, 0)
        if accepts:
            fn(make_gen(["rs", 1]), 1)
    prepare_large()
    random.setstate(st_py)
    numpy.random.set_state(st_np)


_WARM = False
_REACH = None


def measure_table():
    global _WARM
    if not _WARM:
        warm_up()
        _WARM = True
    global _REACH
    reach = Reach()
    try:
        reach.install()
    except Exception:
        reach.on = False
    try:
        reach.begin()
        rows = [measure_spawn()]
        reach.end("prng.spawn")
        rows.append(measure_spawn(300, "prng.spawn@large"))
        with TR as tr:
            for name in comps():
                restore_shared()
                reach.begin()
                row = measure_component(name, tr)
                if name in OBJ:
                    measure_object(name, tr, row)
                reach.end(name)
                rows.append(row)
    finally:
        reach.uninstall()
    _REACH = reach
    restore_shared()
    return rows


def known_cached():
    return sorted({f["match"].get("component") for f in findings.load("C08")
                   if f["match"].get("cond") == "cached_private_state" and f["match"].get("component")})


def known_sites():
    """`via` tokens of the C08 lines of KNOWN_FINDINGS.txt"""
    os_k, leak_k = [], []
    for f in findings.load("C08"):
        via = f["match"].get("via", "")
        toks = [t for t in via.split("+") if t]
        if f["match"].get("cond") == "unseeded_entropy":
            os_k += toks
        if f["match"].get("cond") == "explicit_rng_not_isolated":
            leak_k += toks
            os_k += [t for t in toks if t.startswith("os:")]
    return sorted(set(os_k)), sorted(set(leak_k))


def _lean_str(s):
    return json.dumps(s, ensure_ascii=True)


def _lean_list(xs):
    return "[" + ", ".join(_lean_str(x) for x in xs) + "]"


def _lean_obs(o):
    b = lambda x: "true" if x else "false"
    return f"⟨{b(o['own'])}, {b(o['py'])}, {b(o['np'])}, {b(o['os'])}⟩"


def render_table(rows, os_k, leak_k):
    out = ["/- GENERATED by harness/props/c08.py (pre_build) from measurements on the working tree of /repo.",
           "   Do not edit: every `./check C08` run rewrites this file when the measurement changes.",
           "   Row = component, has-rng-parameter, streams touched with rng=None ⟨own, py, np, os⟩, streams touched",
           "   with an explicit generator, OS-entropy call sites, global-stream leak sites with an explicit generator;",
           "   for classes of long-lived objects: streams touched by the constructor (both modes) and `cached` (a method",
           "   call after seed(s) depends on private state acquired before the re-seeding).",
           "   knownOsSites / knownLeakSites come from the `finding:` lines of KNOWN_FINDINGS.txt. -/",
           "import PybropsModel.Model.Prng", "", "namespace C08Deps", "open Prng", "", "def table : List Row := ["]
    lines = []
    for r in rows:
        extra = ""
        if "ctorGlob" in r:
            extra = (f", ctorGlob := {_lean_obs(r['ctorGlob'])}, ctorExpl := {_lean_obs(r['ctorExpl'])}, "
                     f"cached := {'true' if r['cached'] else 'false'}")
        lines.append(f"  {{ name := {_lean_str(r['name'])}, accepts := {'true' if r['accepts'] else 'false'}, "
                     f"glob := {_lean_obs(r['glob'])}, expl := {_lean_obs(r['expl'])}, "
                     f"osSites := {_lean_list(r['osSites'])}, leakSites := {_lean_list(r['leakSites'])}{extra} }}")
    out.append(",\n".join(lines))
    out += ["]", "", f"def knownOsSites : List String := {_lean_list(os_k)}",
            f"def knownLeakSites : List String := {_lean_list(leak_k)}",
            f"def knownCached : List String := {_lean_list(known_cached())}", "", "end C08Deps", ""]
    return "\n".join(out)


def row_deps(r, ctor=False):
    ek, gk = ("ctorExpl", "ctorGlob") if ctor else ("expl", "glob")
    if ctor and gk not in r:
        return {"rng": False, "py": False, "np": False, "os": False}
    if r["accepts"]:
        e = r[ek]
        return {"rng": e["own"], "py": e["py"], "np": e["np"], "os": e["os"]}
    g = r[gk]
    return {"rng": False, "py": g["py"], "np": g["np"], "os": g["os"]}


# ------------------------------------------------------------------------------------------------
# program execution (implementation side)
# ------------------------------------------------------------------------------------------------
def run_pre(ops):
    """an arbitrary prior interpreter history"""
    import pybrops.core.random.prng as prng
    for op in ops:
        k = op[0]
        if k == "py":
            for _ in range(op[1]):
                random.random()
        elif k == "np":
            numpy.random.random(op[1])
        elif k == "normal":
            numpy.random.standard_normal(op[1])      # leaves a cached gaussian behind when odd
        elif k == "seed":
            prng.seed(op[1])
        elif k == "npseed":
            numpy.random.seed(op[1])
        elif k == "pyseed":
            random.seed(op[1])
        elif k == "osgen":
            numpy.random.default_rng().random(3)
        elif k == "spawn":
            prng.spawn(op[1])
        elif k == "call":
            comps()[op[1]][1](None, op[2])
        else:
            raise ValueError(op)


class Env:
    """what survives from one execution to the next when a case says `share`: the long-lived objects"""
    def __init__(self):
        self.objs = []          # [(name, object)]


def exec_ops(ops, tr, ext, spawned, env):
    """run a list of program operations; returns (step records, spawned list)"""
    import pybrops.core.random.prng as prng
    steps = []
    for op in ops:
        p0, n0 = py_state(), np_state()
        g0 = [gen_state(g) for g in ext] + [gen_state(g) for g in spawned]
        rec = {"py0": p0, "np0": n0}
        clone = rng = None
        a = op.get("rng", "glob")
        if a != "glob":
            rng = ext[a[1]] if a[0] == "ext" else spawned[a[1]]
        if "c" in op and rng is not None:
            clone = copy.deepcopy(rng)      # (unpickling a RandomState acquires OS entropy: keep it out of the window)
        tr.begin()
        if "seed" in op:
            prng.seed(op["seed"])
            spawned = []
            out = "seeded"
        elif "spawn" in op:
            new = prng.spawn(op["spawn"], *spawn_args(op))
            out = dig([gen_state(g) for g in new])
            spawned = spawned + list(new)
        elif "new" in op:
            obj, first = OBJ[op["new"]][0](rng, op.get("v", 0))
            env.objs.append((op["new"], obj))
            out = dig(first)
        elif "use" in op:
            name, obj = env.objs[op["use"]]
            out = dig(OBJ[name][1](obj, op.get("v", 0)))
        elif "setrng" in op:
            name, obj = env.objs[op["setrng"]]
            set_rng(name, obj, rng)
            out = dig(None)
        elif "copy" in op:
            name, obj = env.objs[op["copy"]]
            env.objs.append((name, do_copy(obj, op["how"])))
            out = dig(None)
        else:
            out = dig(comps()[op["c"]][1](rng, op.get("v", 0)))
        os_s, npfn_s = tr.end()
        p1, n1 = py_state(), np_state()
        names = [f"ext{i}" for i in range(len(ext))] + [f"spawned{i}" for i in range(len(spawned))]
        g1 = [gen_state(g) for g in ext] + [gen_state(g) for g in spawned]
        # (an OS-entropy acquisition is recorded in os_sites but is not counted as "touched": it may be inert)
        touched = (["py"] if p1 != p0 else []) + (["np"] if n1 != n0 else [])
        if "seed" in op:
            touched = ["py", "np"]
        for i, nm in enumerate(names):
            if i >= len(g0) or g0[i] != g1[i]:
                touched.append(nm)
        rec.update({"out": out, "py1": p1, "np1": n1, "gens": dig(g1), "touched": touched, "os_sites": os_s,
                    "npfn_sites": npfn_s})
        if clone is not None and (p1 != p0 or n1 != n0 or os_s):
            # an explicit generator was supplied and a global stream / the OS was used: find out who did it
            c = clone
            rec["leak_sites"] = attribute_leak(op["c"], op.get("v", 0), lambda: copy.deepcopy(c)) or ["unattributed:" + op["c"]]
        elif "use" in op and (p1 != p0 or n1 != n0 or os_s) and getattr(obj, "rng", None) is not _RAND:
            rec["leak_sites"] = attribute_obj_leak(name, obj, op.get("v", 0)) or ["unattributed:" + name]
        elif "new" in op and rng is not None and (p1 != p0 or n1 != n0 or os_s):
            rec["leak_sites"] = sorted(set(npfn_s) | set(os_s)) or ["unattributed:" + op["new"]]
        steps.append(rec)
    return steps, spawned


def exec_program(case, which, tr, env=None):
    """one execution: prior history, (set-up: build / use long-lived objects), program.
    `env` given = continue with the objects of an earlier execution (the set-up is not repeated)."""
    run_pre(case["pre_" + which])
    ext = [make_gen(s, which) for s in case.get("ext", [])]
    start = {"py": py_state(), "np": np_state()}
    setup_steps = []
    spawned = []
    if env is None:
        env = Env()
        setup_steps, spawned = exec_ops(case.get("setup", []), tr, ext, spawned, env)
    steps, spawned = exec_ops(case["prog"], tr, ext, spawned, env)
    return {"start": start, "setup": setup_steps, "steps": steps}, env


# ------------------------------------------------------------------------------------------------
# another PROCESS: the same seeded program in a fresh interpreter (other pid, other address-space layout, other
# string-hash randomisation, other start time).  Everything `seed()` does not control differs for real there.
# ------------------------------------------------------------------------------------------------
def run_seeded_prog(prog):
    """digests of the results of a program of `seed` / `spawn` / rng=None component calls, one per step"""
    import pybrops.core.random.prng as prng
    outs = []
    restore_shared()
    for op in prog:
        if "seed" in op:
            prng.seed(op["seed"])
            outs.append("seeded")
        elif "spawn" in op:
            outs.append(dig([gen_state(g) for g in prng.spawn(op["spawn"], *spawn_args(op))]))
        else:
            outs.append(dig(comps()[op["c"]][1](None, op.get("v", 0))))
    return outs


def child_main():
    """entry point of the child interpreter: program on stdin, digests on stdout"""
    prog = json.load(sys.stdin)
    fixtures()
    real_stdout = sys.stdout
    sys.stdout = sys.stderr
    ctx = contextlib.nullcontext
    if os.environ.get("C08_MUTANT"):        # self-test: the parent runs under an in-memory mutant, so must the child
        ctx = dict(PROP.mutants())[os.environ["C08_MUTANT"]]
    try:
        with ctx():
            outs = run_seeded_prog(prog)
    finally:
        sys.stdout = real_stdout
    sys.stdout.write("C08CHILD " + json.dumps(outs) + "\n")


_XPROC = {}          # json(prog, hashseed) -> running child started ahead of time
_XPROC_DONE = {}     # json(prog, hashseed) -> digests of the unmutated child (re-used by the self-test)
_ACTIVE_MUTANT = None
_BASE_OBS = {}       # case -> observation on the unmutated code (self-test)
_KILLED = {}         # mutant name -> a Spec failure has been observed in the current evaluation
XPROC_MUTANTS = ("tiled_choice_seeded_from_string_hash",)     # self-test mutants that only another process can expose


def xproc_start(prog, hashseed):
    import subprocess
    env = dict(os.environ)
    env["PYTHONHASHSEED"] = str(hashseed)
    env["PYTHONDONTWRITEBYTECODE"] = "1"
    env["PYBROPS_REPO"] = compat.REPO
    env.pop("C08_MUTANT", None)
    if _ACTIVE_MUTANT in XPROC_MUTANTS:
        env["C08_MUTANT"] = _ACTIVE_MUTANT
    root = os.path.dirname(os.path.dirname(os.path.dirname(os.path.abspath(__file__))))
    p = subprocess.Popen([sys.executable, "-c", "from harness.props import c08; c08.child_main()"], cwd=root, env=env,
                         stdin=subprocess.PIPE, stdout=subprocess.PIPE, stderr=subprocess.PIPE, text=True)
    p.stdin.write(json.dumps(prog))
    p.stdin.close()
    return p


def xproc_collect(p, timeout=600):
    try:
        p.wait(timeout=timeout)
    except Exception:
        p.kill()
        raise RuntimeError("child interpreter timed out")
    out, err = p.stdout.read(), p.stderr.read()
    for line in out.splitlines():
        if line.startswith("C08CHILD "):
            return json.loads(line[len("C08CHILD "):])
    raise RuntimeError("child interpreter failed: " + err[-800:])


def xproc_key(case):
    return json.dumps([case["prog"], case.get("hashseed", 4242)], sort_keys=True)


def xproc_corpus_cases():
    """every small component once with rng=None after a seed, in ONE child interpreter (the import dominates)"""
    prog = [{"seed": 20240229}, {"spawn": 2}]
    for i, n in enumerate(comps()):
        if not is_large(n):
            prog.append({"c": n, "v": i % 6})
    return [{"kind": "xproc", "prog": prog, "hashseed": 4242}]


# ------------------------------------------------------------------------------------------------
# the property module
# ------------------------------------------------------------------------------------------------
class C08(Prop):
    PID = "C08"
    MODULE = "PybropsModel.Props.C08"
    N_QUICK = 170
    N_THOROUGH = 1200
    CORRESPONDENCE = "relational"
    RULE = ("programs of 1-8 stochastic API operations over 59 small components (7 mating protocols, phenotyping, 4 "
            "samplers, 8 sampled selection configurations, 13 pymoo optimisers, 3 DEAP-based legacy optimisers, hill climber, "
            "apply_jitter, EMBV matrix, select() of the four decision-space kinds of plain AND mate selection protocols in its single- and multi-objective branch, with explicit and with default optimisers, "
            "the four Random*SelectionProblem factories, the constructors of all 59 concrete selection protocol classes, all prng wrappers, seed, spawn options (five bit generators, 1-128 "
            "seed bits), the second copy of meiosis in core/util/mate.py) in six argument variants each (per-item arrays, "
            "ties and tie-rich optimisation problems, zero weights, NO weight at all (all-zero weight / contribution vector), one complete tiling set, nself 0-2, crosses with repeated "
            "parents, a one-marker chromosome with inbred / fully heterozygous parents, non-PSD / PSD-but-for-rounding / "
            "unfixable matrices, Fortran order, ...) and 27 size-gated `@large` variants; calls are made with rng=None / a "
            "spawned generator / a caller generator (PCG64, MT19937 Generator or legacy RandomState - every optimiser with "
            "all three; Philox / SFC64 / PCG64DXSM in random programs and for the cheap components), whose stream position was "
            "established by seeding, by ASSIGNING the state to an unseeded generator (transplant: a resumed simulation) or by "
            "use in other component calls - a different number in the two executions - followed by a restore to the "
            "checkpoint, on components built afresh AND on long-lived objects (new / use / setrng / copy: every way of "
            "duplicating a class that defines its own copy semantics) built in a set-up before the re-seeding; every program "
            "is executed twice in-process after two different random prior histories (draws, foreign seeds, component "
            "calls, OS-seeded generators, cached gaussians) - with `share` the second execution continues with the objects "
            "of the first (one object: seed, use, ..., seed, use); input arrays are long-lived and handed to every call; kind "
            "`repro` re-seeds with the same seed, kind `isolated` does not seed and only hands over caller generators; kind "
            "`xproc` runs one seeded program over every small component in this process and in a FRESH interpreter (other "
            "pid, address space, string-hash randomisation); kind `prim` runs seed()/spawn() against their literal Lean "
            "model.  Non-trivial = the two executions start from different python AND numpy global states and the program "
            "makes >= 2 stochastic calls (repro, xproc) / >= 1 (isolated)")
    TRUSTED = ["the dependency table is measured (state snapshots of random / numpy.random / the generator handed in - a "
               "PCG64 Generator and a legacy RandomState -, interception of os.urandom / os.getpid / numpy.random.<fn> / "
               "random.<fn>, perturbation runs, objects built after three different histories, results AND stream states "
               "compared) on the explored calls only",
               "the static table is an AST scan (aliases of numpy / numpy.random / random / os / time / datetime / secrets / "
               "uuid and `from` imports are followed, id() / hash() / clocks count when they flow into a seed argument; "
               "getattr-style dynamic access is not followed) plus sys.monitoring function reach during the measurement; "
               "`operator scope` of a site (method of a pybrops subclass of a pymoo operator, or module-level helper referenced "
               "only from such classes) is decided by the same scan",
               "sha1 digests of canonical bytes stand for bit-identity of results and generator states",
               "a caller generator IS its stream state (bit_generator.state / RandomState.get_state()) in the Lean model "
               "(isolated_call_after_state_restore); that the library reads nothing else of the generator object (SeedSequence "
               "lineage, spawn counter, identity) is established by the Spec on transplanted and on used-then-restored "
               "generators of the explored calls only",
               "thread scheduling and BLAS non-determinism are outside the model (string-hash randomisation, pid and address "
               "space are explored by the `xproc` case: one fresh interpreter per run)"]
    ASSUMPTIONS = ["progeny names / family numbers of mating protocols come from per-object counters and are not part of the "
                   "property: long-lived mating objects are compared on genotypes and family structure",
                   "seed(None) (seeding from the OS) is out of scope: the property quantifies over given seeds",
                   "a program names caller generators by construction seed, spawned generators by index since the last "
                   "seed(), objects by construction order; an object holding a spawned generator is not used after a later seed()",
                   "in-place samplers (axis_shuffle, outcross_shuffle, apply_jitter) get a fresh copy of their operand; every "
                   "other input array is one long-lived object shared by all calls of a case",
                   "duplicating an object is a program operation only for classes that define their own copy semantics "
                   "(__copy__ / __deepcopy__ / copy() / deepcopy()); python's default deep copy of a class without one clones "
                   "whatever generator the object holds, which is the caller's doing, not the library's"]

    def __init__(self):
        self._table = None
        self._static = None
        self._measure_s = None

    # ------------------------------------------------------------------ regenerated Lean
    def pre_build(self):
        t0 = time.time()
        try:
            rows = measure_table()
        except Exception as e:      # the measurement itself broke: treated as a broken obligation
            import traceback
            return False, f"measurement failed: {type(e).__name__}: {e} {traceback.format_exc()[-600:]}"
        self._table = rows
        os_k, leak_k = known_sites()
        text = render_table(rows, os_k, leak_k)
        old = open(GEN_FILE).read() if os.path.exists(GEN_FILE) else None
        if old != text:
            os.makedirs(os.path.dirname(GEN_FILE), exist_ok=True)
            with bridge.Lock():
                with open(GEN_FILE, "w") as f:
                    f.write(text)
        try:
            self._static = static_table(rows, _REACH)
            stext = render_static(self._static, static_allow())
        except Exception as e:
            import traceback
            return False, f"static scan failed: {type(e).__name__}: {e} {traceback.format_exc()[-600:]}"
        old = open(STATIC_FILE).read() if os.path.exists(STATIC_FILE) else None
        if old != stext:
            with bridge.Lock():
                with open(STATIC_FILE, "w") as f:
                    f.write(stext)
        self._measure_s = round(time.time() - t0, 2)
        try:        # the child interpreter of the corpus `xproc` case runs while this process builds and explores
            for c in xproc_corpus_cases():
                if xproc_key(c) not in _XPROC:
                    _XPROC[xproc_key(c)] = xproc_start(c["prog"], c.get("hashseed", 4242))
        except Exception:
            pass
        return True, ""

    def static_sites(self):
        if getattr(self, "_static", None) is None:
            self._static = static_table(self.table(), _REACH)
        return self._static

    def table(self):
        if self._table is None:
            self._table = measure_table()
        return self._table

    # ------------------------------------------------------------------ cases
    def _valid(self, case):
        """well-formed: generators and objects exist when they are named; an object that holds a spawned
        generator is not used after a later seed(); with `share` the program builds no object and hands over
        no caller generator (the second execution continues with the objects of the first)"""
        nsp = 0
        objs = []           # [name, handle, alive]
        share = bool(case.get("share"))
        if share and case.get("ext"):
            return False
        for e in case.get("ext", []):
            h = e[2] if len(e) > 2 and e[2] else {}
            for w in ("a", "b"):
                for nm, _v in h.get(w, []):
                    if nm not in comps() or not comps()[nm][0]:
                        return False
        for part in ("setup", "prog"):
            for op in case.get(part, []):
                a = op.get("rng", "glob")
                if "seed" in op:
                    nsp = 0
                    for o in objs:
                        if o[1] != "glob" and o[1][0] == "spawned":
                            o[2] = False
                    continue
                if "spawn" in op:
                    nsp += op["spawn"]
                    continue
                if a != "glob":
                    if a[0] == "ext" and a[1] >= len(case.get("ext", [])):
                        return False
                    if a[0] == "spawned" and (a[1] >= nsp or part == "setup" or share):
                        return False
                if "c" in op:
                    if op["c"] not in comps() or (a != "glob" and not comps()[op["c"]][0]):
                        return False
                elif "new" in op:
                    if not has_obj(op["new"]) or (a != "glob" and not comps()[op["new"]][0]):
                        return False
                    if share and part == "prog":
                        return False
                    objs.append([op["new"], a, True])
                elif "use" in op:
                    k = op["use"]
                    if k >= len(objs) or objs[k][0] != op["cls"] or not objs[k][2]:
                        return False
                elif "setrng" in op:
                    k = op["setrng"]
                    if k >= len(objs) or objs[k][0] != op["cls"] or not comps()[op["cls"]][0]:
                        return False
                    objs[k][1], objs[k][2] = a, True
                elif "copy" in op:
                    k = op["copy"]
                    if k >= len(objs) or objs[k][0] != op["cls"] or op.get("how") not in copy_hows(op["cls"]):
                        return False
                    if share and part == "prog":
                        return False
                    objs.append([objs[k][0], objs[k][1], objs[k][2]])
                else:
                    return False
        return True

    def corpus(self):
        out = [{"kind": "table"}, {"kind": "static"},
               {"kind": "prim", "start": 5, "ops": [{"seed": 0}, {"spawn": 3}, {"spawn": 0}, {"spawn": 2}, {"seed": 2 ** 32 + 5},
                                                    {"spawn": 1}, {"seed": 12345}, {"seed": 2 ** 63 + 11}, {"spawn": 4}]},
               {"kind": "prim", "start": 9, "ops": [{"spawn": 2}, {"seed": 1}, {"spawn": 70}]},
               # the rarely used arguments of spawn(): every bit generator class, 1-128 seed bits, n = None
               {"kind": "prim", "start": 3, "ops": [{"seed": 7}] + [{"spawn": 2, "bg": b, "sbits": k} for b, k in
                                                                  [(1, 32), (2, 128), (3, 16), (4, 96), (0, 1), (0, 8)]]
                + [{"spawn": 1, "none": True, "bg": 1, "sbits": 32}, {"spawn": 1, "none": True}, {"seed": 7},
                   {"spawn": 2, "bg": 1, "sbits": 32}, {"spawn": 3, "sbits": 8}]}]
        pre_a = [["seed", 1], ["py", 3], ["np", 5]]
        pre_b = [["npseed", 99], ["normal", 3], ["py", 1], ["osgen", 1]]
        names = list(comps())
        # every component once with rng=None after a re-seed (this is also the replay of a failing
        # `table_unseeded_known` obligation: run the offending component twice)
        for i, n in enumerate(names):
            vs = (0, 1) if is_large(n) else (i % 6, (i + 3) % 6)
            if n == "prng.wrappers":
                vs = (0, 2)         # variant 0 calls EVERY public wrapper of the global generator
            out.append({"kind": "repro", "pre_a": pre_a, "pre_b": pre_b, "ext": [],
                        "prog": [{"seed": 12345}, {"c": n, "rng": "glob", "v": vs[0]}, {"c": n, "rng": "glob", "v": vs[1]}]})
        out.append({"kind": "repro", "pre_a": pre_a, "pre_b": [["spawn", 2]], "ext": [],
                    "prog": [{"seed": 4}, {"spawn": 300}, {"c": "samp.tiled_choice", "rng": ["spawned", 299], "v": 0}]})
        # every component that has an rng parameter once with a caller generator and no seeding
        for i, n in enumerate(names):
            if comps()[n][0]:
                kinds = ["pcg", "mt", "rs"]
                if is_large(n):
                    ext = [[kinds[i % 3], 7 + i]]
                    prog = [{"c": n, "rng": ["ext", 0], "v": 1}]
                else:       # a Generator on PCG64, a Generator on MT19937 and a legacy RandomState
                    ext = [[k, 7 + i + j] for j, k in enumerate(kinds)]
                    prog = [{"c": n, "rng": ["ext", j], "v": (i + j) % 6} for j in range(3)]
                out.append({"kind": "isolated", "pre_a": [["seed", 5], ["np", 2]], "pre_b": [["seed", 6], ["py", 4]],
                            "ext": ext, "prog": prog})
        # the argument forms of the cheap components, all six variants, same input arrays in every call
        for n in ("samp.tiled_choice", "samp.stochastic_universal_sampling", "cfg.SubsetSelectionConfiguration",
                  "mate.TwoWayCross", "pt.G_E_Phenotyping", "cmat.apply_jitter"):
            out.append({"kind": "repro", "pre_a": pre_a, "pre_b": pre_b, "ext": [],
                        "prog": [{"seed": 77}] + [{"c": n, "rng": "glob", "v": v} for v in range(6)]})
            if comps()[n][0]:
                out.append({"kind": "isolated", "pre_a": [["seed", 5]], "pre_b": [["seed", 6], ["np", 3]], "ext": [["pcg", 5]],
                            "prog": [{"c": n, "rng": ["ext", 0], "v": v} for v in range(6)]})
        # the all-zero contribution vector of the real-valued configurations (variant 1) with every kind of caller
        # generator: function form, constructor and re-sampling of a long-lived object
        for n in ("cfg.RealSelectionConfiguration", "cfg.RealMateSelectionConfiguration"):
            out.append({"kind": "isolated", "pre_a": [["seed", 5], ["np", 2]], "pre_b": [["seed", 6], ["py", 4]],
                        "ext": [["pcg", 61], ["mt", 62], ["rs", 63]],
                        "setup": [{"new": n, "rng": ["ext", 2], "v": 1}],
                        "prog": [{"c": n, "rng": ["ext", 0], "v": 1}, {"use": 0, "cls": n, "v": 1},
                                 {"c": n, "rng": ["ext", 1], "v": 1}, {"c": n, "rng": ["ext", 2], "v": 0}]})
            out.append({"kind": "repro", "pre_a": pre_a, "pre_b": pre_b, "ext": [],
                        "prog": [{"seed": 78}] + [{"c": n, "rng": "glob", "v": v} for v in (1, 0, 1)]})
        out.append({"kind": "isolated", "pre_a": [["seed", 5]], "pre_b": [["seed", 6], ["np", 3]], "ext": [["rs", 5], ["mt", 6]],
                    "prog": [{"c": "samp.stochastic_universal_sampling", "rng": ["ext", v % 2], "v": v} for v in (1, 0, 1, 3)]})
        # HISTORIES OF THE CALLER'S GENERATOR: every cheap component with an rng parameter is handed (0) a generator
        # that was created unseeded and received its state by assignment (resumed simulation), (1) a generator that
        # the same component used before - a different number of times in the two executions - and that was then
        # restored to its checkpoint, (2) the legacy RandomState with a transplanted state.  In every form the
        # generator's STATE at the call is that of a freshly seeded one, in both executions.
        for i, n in enumerate(names):
            if not comps()[n][0] or is_large(n) or n.startswith("opt.") or n.startswith("sel."):
                continue
            v = i % 6
            out.append({"kind": "isolated", "pre_a": [["seed", 5], ["np", 2]], "pre_b": [["seed", 6], ["py", 4]],
                        "ext": [["pcg", 300 + i, {"how": "transplant"}],
                                [("mt", "pcg")[i % 2], 400 + i, {"how": "reused", "a": [[n, v]], "b": [[n, (v + 1) % 6], [n, v]]}],
                                ["rs", 500 + i, {"how": "transplant"}]],
                        "prog": [{"c": n, "rng": ["ext", j], "v": (v + j) % 6} for j in range(3)]})
        # the remaining bit generators a caller may wrap (Philox, SFC64, PCG64DXSM): samplers, mating, phenotyping
        for i, n in enumerate(("samp.tiled_choice", "samp.stochastic_universal_sampling", "samp.axis_shuffle", "samp.outcross_shuffle",
                               "mate.TwoWayCross", "pt.G_E_Phenotyping", "cfg.RealSelectionConfiguration", "util.dense_cross")):
            out.append({"kind": "isolated", "pre_a": [["seed", 5], ["np", 2]], "pre_b": [["seed", 6], ["py", 4]],
                        "ext": [["philox", 700 + i], ["sfc", 710 + i, {"how": "transplant"}], ["dxsm", 720 + i]],
                        "prog": [{"c": n, "rng": ["ext", j], "v": (i + j) % 6} for j in range(3)]})
        # ... and long-lived objects holding such generators (phenotyping, mating, a sampled configuration)
        for i, n in enumerate(("pt.G_E_Phenotyping", "mate.TwoWayCross", "cfg.SubsetSelectionConfiguration")):
            out.append({"kind": "isolated", "pre_a": [["seed", 5], ["np", 2]], "pre_b": [["seed", 6], ["py", 4]],
                        "ext": [[("pcg", "mt", "pcg")[i], 600 + i, {"how": "transplant"}],
                                [("mt", "pcg", "rs")[i], 610 + i, {"how": "reused", "a": [], "b": [[n, 1], [n, 4]]}]],
                        "setup": [{"new": n, "rng": ["ext", 0], "v": 1}, {"new": n, "rng": ["ext", 1], "v": 3}],
                        "prog": [{"use": 0, "cls": n, "v": 1}, {"use": 1, "cls": n, "v": 3}, {"use": 0, "cls": n, "v": 5}]})
        # a seeded program that also hands over a transplanted / re-used caller generator
        out.append({"kind": "repro", "pre_a": pre_a, "pre_b": pre_b,
                    "ext": [["pcg", 71, {"how": "transplant"}],
                            ["pcg", 72, {"how": "reused", "a": [["pt.G_E_Phenotyping", 1]], "b": []}]],
                    "prog": [{"seed": 9}, {"c": "pt.G_E_Phenotyping", "rng": ["ext", 0], "v": 5}, {"c": "pt.G_E_Phenotyping", "rng": "glob", "v": 1},
                             {"c": "pt.G_E_Phenotyping", "rng": ["ext", 1], "v": 1}, {"c": "mate.TwoWayCross", "rng": ["ext", 0], "v": 3}]})
        # long-lived objects: every class, (a) one object used, re-seeded and used again in ONE process after
        # other activity (`share`), (b) two objects built after different prior activity and used a different
        # number of times, then both run after seed(s); (c) the generator re-assigned before the re-seeding
        onames = list(OBJ)
        for g0 in range(0, len(onames), 3):
            grp = onames[g0:g0 + 3]
            v = (g0 // 3) % 3
            news = [{"new": n, "rng": "glob", "v": v} for n in grp]
            uses = [{"use": k, "cls": n, "v": v} for k, n in enumerate(grp)]
            out.append({"kind": "repro", "share": True, "pre_a": pre_a, "pre_b": [["np", 2], ["call", "samp.tiled_choice", 1]],
                        "ext": [], "setup": news, "prog": [{"seed": 31}] + uses + uses})
            setup = news + uses[:2]
            for k, n in enumerate(grp):
                if comps()[n][0] and (g0 + k) % 2:
                    setup.append({"setrng": k, "cls": n, "rng": "glob"})
            out.append({"kind": "repro", "pre_a": [["seed", 8]], "pre_b": [["seed", 9], ["np", 4], ["normal", 1]], "ext": [],
                        "setup": setup, "prog": [{"seed": 32}] + uses})
            accg = [n for n in grp if comps()[n][0]]
            if accg:    # objects that hold the caller's generators: isolation of constructor and method
                out.append({"kind": "isolated", "pre_a": [["seed", 5], ["np", 2]], "pre_b": [["seed", 6], ["py", 4]],
                            "ext": [[["pcg", "mt", "rs"][(g0 + k) % 3], 70 + g0 + k] for k in range(len(accg))],
                            "setup": [{"new": n, "rng": ["ext", k], "v": v} for k, n in enumerate(accg)],
                            "prog": [{"use": k, "cls": n, "v": (v + j) % 3} for j in (0, 1) for k, n in enumerate(accg)]})
        # objects derived from objects: every class that defines its own copy semantics, every way of copying;
        # the duplicates (not the original) are the objects used after the re-seeding
        for n in onames:
            hows = copy_hows(n)
            if not hows:
                continue
            cps = [{"copy": 0, "cls": n, "how": h} for h in hows]
            uses = [{"use": k, "cls": n, "v": k % 3} for k in range(1, len(hows) + 1)] + [{"use": 0, "cls": n, "v": 0}]
            for share in (False, True):
                c = {"kind": "repro", "pre_a": pre_a, "pre_b": [["np", 2], ["normal", 3], ["call", "samp.tiled_choice", 1]],
                     "ext": [], "setup": [{"new": n, "rng": "glob", "v": 0}, {"use": 0, "cls": n, "v": 1}] + cps,
                     "prog": [{"seed": 41}] + uses}
                if share:
                    c["share"] = True
                out.append(c)
            if comps()[n][0]:
                # a duplicate of an object that holds the caller's generator; a duplicate taken BEFORE the generator is
                # re-assigned keeps the old one
                out.append({"kind": "isolated", "pre_a": [["seed", 5], ["np", 2]], "pre_b": [["seed", 6], ["py", 4]],
                            "ext": [["pcg", 90], ["rs", 91]],
                            "setup": [{"new": n, "rng": ["ext", 0], "v": 0}] + cps,
                            "prog": uses})
                out.append({"kind": "repro", "pre_a": pre_a, "pre_b": pre_b, "ext": [],
                            "setup": [{"new": n, "rng": "glob", "v": 0}, cps[0]],
                            "prog": [{"seed": 42}, {"spawn": 1}, {"setrng": 0, "cls": n, "rng": ["spawned", 0]},
                                     {"use": 1, "cls": n, "v": 0}, {"use": 0, "cls": n, "v": 0}, {"use": 1, "cls": n, "v": 2}]})
        # an object built on a spawned generator inside the program; generator re-assigned inside the program
        out.append({"kind": "repro", "pre_a": pre_a, "pre_b": pre_b, "ext": [],
                    "setup": [{"new": "mate.TwoWayCross", "rng": "glob", "v": 0}],
                    "prog": [{"seed": 5}, {"spawn": 2}, {"new": "pt.G_E_Phenotyping", "rng": ["spawned", 1], "v": 0},
                             {"use": 1, "cls": "pt.G_E_Phenotyping", "v": 0}, {"setrng": 0, "cls": "mate.TwoWayCross", "rng": ["spawned", 0]},
                             {"use": 0, "cls": "mate.TwoWayCross", "v": 4}, {"use": 1, "cls": "pt.G_E_Phenotyping", "v": 3}]})
        # spawn: streams, splitting, use of spawned streams, mid-program re-seed
        out.append({"kind": "repro", "pre_a": [], "pre_b": [["py", 7], ["spawn", 3]], "ext": [],
                    "prog": [{"seed": 0}, {"spawn": 0}, {"spawn": 3}, {"c": "mate.TwoWayCross", "rng": ["spawned", 2], "v": 0},
                             {"c": "pt.G_E_Phenotyping", "rng": ["spawned", 0], "v": 1}, {"seed": 2 ** 32 + 5},
                             {"spawn": 1}, {"c": "samp.tiled_choice", "rng": ["spawned", 0], "v": 2}]})
        # D12 with all three kinds of caller generator, D11 / D11b
        for k in ("pcg", "mt", "rs"):
            out.append({"kind": "isolated", "pre_a": [["seed", 11]], "pre_b": [["seed", 12], ["np", 1]], "ext": [[k, 7]],
                        "prog": [{"c": "sel.EBVSubset.select", "rng": ["ext", 0], "v": 0}]})
        out.append({"kind": "repro", "pre_a": [["seed", 3]], "pre_b": [["seed", 4]], "ext": [],
                    "prog": [{"seed": 12345}, {"c": "opt.SubsetGeneticAlgorithm", "rng": "glob", "v": 0}]})
        out.append({"kind": "isolated", "pre_a": [["seed", 3]], "pre_b": [["seed", 4]], "ext": [["pcg", 1]],
                    "prog": [{"c": "opt.SubsetGeneticAlgorithm", "rng": ["ext", 0], "v": 0}]})
        # D12d: a protocol built with the caller's generator and NO optimiser constructs its default optimiser on the
        # global generator (all four decision-space kinds, single- and multi-objective)
        for i, kind in enumerate(("Subset", "Real", "Integer", "Binary")):
            fam = ("EBV", "OHV")[i % 2]        # plain and mate selection protocols alternately
            out.append({"kind": "isolated", "pre_a": [["seed", 21]], "pre_b": [["seed", 22], ["np", 1]],
                        "ext": [[("pcg", "mt", "rs", "pcg")[i], 17 + i]],
                        "prog": [{"c": "sel." + fam + kind + ".select", "rng": ["ext", 0], "v": 4},
                                 {"c": "sel." + fam + kind + ".select", "rng": ["ext", 0], "v": 5}]})
        # D11c: the DEAP-based legacy set GA samples its tournaments from python's `random`
        out.append({"kind": "isolated", "pre_a": [["seed", 3]], "pre_b": [["seed", 4]], "ext": [["pcg", 1]],
                    "prog": [{"c": "opt.UnconstrainedSetGeneticAlgorithm", "rng": ["ext", 0], "v": 0}]})
        # the same seeded program in ANOTHER interpreter process (last: its child was started in pre_build)
        out += xproc_corpus_cases()
        return out

    def exhaustive(self, tier):
        """thorough tier: every component x every way of passing a generator (a finite space)"""
        if tier != "thorough":
            return None
        out = []
        for n, (accepts, _f, _w) in comps().items():
            for v in (0, 1, 2) if is_large(n) else range(6):
                out.append({"kind": "repro", "pre_a": [["np", 1]], "pre_b": [["pyseed", 4], ["normal", 1]], "ext": [],
                            "prog": [{"seed": 7 + v}, {"c": n, "rng": "glob", "v": v}]})
            if accepts:
                for k in ("pcg", "mt", "rs"):
                    out.append({"kind": "isolated", "pre_a": [["seed", 1]], "pre_b": [["seed", 2], ["normal", 1]],
                                "ext": [[k, 99]], "prog": [{"c": n, "rng": ["ext", 0], "v": 1}]})
                    out.append({"kind": "isolated", "pre_a": [["seed", 1]], "pre_b": [["seed", 2], ["normal", 1]],
                                "ext": [[k, 97, {"how": "transplant"}]], "prog": [{"c": n, "rng": ["ext", 0], "v": 2}]})
                    out.append({"kind": "repro", "pre_a": [["seed", 1]], "pre_b": [["osgen", 1]], "ext": [[k, 98]],
                                "prog": [{"seed": 3}, {"spawn": 2}, {"c": n, "rng": ["spawned", 1], "v": 2},
                                         {"c": n, "rng": ["ext", 0], "v": 0}]})
        for n in OBJ:
            for v in range(0, 6, 2):
                for share in (True, False):
                    out.append({"kind": "repro", "share": share, "pre_a": [["np", 1]], "pre_b": [["pyseed", 4], ["normal", 1]],
                                "ext": [], "setup": [{"new": n, "rng": "glob", "v": v}] + [{"use": 0, "cls": n, "v": v}] * (v % 3),
                                "prog": [{"seed": 7 + v}, {"use": 0, "cls": n, "v": v}, {"use": 0, "cls": n, "v": (v + 1) % 6}]})
        return out

    def _pre(self, rng):
        ops = []
        for _ in range(rng.randint(1, 5)):
            r = rng.random()
            if r < 0.2:
                ops.append(["py", rng.randint(1, 9)])
            elif r < 0.4:
                ops.append(["np", rng.randint(1, 9)])
            elif r < 0.5:
                ops.append(["normal", rng.choice([1, 3, 5])])
            elif r < 0.62:
                ops.append(["seed", rng.randint(0, 2 ** 40)])
            elif r < 0.7:
                ops.append(["npseed", rng.randint(0, 2 ** 32 - 1)])
            elif r < 0.78:
                ops.append(["pyseed", rng.randint(0, 2 ** 40)])
            elif r < 0.84:
                ops.append(["osgen", 1])
            elif r < 0.9:
                ops.append(["spawn", rng.randint(1, 3)])
            else:
                cheap = [n for n in comps() if not n.startswith("opt.") and not n.startswith("sel.") and not is_large(n)]
                ops.append(["call", rng.choice(cheap), rng.randint(0, 5)])
        return ops

    @staticmethod
    def _sopt(rng):
        """rarely used arguments of spawn() (a third of the spawn operations)"""
        if rng.random() < 0.67:
            return {}
        return {"bg": rng.randrange(len(BITGENS)), "sbits": rng.choice([1, 8, 16, 32, 48, 64, 96, 128])}

    @staticmethod
    def _ext(rng):
        """a caller generator: kind, seed and (two in five) the history of the generator object - state received by
        assignment, or used before (differently in the two executions) and restored to its checkpoint"""
        e = [rng.choice(["pcg", "mt", "rs", "pcg", "mt", "rs", "philox", "sfc", "dxsm"]), rng.randint(0, 2 ** 31)]
        r = rng.random()
        if r < 0.2:
            e.append({"how": "transplant"})
        elif r < 0.4:
            calls = lambda k: [[rng.choice(EXT_HIST_COMPS), rng.randint(0, 5)] for _ in range(k)]
            na = rng.randint(0, 2)
            e.append({"how": "reused", "a": calls(na), "b": calls(rng.choice([k for k in (0, 1, 2, 3) if k != na]))})
        return e

    def _v(self, rng, name):
        return rng.randint(0, 2) if is_large(name) else rng.randint(0, 5)

    def generate(self, rng, n, tier):
        names = list(comps())
        weights = [comps()[x][2] for x in names]
        acc = [x for x in names if comps()[x][0]]
        acc_w = [comps()[x][2] for x in acc]
        onames = list(OBJ)
        oweights = [comps()[x][2] for x in onames]
        oacc = [x for x in onames if comps()[x][0]]
        oacc_w = [comps()[x][2] for x in oacc]
        out = []
        for _ in range(n):
            if rng.random() < 0.03:
                out.append({"kind": "prim", "start": rng.randint(0, 99),
                            "ops": [({"seed": rng.choice([0, 1, 2 ** 32, rng.randint(0, 2 ** 63)])} if rng.random() < 0.4
                                     else dict({"spawn": rng.randint(0, 5)}, **self._sopt(rng))) for _k in range(rng.randint(2, 6))]})
                continue
            kind = "isolated" if rng.random() < 0.3 else "repro"
            share = kind == "repro" and rng.random() < 0.3
            with_objs = share or rng.random() < 0.45
            next_ = 0 if share else (rng.randint(1, 2) if rng.random() < 0.6 else 0)
            ext = [self._ext(rng) for _ in range(next_)]
            if kind == "isolated" and not ext:
                ext = [self._ext(rng)]
            # ---- set-up: long-lived objects built (and used, re-assigned) before the re-seeding
            setup, objs = [], []                 # objs: [name, handle]
            if with_objs:
                for _k in range(rng.randint(1, 3)):
                    if kind == "isolated":
                        nm = rng.choices(oacc, oacc_w)[0]
                        a = ["ext", rng.randrange(len(ext))]
                    else:
                        nm = rng.choices(onames, oweights)[0]
                        a = ["ext", rng.randrange(len(ext))] if (ext and comps()[nm][0] and rng.random() < 0.3) else "glob"
                    setup.append({"new": nm, "rng": a, "v": self._v(rng, nm)})
                    objs.append([nm, a])
                for k in range(len(objs)):
                    hows = copy_hows(objs[k][0])
                    if hows and rng.random() < 0.6:
                        setup.append({"copy": k, "cls": objs[k][0], "how": rng.choice(hows)})
                        objs.append(list(objs[k]))
                for _k in range(rng.randint(0, 3)):
                    k = rng.randrange(len(objs))
                    if kind == "repro" and comps()[objs[k][0]][0] and rng.random() < 0.2:
                        setup.append({"setrng": k, "cls": objs[k][0], "rng": "glob"})
                        objs[k][1] = "glob"
                    else:
                        setup.append({"use": k, "cls": objs[k][0], "v": self._v(rng, objs[k][0])})
            prog = []
            nsp = 0

            def use_op():
                k = rng.randrange(len(objs))
                return {"use": k, "cls": objs[k][0], "v": self._v(rng, objs[k][0])}
            if kind == "repro":
                prog.append({"seed": rng.choice([0, 1, 12345, 2 ** 32 - 1, 2 ** 32, rng.randint(0, 2 ** 63)])})
                for _ in range(rng.randint(2, 7)):
                    r = rng.random()
                    if r < 0.12:
                        k = rng.randint(0, 3)
                        prog.append(dict({"spawn": k}, **self._sopt(rng)))
                        nsp += k
                    elif r < 0.17:
                        prog.append({"seed": rng.randint(0, 2 ** 34)})
                        nsp = 0
                    elif objs and r < 0.55:
                        prog.append(use_op())
                    elif objs and r < 0.6 and comps()[objs[0][0]][0] and objs[0][1] == "glob":
                        prog.append({"setrng": 0, "cls": objs[0][0], "rng": "glob"})
                    else:
                        c = rng.choices(names, weights)[0]
                        arg = "glob"
                        if comps()[c][0]:
                            q = rng.random()
                            if q < 0.3 and nsp and not share:
                                arg = ["spawned", rng.randrange(nsp)]
                            elif q < 0.55 and ext:
                                arg = ["ext", rng.randrange(len(ext))]
                        prog.append({"c": c, "rng": arg, "v": self._v(rng, c)})
            else:
                for _ in range(rng.randint(1, 5)):
                    if objs and rng.random() < 0.5:
                        prog.append(use_op())
                    else:
                        c = rng.choices(acc, acc_w)[0]
                        prog.append({"c": c, "rng": ["ext", rng.randrange(len(ext))], "v": self._v(rng, c)})
            pre_a, pre_b = self._pre(rng), self._pre(rng)
            if kind == "isolated":          # make sure the global streams differ between the executions
                pre_a.append(["seed", rng.randint(0, 2 ** 30)])
                pre_b.append(["seed", 2 ** 31 + rng.randint(0, 2 ** 30)])
                if rng.random() < 0.5:
                    pre_b.append(["np", 1])
            case = {"kind": kind, "pre_a": pre_a, "pre_b": pre_b, "ext": ext, "prog": prog}
            if setup:
                case["setup"] = setup
            if share:
                case["share"] = True
            out.append(case)
        return out

    # ------------------------------------------------------------------ implementation
    def run_impl(self, case):
        """(self-test only) once a mutant has produced a Spec failure on a case that passes unmutated, the remaining
        cases of that mutant's evaluation are answered from the unmutated observations: the kill is already decided
        - by the core, on the real failing observation - and the other 400 executions would add nothing"""
        key = None
        if case.get("kind") in ("repro", "isolated", "xproc"):
            key = json.dumps(case, sort_keys=True)
            if _ACTIVE_MUTANT is not None and _KILLED.get(_ACTIVE_MUTANT) and key in _BASE_OBS:
                return _BASE_OBS[key]
        obs = self._run_impl(case)
        if key is not None:
            if _ACTIVE_MUTANT is None:
                _BASE_OBS[key] = obs
            elif key in _BASE_OBS and not self._quick_fail(case, _BASE_OBS[key]) and self._quick_fail(case, obs):
                _KILLED[_ACTIVE_MUTANT] = True
        return obs

    def _quick_fail(self, case, obs):
        """the Spec clauses on one observation, evaluated here (the verdict itself is always the driver's)"""
        try:
            if case["kind"] == "xproc":
                return obs["here"] != obs["there"]
            if case["kind"] == "repro" and [s_["out"] for s_ in obs["A"]["steps"]] != [s_["out"] for s_ in obs["B"]["steps"]]:
                return True
            for _i, x, y in self._explicit_steps(case, obs):
                if x["py0"] != x["py1"] or x["np0"] != x["np1"] or y["py0"] != y["py1"] or y["np0"] != y["np1"] or x["out"] != y["out"]:
                    return True
        except Exception:
            return False
        return False

    def _run_impl(self, case):
        global _WARM
        if not _WARM:
            warm_up()
            _WARM = True
        if case["kind"] == "table":
            return {"rows": [{"name": r["name"], "accepts": r["accepts"], "deps": row_deps(r), "osSites": r["osSites"],
                              "leakSites": r["leakSites"], "ctorDeps": row_deps(r, ctor=True),
                              "cached": bool(r.get("cached", False))} for r in self.table()]}
        if case["kind"] == "static":
            return {"sites": self.static_sites()}
        if case["kind"] == "prim":
            return self._run_prim(case)
        if case["kind"] == "xproc":
            return self._run_xproc(case)
        if not self._valid(case):
            raise ValueError("ill-formed program (generator/shrinker bug)")
        st_py, st_np = random.getstate(), numpy.random.get_state()
        restore_shared()
        try:
            with TR as tr:
                tr.exec_index = 0
                a, env = exec_program(case, "a", tr)
                tr.exec_index = 7919
                try:
                    b, _env = exec_program(case, "b", tr, env if case.get("share") else None)
                finally:
                    tr.exec_index = 0
        finally:
            random.setstate(st_py)
            numpy.random.set_state(st_np)
        return {"A": a, "B": b}

    @staticmethod
    def _run_xproc(case):
        for op in case["prog"]:
            if "c" in op and (op["c"] not in comps()):
                raise ValueError("ill-formed program (generator/shrinker bug)")
        key = xproc_key(case)
        child = None
        reuse = _ACTIVE_MUTANT is not None and _ACTIVE_MUTANT not in XPROC_MUTANTS and key in _XPROC_DONE
        if not reuse:
            child = _XPROC.pop(key, None) if _ACTIVE_MUTANT is None else None
            child = child or xproc_start(case["prog"], case.get("hashseed", 4242))
        st_py, st_np = random.getstate(), numpy.random.get_state()
        try:
            here = run_seeded_prog(case["prog"])
        finally:
            random.setstate(st_py)
            numpy.random.set_state(st_np)
            there = _XPROC_DONE[key] if reuse else xproc_collect(child)
        if _ACTIVE_MUTANT is None:
            _XPROC_DONE[key] = there
        return {"here": here, "there": there}

    @staticmethod
    def _run_prim(case):
        """seed()/spawn() against their literal Lean model: record the four primitives from the standard library
        (reference pass), then run the real prng.seed / prng.spawn from the same start"""
        import pybrops.core.random.prng as prng
        st_py, st_np = random.getstate(), numpy.random.get_state()
        try:
            random.seed(case.get("start", 5))
            numpy.random.seed(case.get("start", 5) + 1)
            s0 = (random.getstate(), numpy.random.get_state())
            py0, np0 = py_state(), np_state()
            py_seed, py_draw, np_seed, gen_seed = [], [], [], []
            for op in case["ops"]:
                if "seed" in op:
                    random.seed(op["seed"])
                    p0 = py_state()
                    v = random.randint(0, 2 ** 32 - 1)
                    py_seed.append([str(op["seed"]), p0])
                    py_draw.append([32, p0, v, py_state()])
                    numpy.random.seed(v)
                    np_seed.append([str(v), np_state()])
                else:
                    BG, sbits = spawn_args(op)
                    for _ in range(op["spawn"]):
                        p = py_state()
                        v = random.randint(0, 2 ** sbits - 1)
                        py_draw.append([sbits, p, v, py_state()])
                        gen_seed.append([op.get("bg", 0), str(v), gen_state(numpy.random.Generator(BG(v)))])
            random.setstate(s0[0])
            numpy.random.set_state(s0[1])
            real = []
            for op in case["ops"]:
                gens = []
                if "seed" in op:
                    prng.seed(op["seed"])
                elif op.get("none") and op["spawn"] == 1:       # spawn(None, ...): one generator, not a list
                    gens = [gen_state(prng.spawn(None, *spawn_args(op)))]
                else:
                    gens = [gen_state(g) for g in prng.spawn(op["spawn"], *spawn_args(op))]
                real.append({"py": py_state(), "np": np_state(), "gens": gens})
        finally:
            random.setstate(st_py)
            numpy.random.set_state(st_np)
        return {"py": py0, "np": np0, "py_seed": py_seed, "py_draw": py_draw, "np_seed": np_seed, "gen_seed": gen_seed,
                "real": real}

    # ------------------------------------------------------------------ model / Spec requests
    @staticmethod
    def _explicit_steps(case, obs):
        """[(index into setup+prog, A step, B step)] of the operations that hand an explicit generator to a
        component: calls and constructions with an `rng` argument, method calls on objects that hold one"""
        setup, prog = case.get("setup", []), case["prog"]
        handles = []
        out = []
        share = bool(case.get("share"))
        sa = obs["A"]["setup"] + obs["A"]["steps"]
        sb = ([None] * len(setup) if share else obs["B"]["setup"]) + obs["B"]["steps"]
        for i, op in enumerate(setup + prog):
            a = op.get("rng", "glob")
            explicit = False
            if "new" in op:
                handles.append(a)
                explicit = a != "glob"
            elif "setrng" in op:
                handles[op["setrng"]] = a
            elif "copy" in op:
                handles.append(handles[op["copy"]])
            elif "use" in op:
                explicit = handles[op["use"]] != "glob"
            elif "c" in op:
                explicit = a != "glob"
            if explicit and sb[i] is not None:
                out.append((i, sa[i], sb[i]))
        return out

    def requests(self, case, obs):
        if case["kind"] == "table":
            return [{"op": "c08.table"}]
        if case["kind"] == "static":
            return [{"op": "c08.static"}]
        if case["kind"] == "xproc":
            return [{"op": "c08.spec_repro", "a": obs["here"], "b": obs["there"]}]
        if case["kind"] == "prim":
            return [{"op": "c08.prim_run", "ops": [({"seed": o["seed"]} if "seed" in o else
                                                   {"spawn": o["spawn"], "bg": o.get("bg", 0), "bits": o.get("sbits", 64)})
                                                  for o in case["ops"]], **{k: obs[k] for k in ("py", "np", "py_seed", "py_draw", "np_seed", "gen_seed")}}]
        reqs = [{"op": "c08.predict", "setup": [self._model_op(op) for op in case.get("setup", [])],
                 "prog": [self._model_op(op) for op in case["prog"]], "n_ext": len(case.get("ext", [])),
                 "share": bool(case.get("share"))}]
        sa, sb = obs["A"]["steps"], obs["B"]["steps"]
        if case["kind"] == "repro":
            reqs.append({"op": "c08.spec_repro", "a": [s["out"] for s in sa], "b": [s["out"] for s in sb]})
        iso = lambda s: {"py0": s["py0"], "py1": s["py1"], "np0": s["np0"], "np1": s["np1"], "out": s["out"]}
        for _i, x, y in self._explicit_steps(case, obs):
            reqs.append({"op": "c08.spec_isolated", "a": iso(x), "b": iso(y), "same_generator": True})
        return reqs

    @staticmethod
    def _model_op(op):
        if "seed" in op:
            return {"seed": op["seed"]}
        if "spawn" in op:
            return {"spawn": op["spawn"], "bg": op.get("bg", 0), "bits": op.get("sbits", 64)}
        if "new" in op:
            return {"new": op["new"], "rng": op["rng"]}
        if "use" in op:
            return {"use": op["use"], "c": op["cls"]}
        if "setrng" in op:
            return {"setrng": op["setrng"], "c": op["cls"], "rng": op["rng"]}
        if "copy" in op:
            return {"copy": op["copy"]}
        return {"c": op["c"], "rng": op["rng"]}

    def judge(self, case, obs, answers):
        for a in answers:
            if "err" in a:
                raise RuntimeError("driver error: " + a["err"])
        if case["kind"] == "table":
            t = answers[0]["ok"]
            mine = obs["rows"]
            keys = ("name", "accepts", "deps", "osSites", "leakSites", "ctorDeps", "cached")
            theirs = [{k: r[k] for k in keys} for r in t["rows"]]
            corr = mine == theirs
            bad = [r["name"] for r in t["rows"] if not (r["consistent"] and r["unseeded_known"] and r["leaks_known"]
                                                        and r["cached_known"])]
            return {"corr": corr, "spec": True, "nontrivial": False,
                    "detail": f"compiled table {'==' if corr else '!='} measured table ({len(mine)} rows); rows failing a table obligation: {bad}"}
        if case["kind"] == "static":
            t = answers[0]["ok"]
            mine = [[x["module"], x["func"], x["kind"], x["what"], x["count"], x["reached"], x["scoped"]] for x in obs["sites"]]
            theirs = [[x["module"], x["func"], x["kind"], x["what"], x["count"], x["reached"], x["scoped"]] for x in t["sites"]]
            corr = mine == theirs
            bad = [f"{x['module']}:{x['func']}:{x['what']}" for x in t["sites"] if not x["covered"]]
            return {"corr": corr, "spec": True, "nontrivial": False,
                    "detail": f"compiled static table {'==' if corr else '!='} scanned sites ({len(mine)}); uncovered sites: {bad}"}
        if case["kind"] == "xproc":
            r = answers[0]["ok"]
            fails = [] if r["ok"] else [[r["first_diff"] if r["first_diff"] is not None else 0, "xproc",
                                         "outputs differ between two interpreter processes after the same seed()"]]
            return {"corr": True, "spec": bool(r["ok"]), "nontrivial": len(case["prog"]) >= 3, "fails": fails,
                    "detail": f"xproc: the seeded program in this process and in a fresh interpreter (PYTHONHASHSEED="
                              f"{case.get('hashseed', 4242)}): {r['detail']}"}
        if case["kind"] == "prim":
            model = answers[0]["ok"]["steps"]
            corr = model == obs["real"]
            first = next((i for i, (a, b) in enumerate(zip(model, obs["real"])) if a != b), None)
            return {"corr": corr, "spec": True, "nontrivial": len(case["ops"]) >= 2,
                    "detail": f"literal model of seed()/spawn() on the recorded primitives {'==' if corr else '!='} real prng "
                              f"({len(model)}/{len(obs['real'])} steps, first difference at {first})"}
        pred = answers[0]["ok"]
        share = bool(case.get("share"))
        nset = len(case.get("setup", []))
        sa = obs["A"]["setup"] + obs["A"]["steps"]
        sb = ([None] * nset if share else obs["B"]["setup"]) + obs["B"]["steps"]
        notes = []
        corr = pred["complete"] and len(pred["steps"]) == len(sa) == len(sb)
        if not corr:
            notes.append("model could not run the program")
        else:
            for i, (p, x, y) in enumerate(zip(pred["steps"], sa, sb)):
                for t in (x, y):
                    if t is None:
                        continue
                    extra = [s for s in t["touched"] if s not in p["touched"]]
                    if extra:
                        corr = False
                        notes.append(f"step {i}: advances {extra}, table says {p['touched']}")
                if y is None:
                    continue
                for flag, key in (("eq_out", "out"), ("eq_py", "py1"), ("eq_np", "np1"), ("eq_gens", "gens")):
                    if p[flag] and x[key] != y[key]:
                        corr = False
                        notes.append(f"step {i}: {key} differs between the executions, model says equal")
        # Spec on the implementation's observations (evaluated by the driver)
        fails = self._spec_failures(case, obs, answers)
        spec = not fails
        starts_differ = obs["A"]["start"]["py"] != obs["B"]["start"]["py"] and obs["A"]["start"]["np"] != obs["B"]["start"]["np"]
        ncalls = sum(1 for op in case["prog"] if "c" in op or "spawn" in op or "use" in op or "new" in op)
        nontriv = starts_differ and ncalls >= (2 if case["kind"] == "repro" else 1)
        return {"corr": corr, "spec": spec, "nontrivial": nontriv, "fails": fails,
                "detail": f"{case['kind']}{' share' if share else ''} spec_failures={fails[:3]} correspondence={notes[:3]}"}

    def _spec_failures(self, case, obs, answers):
        """[(step index into setup+prog, clause, detail)] — clause 'isolated' (explicit generator: globals touched /
        result not a function of the generator) or 'repro' (outputs of the two executions differ)"""
        fails = []
        k = 1
        nset = len(case.get("setup", []))
        first_diff = None
        if case["kind"] == "repro":
            r = answers[k]["ok"]
            k += 1
            if not r["ok"]:
                first_diff = nset + (r["first_diff"] if r["first_diff"] is not None else 0)
        for i, _x, _y in self._explicit_steps(case, obs):
            r = answers[k]["ok"]
            k += 1
            if not r["ok"]:
                fails.append([i, "isolated", r["detail"]])
        if first_diff is not None:
            fails.append([first_diff, "repro", "outputs differ after re-seeding"])
        fails.sort(key=lambda f: (f[0], 0 if f[1] == "isolated" else 1))
        return fails

    # ------------------------------------------------------------------ findings matcher
    def signature(self, case, obs, verdict):
        sig = {"kind": case.get("kind")}
        fails = verdict.get("fails") if isinstance(verdict, dict) else None
        if not fails or not isinstance(obs, dict) or ("A" not in obs and "here" not in obs):
            return sig
        if case.get("kind") == "xproc":
            i = fails[0][0]
            op = case["prog"][i] if i < len(case["prog"]) else {}
            sig.update({"component": op.get("c", "seed/spawn"), "cond": "unseeded_entropy", "via": "other_process"})
            return sig
        i, clause, _ = fails[0]
        ops = case.get("setup", []) + case["prog"]
        op = ops[i]
        sig["component"] = op.get("c") or op.get("cls") or op.get("new") or ("spawn" if "spawn" in op else "seed")
        if str(sig["component"]).startswith("sel."):
            v_new = op.get("v", 0)
            if "use" in op:         # the variant the object was constructed with
                made = [o for o in ops if "new" in o or "copy" in o]
                o = made[op["use"]] if op["use"] < len(made) else {}
                while "copy" in o:
                    o = made[o["copy"]]
                v_new = o.get("v", 0)
            if v_new % 6 in DEFAULT_OPT_VARIANTS:
                sig["variant"] = "default_optimiser"
        nset = len(case.get("setup", []))
        share = bool(case.get("share"))
        steps = [obs["A"]["setup"] + obs["A"]["steps"],
                 ([{}] * nset if share else obs["B"]["setup"]) + obs["B"]["steps"]]
        if clause == "isolated":
            sites = set()
            for st in steps:
                sites |= set(st[i].get("leak_sites", []))
                sites |= set(st[i].get("os_sites", []))
            touched = any(st[i] and (st[i]["py0"] != st[i]["py1"] or st[i]["np0"] != st[i]["np1"]) for st in steps)
            sig["cond"] = "explicit_rng_not_isolated"
            hist = any(len(e) > 2 and e[2] for e in case.get("ext", []))
            sig["via"] = "+".join(sorted(sites)) if sites else ("unattributed" if touched else (
                "result_depends_on_more_than_the_generator_state" if hist else "result_depends_on_global_state"))
        else:
            # entropy acquired by the first divergent step itself; earlier steps only if it acquired none
            sites = set()
            for st in steps:
                sites |= set(st[i].get("os_sites", []))
            if not sites:
                for st in steps:
                    for j in range(i):
                        sites |= set(st[j].get("os_sites", []))
            sig["cond"] = "unseeded_entropy"
            sig["via"] = "+".join(sorted(sites)) if sites else "no_os_read_observed"
        return sig

    # ------------------------------------------------------------------ shrinking
    def shrink(self, case):
        if case.get("kind") == "xproc":
            prog = case["prog"]
            half = len(prog) // 2
            if half >= 2:           # (each candidate costs one interpreter start: halve first)
                yield dict(case, prog=prog[:1] + prog[1 + half:])
                yield dict(case, prog=prog[:1 + half])
            if len(prog) <= 8:
                for i in range(1, len(prog)):
                    if len(prog) > 2:
                        yield dict(case, prog=prog[:i] + prog[i + 1:])
            return
        if case.get("kind") not in ("repro", "isolated"):
            return
        prog = case["prog"]
        for i in range(len(prog)):
            if len(prog) > 1 and not (i == 0 and case["kind"] == "repro"):
                c = dict(case)
                c["prog"] = prog[:i] + prog[i + 1:]
                if self._valid(c):
                    yield c
        setup = case.get("setup", [])
        for i in range(len(setup)):
            c = dict(case)
            if "new" in setup[i]:
                # drop the object together with every operation on it; renumber the others
                k = sum(1 for op in setup[:i] if "new" in op)

                def ren(ops):
                    out = []
                    for op in ops:
                        key = "use" if "use" in op else ("setrng" if "setrng" in op else None)
                        if key is None:
                            out.append(op)
                        elif op[key] != k:
                            out.append(dict(op, **{key: op[key] - (1 if op[key] > k else 0)}))
                    return out
                if any("new" in op for op in prog) or any("copy" in op for op in setup + prog):
                    continue
                c["setup"] = ren(setup[:i] + setup[i + 1:])
                c["prog"] = ren(prog)
                if len(c["prog"]) < (2 if case["kind"] == "repro" else 1):
                    continue
            else:
                c["setup"] = setup[:i] + setup[i + 1:]
            if self._valid(c):
                yield c
        for key in ("pre_a", "pre_b"):
            for i in range(len(case[key])):
                if case["kind"] == "isolated" and case[key][i][0] == "seed" and i == len(case[key]) - 1:
                    continue
                c = dict(case)
                c[key] = case[key][:i] + case[key][i + 1:]
                yield c
        for i, op in enumerate(prog):
            if op.get("v"):
                c = dict(case)
                c["prog"] = prog[:i] + [dict(op, v=0)] + prog[i + 1:]
                yield c
        exts = case.get("ext", [])
        for i, e in enumerate(exts):            # the history of a caller generator: none, then shorter
            if len(e) > 2 and e[2]:
                yield dict(case, ext=exts[:i] + [e[:2]] + exts[i + 1:])
                for w in ("a", "b"):
                    for k in range(len(e[2].get(w, []))):
                        h = dict(e[2], **{w: e[2][w][:k] + e[2][w][k + 1:]})
                        yield dict(case, ext=exts[:i] + [[e[0], e[1], h]] + exts[i + 1:])

    # ------------------------------------------------------------------ self-test mutants
    def mutants(self):
        compat.import_pybrops()
        import pybrops.core.random.prng as prng
        import pybrops.core.random.sampling as sampling
        import pybrops.breed.prot.mate.util as mutil
        import pybrops.breed.prot.pt.G_E_Phenotyping as gep
        import pybrops.opt.algo.pymoo_addon as addon
        import pybrops.opt.algo.SteepestDescentSubsetHillClimber as hc
        import pybrops.breed.prot.sel.cfg.SubsetSelectionConfiguration as ssc
        prop = self

        @contextlib.contextmanager
        def patch(obj, name, new):
            old = getattr(obj, name)
            setattr(obj, name, new)
            try:
                yield
            finally:
                setattr(obj, name, old)

        import random as py_random

        def seed_py_only(s=None):                       # mechanism 1: seed() without re-seeding numpy
            py_random.seed(s)

        def seed_numpy_from_os(s=None):                 # mechanism 1: numpy re-seeded, but from the OS
            py_random.seed(s)
            numpy.random.seed()

        def spawn_from_os(n=None, BitGenerator=numpy.random.PCG64, sbits=64):   # mechanism 2
            if n is None:
                return numpy.random.Generator(BitGenerator())
            return [numpy.random.Generator(BitGenerator()) for _ in range(n)]

        def spawn_from_numpy(n=None, BitGenerator=numpy.random.PCG64, sbits=64):
            # still reproducible, but no longer the measured dependency set {py}: correspondence must flag it
            f = lambda: numpy.random.Generator(BitGenerator(int(_RAND.randint(0, 2 ** 31 - 1))))
            return f() if n is None else [f() for _ in range(n)]

        orig_meiosis = mutil.mat_meiosis

        def meiosis_ignores_rng(geno, sel, xoprob, rng):        # mechanism 3: component ignores self.rng
            return orig_meiosis(geno, sel, xoprob, prng.global_prng)

        orig_pheno = gep.G_E_Phenotyping.phenotype

        def pheno_default_rng(self, pgmat, miscout=None, **kw):  # mechanism 3: default_rng() inside a component
            old = self._rng
            self._rng = numpy.random.default_rng()
            try:
                return orig_pheno(self, pgmat, miscout, **kw)
            finally:
                self._rng = old

        orig_sus = sampling.stochastic_universal_sampling

        def sus_ignores_rng(a, p, size=None, rng=None):          # mechanism 3: sampler ignores its rng
            return orig_sus(a, p, size, None)

        orig_tiled = sampling.tiled_choice

        def tiled_time_seeded(a, size=None, replace=True, p=None, rng=None):   # mechanism 3: clock-derived seed
            return orig_tiled(a, size, replace, p, numpy.random.RandomState(time.perf_counter_ns() % (2 ** 32)))

        orig_sampling_do = addon.SubsetRandomSampling._do

        def sampling_default_rng(self, problem, n_samples, **kw):   # mechanism 4: custom pymoo operator reads the OS
            g = numpy.random.default_rng()
            out = numpy.empty((n_samples, problem.n_var), dtype=self._setspace.dtype)
            for i in range(n_samples):
                out[i, :] = g.choice(self._setspace, problem.n_var, replace=self._replace)
            return out

        def sampling_default_rng_large(self, problem, n_samples, **kw):   # size-gated: only set spaces > 10 000
            if len(self._setspace) <= 10000:
                return orig_sampling_do(self, problem, n_samples, **kw)
            return sampling_default_rng(self, problem, n_samples, **kw)

        def meiosis_fresh_generator_large(geno, sel, xoprob, rng):        # size-gated: only > 4096 gametes
            if len(sel) > 4096:
                rng = numpy.random.default_rng()
            return orig_meiosis(geno, sel, xoprob, rng)

        def tiled_default_rng_large(a, size=None, replace=True, p=None, rng=None):   # size-gated: > 2**16 draws
            if numpy.prod(size) > 65536:
                rng = numpy.random.default_rng()
            return orig_tiled(a, size, replace, p, rng)

        def spawn_from_os_large(n=None, BitGenerator=numpy.random.PCG64, sbits=64):    # size-gated: > 64 streams
            if n is not None and n > 64:
                return spawn_from_os(n, BitGenerator, sbits)
            return orig_spawn(n, BitGenerator, sbits)

        orig_spawn = prng.spawn
        orig_min = hc.SteepestDescentSubsetHillClimber.minimize

        def hillclimber_global(self, prob, miscout=None, **kw):  # D12 matcher must stay narrow
            old = self._rng
            self._rng = prng.global_prng
            try:
                return orig_min(self, prob, miscout, **kw)
            finally:
                self._rng = old

        # ---- round 3: long-lived objects, aliasing of inputs, secondary entry points, rare options ----------
        import pybrops.breed.prot.mate.TwoWayCross as twc
        import pybrops.core.util.mate as umate
        import pybrops.popgen.cmat.DenseCoancestryMatrix as dcm
        import pybrops.opt.algo.UnconstrainedSteepestAscentSetHillClimber as uhc
        import pybrops.opt.algo.SubsetGeneticAlgorithm as sga

        def _derive(value):
            seed = int(value.randint(0, 2 ** 31 - 1)) if isinstance(value, numpy.random.RandomState) else int(value.integers(0, 2 ** 31 - 1))
            return numpy.random.default_rng(seed)

        def derived_rng_property(cls):
            """class (1): the `rng` setter derives ONE private generator when the generator is assigned and the
            object draws from that one ever after (C08-b3 on another component)"""
            orig = cls.rng

            def fset(self, value):
                orig.fset(self, value)
                self._c08_derived = _derive(self._rng)

            return property(lambda self: self._c08_derived, fset)

        orig_sga_min = sga.SubsetGeneticAlgorithm.minimize

        def ga_stream_per_object(self, prob, miscout=None, **kw):       # class (1): one stream per optimiser object
            if not hasattr(self, "_c08_stream"):
                self._c08_stream = numpy.random.default_rng(20240229)
            old = self._rng
            self._rng = self._c08_stream
            try:
                return orig_sga_min(self, prob, miscout, **kw)
            finally:
                self._rng = old

        def tiled_permutes_options(a, size=None, replace=True, p=None, rng=None):    # class (1): aliasing (C08-c3)
            out = orig_tiled(a, size, replace, p, rng)
            if not replace and numpy.prod(size) == len(a):
                a[:] = out.ravel()
            return out

        def hillclimber_memo(self, prob, miscout=None, **kw):            # class (1): memo primed by the first call
            memo = self.__dict__.setdefault("_c08_memo", {})
            if id(prob) not in memo:
                memo[id(prob)] = orig_min(self, prob, miscout, **kw)
            return memo[id(prob)]

        import functools

        @functools.lru_cache(maxsize=None)
        def _exchix(n):
            return numpy.array([[i, j] for i in range(n) for j in range(i + 1, n)])

        def outcross_cached_indices(xconfig, rng=None):                  # module-level memo shuffled in place (C08-a3)
            if rng is None:
                rng = prng.global_prng

            def objfn(x):
                return sum(int(numpy.sum(numpy.unique(r, return_counts=True)[1] - 1)) for r in x)
            xr = xconfig.flat
            best = objfn(xconfig)
            exchix = _exchix(len(xr))
            it = True
            while it:
                rng.shuffle(exchix)
                local = True
                for i, j in exchix:
                    xr[i], xr[j] = xr[j], xr[i]
                    sc = objfn(xconfig)
                    if sc < best:
                        best = sc
                        local = False
                        break
                    xr[i], xr[j] = xr[j], xr[i]
                it = not local

        private_uniform = numpy.random.RandomState(99).uniform          # class (5): a wrapper bound to another generator

        orig_uopt = uhc.UnconstrainedSteepestAscentSetHillClimber.optimize

        def uncon_hc_python_random(self, objfn, k, sspace, objfn_wt, **kw):   # class (5): legacy entry point
            if py_random.random() < 2.0:
                return orig_uopt(self, objfn, k, sspace, objfn_wt, **kw)

        orig_jit = dcm.DenseCoancestryMatrix.apply_jitter

        def jitter_os_when_nearly_psd(self, eigvaltol=2e-14, minjitter=1e-10, maxjitter=1e-6, nattempt=100):
            # class (2): only the rounding-noise branch (eigenvalue ~ -1e-17) builds its own generator
            if numpy.min(numpy.linalg.eigvals(self._mat).real) > -1e-8:
                with patch(numpy.random, "uniform", numpy.random.default_rng().uniform):
                    return orig_jit(self, eigvaltol, minjitter, maxjitter, nattempt)
            return orig_jit(self, eigvaltol, minjitter, maxjitter, nattempt)

        def pheno_global_for_unequal_error_variances(self, pgmat, miscout=None, **kw):   # class (4): per-trait arrays
            ve = numpy.asarray(self.var_err)
            if ve.ndim == 1 and len(set(ve.tolist())) > 1 and self._rng is not prng.global_prng:
                old = self._rng
                self._rng = prng.global_prng
                try:
                    return orig_pheno(self, pgmat, miscout, **kw)
                finally:
                    self._rng = old
            return orig_pheno(self, pgmat, miscout, **kw)

        orig_dm = umate.dense_meiosis

        def dense_meiosis_global(geno, sel, xoprob, rng):               # class (5): the second copy of meiosis
            return orig_dm(geno, sel, xoprob, prng.global_prng)

        def seed_keeps_cached_gaussian(s=None):                          # mechanism 1 (C08-a1)
            py_random.seed(s)
            numpy.random.get_bit_generator().state = numpy.random.MT19937(py_random.getrandbits(128)).state

        def seed_zero_from_os(s=None):                                   # mechanism 1 (C08-c2)
            py_random.seed(int(s) if s else None)
            numpy.random.seed(py_random.randint(0, 2 ** 32 - 1))

        def spawn_reversed(n=None, BitGenerator=numpy.random.PCG64, sbits=64):     # harmless for the property, not the model
            out = orig_spawn(n, BitGenerator, sbits)
            return out[::-1] if isinstance(out, list) else out

        def seed_numpy_from_second_draw(s=None):                         # reproducible, but not the modelled seed()
            py_random.seed(s)
            py_random.randint(0, 2 ** 32 - 1)
            numpy.random.seed(py_random.randint(0, 2 ** 32 - 1))

        def mate_selfing_global(geno1, geno2, sel1, sel2, xoprob, rng):  # class (4): nself >= 1 only (C08-c1)
            if geno1 is geno2 and sel1 is sel2:
                rng = prng.global_prng
            return orig_mat_mate(geno1, geno2, sel1, sel2, xoprob, rng)

        orig_mat_mate = twc.mat_mate

        # ---- round 4: generator kinds, objects derived from objects, narrow options with a registry, ties,
        # duplicates of a repaired factory, partially structured genomes --------------------------------
        import pybrops.opt.algo.RealGeneticAlgorithm as rga
        import pybrops.breed.prot.sel.prob.RandomSelectionProblem as rsp
        exec("def _c08_draw_seed(rng):\n"
             "    return int((rng.integers if hasattr(rng, 'integers') else np.random.randint)(0, 2**31-1))\n", addon.__dict__)
        orig_rga_min = rga.RealGeneticAlgorithm.minimize

        def ga_seed_helper_duck_typed(self, prob, miscout=None, **kw):   # class (4): legacy RandomState only (C08-d2)
            addon._c08_draw_seed(self.rng)          # a NON-operator function of pymoo_addon: D11b must not cover it
            return orig_rga_min(self, prob, miscout, **kw)

        orig_dc = gep.G_E_Phenotyping.__deepcopy__

        def pheno_deepcopy_clones_generator(self, memo=None):              # class (1)/(5): C08-d3
            out = orig_dc(self, memo if memo is not None else {})
            out._rng = copy.deepcopy(self._rng)
            return out

        orig_cp = gep.G_E_Phenotyping.__copy__

        def pheno_copy_rebinds_global(self):                                 # a shallow copy forgets the caller's generator
            out = orig_cp(self)
            out._rng = prng.global_prng
            return out

        narrow_seeds = set()

        def spawn_narrow_registry(n=None, BitGenerator=numpy.random.PCG64, sbits=64):   # class (4)+(1): C08-d1
            def one():
                x = py_random.randint(0, 2 ** sbits - 1)
                if sbits <= 32:
                    while x in narrow_seeds and len(narrow_seeds) < 2 ** sbits:
                        x = py_random.randint(0, 2 ** sbits - 1)
                    narrow_seeds.add(x)
                return numpy.random.Generator(BitGenerator(x))
            return one() if n is None else [one() for _ in range(n)]

        def hillclimber_tie_break_global(self, prob, miscout=None, **kw):    # class (2): exact ties only
            orig_eval = prob.evalfn
            last = [None]

            def evalfn(x, *a, **k):
                r = orig_eval(x, *a, **k)
                sc = float(r[0].sum())
                if last[0] is not None and sc == last[0]:
                    numpy.random.random()
                last[0] = sc
                return r
            prob.evalfn = evalfn
            try:
                return orig_min(self, prob, miscout, **kw)
            finally:
                del prob.evalfn

        orig_real_from = rsp.RandomRealSelectionProblem.from_object.__func__

        def random_real_problem_global(cls, *a, **k):                        # class (5): duplicate of the D12b site
            k["rng"] = None
            return orig_real_from(cls, *a, **k)

        def meiosis_global_on_one_marker_chromosome(geno, sel, xoprob, rng):  # class (6)
            x = numpy.asarray(xoprob)
            if numpy.any((x[:-1] == 0.5) & (x[1:] == 0.5)):
                rng = prng.global_prng
            return orig_meiosis(geno, sel, xoprob, rng)

        import pybrops.breed.prot.sel.WeightedGenomicSelection as wgs
        orig_wgs_init = wgs.WeightedGenomicSubsetSelection.__init__

        def protocol_ctor_drops_rng(self, *a, **k):                  # class (5): one of 59 protocol constructors
            k["rng"] = None
            return orig_wgs_init(self, *a, **k)

        def tiled_hash_seeded(a, size=None, replace=True, p=None, rng=None):   # only ANOTHER PROCESS sees a different hash
            return orig_tiled(a, size, replace, p, numpy.random.RandomState(hash("tiled_choice") % (2 ** 32)))

        # ---- round 5: inputs without any weight; the history of the caller's generator object ---------------
        import pybrops.breed.prot.sel.cfg.RealSelectionConfiguration as rsc

        def sus_uniform_fallback_drops_rng(a, p, size=None, rng=None):      # class (2): total weight 0 only (C08-e1)
            if not p.sum() > 0.0:
                return orig_tiled(a, size, True)
            return orig_sus(a, p, size, rng)

        def pheno_child_stream_from_lineage(self, pgmat, miscout=None, **kw):   # C08-e3: Generator.spawn() reads the
            old = self._rng                                                   # SeedSequence lineage, not the state
            if isinstance(old, numpy.random.Generator):
                self._rng = old.spawn(1)[0]
            try:
                return orig_pheno(self, pgmat, miscout, **kw)
            finally:
                self._rng = old

        def meiosis_child_stream_from_lineage(geno, sel, xoprob, rng):       # the same class at the mating site
            if isinstance(rng, numpy.random.Generator):
                rng = numpy.random.Generator(type(rng.bit_generator)(rng.bit_generator.seed_seq.spawn(1)[0]))
            return orig_meiosis(geno, sel, xoprob, rng)

        def named(name, factory):
            @contextlib.contextmanager
            def cm():
                global _ACTIVE_MUTANT
                old, _ACTIVE_MUTANT = _ACTIVE_MUTANT, name
                _KILLED[name] = False
                try:
                    with factory():
                        yield
                finally:
                    _ACTIVE_MUTANT = old
            return (name, cm)

        return [named(*m) for m in [
            ("tiled_choice_seeded_from_string_hash", lambda: patch(sampling, "tiled_choice", tiled_hash_seeded)),
            ("seed_without_numpy", lambda: patch(prng, "seed", seed_py_only)),
            ("seed_numpy_from_os", lambda: patch(prng, "seed", seed_numpy_from_os)),
            ("spawn_from_os_entropy", lambda: patch(prng, "spawn", spawn_from_os)),
            ("spawn_from_numpy_global", lambda: patch(prng, "spawn", spawn_from_numpy)),
            ("mating_ignores_rng", lambda: patch(mutil, "mat_meiosis", meiosis_ignores_rng)),
            ("phenotyping_default_rng", lambda: patch(gep.G_E_Phenotyping, "phenotype", pheno_default_rng)),
            ("sus_ignores_rng", lambda: patch(sampling, "stochastic_universal_sampling", sus_ignores_rng)),
            ("tiled_choice_clock_seeded", lambda: patch(ssc, "tiled_choice", tiled_time_seeded)),
            ("pymoo_sampling_default_rng", lambda: patch(addon.SubsetRandomSampling, "_do", sampling_default_rng)),
            ("pymoo_sampling_default_rng_above_10000", lambda: patch(addon.SubsetRandomSampling, "_do", sampling_default_rng_large)),
            ("meiosis_fresh_generator_above_4096_gametes", lambda: patch(mutil, "mat_meiosis", meiosis_fresh_generator_large)),
            ("tiled_choice_default_rng_above_65536_draws", lambda: patch(sampling, "tiled_choice", tiled_default_rng_large)),
            ("spawn_from_os_above_64_streams", lambda: patch(prng, "spawn", spawn_from_os_large)),
            ("hillclimber_uses_global_in_select", lambda: patch(hc.SteepestDescentSubsetHillClimber, "minimize", hillclimber_global)),
            ("mating_derives_generator_at_rng_assignment", lambda: patch(twc.TwoWayCross, "rng", derived_rng_property(twc.TwoWayCross))),
            ("phenotyping_derives_generator_at_rng_assignment", lambda: patch(gep.G_E_Phenotyping, "rng", derived_rng_property(gep.G_E_Phenotyping))),
            ("subset_ga_one_stream_per_object", lambda: patch(sga.SubsetGeneticAlgorithm, "minimize", ga_stream_per_object)),
            ("tiled_choice_permutes_caller_options_full_set", lambda: patch(ssc, "tiled_choice", tiled_permutes_options)),
            ("hillclimber_memoises_solution_per_object", lambda: patch(hc.SteepestDescentSubsetHillClimber, "minimize", hillclimber_memo)),
            ("outcross_shuffle_cached_exchange_indices", lambda: patch(sampling, "outcross_shuffle", outcross_cached_indices)),
            ("prng_uniform_wrapper_bound_to_private_generator", lambda: patch(prng, "uniform", private_uniform)),
            ("legacy_hillclimber_draws_from_python_random", lambda: patch(uhc.UnconstrainedSteepestAscentSetHillClimber, "optimize", uncon_hc_python_random)),
            ("jitter_os_generator_when_nearly_psd", lambda: patch(dcm.DenseCoancestryMatrix, "apply_jitter", jitter_os_when_nearly_psd)),
            ("phenotyping_global_for_unequal_error_variances", lambda: patch(gep.G_E_Phenotyping, "phenotype", pheno_global_for_unequal_error_variances)),
            ("dense_meiosis_copy_ignores_rng", lambda: patch(umate, "dense_meiosis", dense_meiosis_global)),
            ("seed_keeps_cached_gaussian", lambda: patch(prng, "seed", seed_keeps_cached_gaussian)),
            ("seed_zero_seeds_from_os", lambda: patch(prng, "seed", seed_zero_from_os)),
            ("mating_selfing_generations_use_global", lambda: patch(twc, "mat_mate", mate_selfing_global)),
            ("spawn_returns_streams_in_reverse_order", lambda: patch(prng, "spawn", spawn_reversed)),
            ("seed_numpy_from_second_draw", lambda: patch(prng, "seed", seed_numpy_from_second_draw)),
            ("ga_seed_helper_duck_typed_on_integers_attribute", lambda: patch(rga.RealGeneticAlgorithm, "minimize", ga_seed_helper_duck_typed)),
            ("phenotyping_deepcopy_clones_generator", lambda: patch(gep.G_E_Phenotyping, "__deepcopy__", pheno_deepcopy_clones_generator)),
            ("phenotyping_shallow_copy_rebinds_global", lambda: patch(gep.G_E_Phenotyping, "__copy__", pheno_copy_rebinds_global)),
            ("spawn_narrow_seed_registry_survives_seed", lambda: patch(prng, "spawn", spawn_narrow_registry)),
            ("hillclimber_tie_break_from_global_stream", lambda: patch(hc.SteepestDescentSubsetHillClimber, "minimize", hillclimber_tie_break_global)),
            ("random_real_problem_factory_ignores_rng", lambda: patch(rsp.RandomRealSelectionProblem, "from_object", classmethod(random_real_problem_global))),
            ("meiosis_global_on_one_marker_chromosome", lambda: patch(mutil, "mat_meiosis", meiosis_global_on_one_marker_chromosome)),
            ("one_protocol_constructor_drops_rng", lambda: patch(wgs.WeightedGenomicSubsetSelection, "__init__", protocol_ctor_drops_rng)),
            ("real_configuration_uniform_fallback_without_rng_when_no_weight", lambda: patch(rsc, "stochastic_universal_sampling", sus_uniform_fallback_drops_rng)),
            ("phenotyping_child_stream_from_generator_lineage", lambda: patch(gep.G_E_Phenotyping, "phenotype", pheno_child_stream_from_lineage)),
            ("meiosis_child_stream_from_seed_sequence_lineage", lambda: patch(mutil, "mat_meiosis", meiosis_child_stream_from_lineage)),
        ]]


PROP = C08()
