"""C05 — histories over TWO problem objects (and over the three channels of one object).

Case kind "isolation": problem A is built and evaluated, problem B (half of the time the same class with other
data) is built and evaluated, B is then re-configured — keyword arguments / weights either assigned through the
documented setters or edited in place through the containers its getters return — B is evaluated again and, last,
A is evaluated again.  What the property demands ("the reported objectives and constraint violations are exactly
the declared weights times the declared transformations of that latent vector", for every problem):

* every evaluation of A — before and after anything was done to B — meets A's own declaration;
* B before the edits meets B's declaration; after them every channel that was re-declared through a setter meets the
  new declaration and every channel that was not touched meets the old one.  A channel edited in place through a
  getter is not judged on B itself (whether a getter hands out the live container is not part of the property);
  it is only the *source* of the disturbance.

Transformations without keyword arguments are declared with `*_trans_kwargs=None`, weights partly with `None`
(the documented defaults), so anything the classes substitute for `None` is exercised.
"""
from fractions import Fraction

import numpy

from .. import canon

ROLES = ("obj", "ineqcv", "eqcv")
KEYS = ("decnvec_sum", "latentvec_wt", "thr", "m", "c", "floor")


def _c05():
    from . import c05
    return c05


def _part(rng, crit=None, enc=None):
    c05 = _c05()
    for _ in range(200):
        p = c05.gen_eval_case(rng)
        if (crit is None or p["crit"] == crit) and (enc is None or p["enc"] == enc):
            break
    p.pop("second", None)
    p.pop("kind", None)
    p["X"] = p["X"][:1]
    return p


def _weights(rng, ln):
    return [canon.enc(Fraction(rng.choice([-3, -2, 2, 3, 5, -5, 7]), rng.choice([1, 2]))) for _ in range(ln)]


def gen_case(rng):
    c05 = _c05()
    A = _part(rng)
    same = rng.random() < 0.5
    B = _part(rng, A["crit"], A["enc"]) if same else _part(rng)
    if rng.random() < 0.35:
        # both objects leave the weights of one channel at their default (None) and the channel has one entry
        r = rng.choice(ROLES)
        for P in (A, B):
            P[r + "_trans"] = {"t": "sum"} if (r == "obj" or rng.random() < 0.5) else \
                {"t": "decn_sum_eq", "target": 1, "default_kw": True}
            P[r + "_wt"] = [1]
            P.setdefault("wt_form", {})[r] = "none"
        edits = [{"role": r, "what": "wt", "how": "getter", "wt": _weights(rng, 1)}]
    else:
        edits = []
    for _ in range(rng.randint(1, 3)):
        r = rng.choice(ROLES)
        if any(e["role"] == r for e in edits):
            continue
        ln = len(B[r + "_wt"])
        what = rng.choice(["kwargs", "kwargs", "wt"])
        how = rng.choice(["getter", "getter", "assign"])
        if what == "wt":
            if ln == 0:
                continue
            edits.append({"role": r, "what": "wt", "how": how, "wt": _weights(rng, ln)})
        elif how == "getter":
            edits.append({"role": r, "what": "kwargs", "how": "getter", "key": rng.choice(KEYS),
                          "val": canon.enc(Fraction(rng.randint(2, 9), 2))})
        else:
            tr = dict(B[r + "_trans"])
            nl = c05.nlatent(B["crit"], B["data"])
            if tr["t"] == "dot":
                tr["w"] = [canon.enc(Fraction(rng.randint(-6, 6), 2)) for _ in range(nl)]
            elif tr["t"] == "penalty":
                tr["thr"] = canon.enc(Fraction(rng.randint(-8, 8), 2))
            elif tr["t"] == "decn_sum_eq":
                tr = {"t": "decn_sum_eq", "target": canon.enc(Fraction(rng.randint(0, 8), 2))}
            elif tr["t"] == "affine":
                tr["m"], tr["c"] = canon.enc(Fraction(rng.randint(1, 5))), canon.enc(Fraction(rng.randint(-3, 3)))
            else:
                continue        # nothing to re-declare for a transformation without keyword arguments
            edits.append({"role": r, "what": "kwargs", "how": "assign", "trans": tr})
    if not edits:
        edits = [{"role": "eqcv", "what": "kwargs", "how": "getter", "key": "decnvec_sum", "val": canon.enc(Fraction(7, 2))}]
    return {"kind": "isolation", "A": A, "B": B, "edits": edits}


def corpus():
    D = [[1, 2], [3, 4], [5, 7], [2, 2]]
    base = {"crit": "EBV", "enc": "integer", "data": {"D": D}, "X": [[2, 0, 1, 3]],
            "obj_trans": {"t": "identity"}, "obj_wt": [2, -3],
            "ineqcv_trans": {"t": "sum"}, "ineqcv_wt": [5],
            "eqcv_trans": {"t": "decn_sum_eq", "target": 1, "default_kw": True}, "eqcv_wt": ["7/2"]}
    B = dict(base, crit="GEBV", enc="real", X=[["1/2", 0, "1/4", 1]], data={"D": [[4, 1], [0, 2], [6, 6], [1, 3]]})
    return [
        # keyword arguments of a channel declared with None edited through the getter on ANOTHER problem
        {"kind": "isolation", "A": base, "B": B,
         "edits": [{"role": "obj", "what": "kwargs", "how": "getter", "key": "decnvec_sum", "val": "9/2"}]},
        # ... and on another channel of the same class
        {"kind": "isolation", "A": base, "B": dict(base, data={"D": [[4, 1], [0, 2], [6, 6], [1, 3]]}),
         "edits": [{"role": "ineqcv", "what": "kwargs", "how": "getter", "key": "decnvec_sum", "val": 3},
                   {"role": "obj", "what": "wt", "how": "assign", "wt": [7, "1/2"]}]},
        # default weights (None) of one entry in both problems, edited in place on B
        {"kind": "isolation",
         "A": dict(base, obj_trans={"t": "sum"}, obj_wt=[1], wt_form={"obj": "none"}),
         "B": dict(B, obj_trans={"t": "sum"}, obj_wt=[1], wt_form={"obj": "none"}),
         "edits": [{"role": "obj", "what": "wt", "how": "getter", "wt": [-5]}]},
    ]


def _apply(p, B, edits):
    c05 = _c05()
    for e in edits:
        r = e["role"]
        if e["what"] == "wt":
            w = numpy.array([c05._f(v) for v in e["wt"]], dtype=float)
            if e["how"] == "getter":
                held = getattr(p, r + "_wt")
                try:
                    held[...] = w
                except ValueError:          # a read-only array: nothing was changed, nothing can leak
                    pass
            else:
                setattr(p, r + "_wt", w)
        elif e["how"] == "getter":
            getattr(p, r + "_trans_kwargs")[e["key"]] = c05._f(e["val"])
        else:
            _, kw = c05.make_trans(e["trans"], [])
            setattr(p, r + "_trans_kwargs", kw)


def run(prop, case):
    A, B = case["A"], case["B"]
    pA, _, oneA = prop._eval_problem(A, none_for_empty=True)
    obs = {"A1": oneA(A["X"][0])}
    pB, _, oneB = prop._eval_problem(B, none_for_empty=True)
    obs["B1"] = oneB(B["X"][0])
    _apply(pB, B, case["edits"])
    obs["B2"] = oneB(B["X"][0])
    obs["A2"] = oneA(A["X"][0])
    resA = pA.evaluate(_c05().decision(A["enc"], A["X"][0]), return_as_dictionary=True)
    obs["A2_single"] = {k: canon.enc(numpy.asarray(resA[k], dtype=float)) for k in ("F", "G", "H")
                        if resA.get(k) is not None}
    return obs


def requests(prop, case, obs):
    """the Lean oracle Selection.evalOk on A's two evaluations (A's own declaration) and on B's first one"""
    c05 = _c05()
    A, B = case["A"], case["B"]
    reqs = []
    for part, tag in ((A, "A1"), (A, "A2"), (B, "B1")):
        if c05._finite(obs[tag]["latent"]):
            reqs.append(prop._spec_evalfn_req(part, part["X"][0], obs[tag]))
        else:
            reqs.append({"op": "c05.family_index", "ids": []})       # placeholder keeps the answers aligned
    # the store model (Selection.Store.run): both objects, the assignments made through setters, every object queried
    def prob(part):
        d = dict(c05.CRITS[part["crit"]]["crit"](part["data"]), **prop._declaration(part))
        d["S" if part["enc"] == "subset" else "x"] = part["X"][0]
        return d
    ops = []
    for e in case["edits"]:
        if e["how"] != "assign":
            continue
        if e["what"] == "wt":
            ops.append({"i": 1, "set": e["role"] + "_wt", "value": e["wt"]})
        else:
            ops.append({"i": 1, "set": e["role"] + "_trans",
                        "value": {k: v for k, v in e["trans"].items() if k not in ("default_kw", "refn")}})
    reqs.append({"op": "c05.store_history", "problems": [prob(A), prob(B)], "ops": ops})
    return reqs


def effective_B(case):
    """B's declaration after the edits, and the channels of B that are not judged (edited in place)"""
    B = dict(case["B"])
    skip = set()
    forms = dict(B.get("wt_form", {}))
    for e in case["edits"]:
        r = e["role"]
        if e["how"] == "getter":
            skip.add(r)
        elif e["what"] == "wt":
            B[r + "_wt"] = e["wt"]
            forms.pop(r, None)
        else:
            B[r + "_trans"] = e["trans"]
    B["wt_form"] = forms
    return B, skip


def judge(prop, case, obs, answers):
    c05 = _c05()
    A, B = case["A"], case["B"]
    bad = []
    xa, xb = A["X"][0], B["X"][0]
    for tag, part, xv, skip in (("A before", A, xa, ()), ("B before", B, xb, ())):
        row = obs[tag[0] + "1"]
        if not c05._finite(row["latent"]):
            bad.append(f"{tag}: non-finite latent {row['latent']}")
        else:
            prop._check_row(part, xv, row, bad, tag + ": ", skip=skip)
    for a, tag in zip(answers, ("A before", "A after B was re-configured", "B before")):
        if "err" in a:
            raise RuntimeError("driver error: " + a["err"])
        for r in a["ok"].get("bad", []):
            bad.append(f"{tag}: {r} is not weights x declared transformation = {a['ok']['want'][r]} (Selection.evalOk)")
    B2, skip = effective_B(case)
    bad_corr = []
    st = answers[3]
    if "err" in st:
        if not st["err"].startswith("value: zero total"):
            raise RuntimeError("driver error: " + st["err"])
    else:
        for (tag, part, sk), m in zip((("A2", A, ()), ("B2", B2, skip)), st["ok"]):
            row = obs[tag]
            if not c05._finite(row["latent"]):
                continue
            mag = max([1.0] + [abs(float(Fraction(v))) for v in row["latent"]] + [abs(float(Fraction(v))) for v in part["X"][0]])
            if not c05._close_vec(m["latent"], row["latent"]):
                bad_corr.append(f"{tag}: latent model={m['latent']} impl={row['latent']}")
            for r in ROLES:
                if r in sk:
                    continue
                wmag = max([1.0] + [abs(float(Fraction(v))) for v in part[r + "_wt"]] +
                           [abs(float(Fraction(v))) for v in part[r + "_trans"].get("w", [])])
                # the model evaluates the transformations on ITS latent vector (irrational entries rounded to 30 digits)
                if not c05._close_vec(m[r], row[r], 1e-9, max(1e-12, 1e-14 * mag * wmag * wmag)):
                    bad_corr.append(f"{tag}: {r} store model={m[r]} impl={row[r]}")
    if c05._finite(obs["B2"]["latent"]):
        prop._check_row(B2, xb, obs["B2"], bad, "B after its re-configuration: ", skip=skip)
    what = "A after B was re-configured (" + ", ".join(
        f"{e['role']} {e['what']} {'in place' if e['how'] == 'getter' else 'assigned'}" for e in case["edits"]) + "): "
    if c05._finite(obs["A2"]["latent"]):
        prop._check_row(A, xa, obs["A2"], bad, what)
        for k in ("latent", "obj", "ineqcv", "eqcv"):
            if obs["A2"][k] != obs["A1"][k]:
                bad.append(f"{what}{k} changed from {obs['A1'][k]} to {obs['A2'][k]}")
        for key, r in (("F", "obj"), ("G", "ineqcv"), ("H", "eqcv")):
            if len(A[r + "_wt"]) == 0:
                continue
            got = obs["A2_single"].get(key)
            if got is None or not c05._close_vec(got, obs["A2"][r], 1e-12, 1e-15):
                bad.append(f"{what}evaluate(x)[{key}] = {got} but evalfn gives {obs['A2'][r]}")
    else:
        bad.append(f"{what}non-finite latent {obs['A2']['latent']}")
    return {"corr": not bad_corr, "spec": not bad, "nontrivial": True,
            "detail": f"isolation[{A['crit']}/{A['enc']} | {B['crit']}/{B['enc']}] " +
                      ("; ".join(bad + bad_corr)[:1500] if (bad or bad_corr) else "ok")}
