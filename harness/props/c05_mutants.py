"""C05 — in-memory mutants for the self-test: monkey-patches of the imported class / module objects
(never files) that break the property while keeping shapes and types."""
import contextlib
import importlib

import numpy

from .. import compat

PKG = "pybrops.breed.prot.sel.prob."


@contextlib.contextmanager
def _patch(obj, name, new):
    if isinstance(obj, type):
        had = name in obj.__dict__
        old = obj.__dict__.get(name)
        setattr(obj, name, new)
        try:
            yield
        finally:
            if had:
                setattr(obj, name, old)
            else:
                delattr(obj, name)
    else:
        old = getattr(obj, name)
        setattr(obj, name, new)
        try:
            yield
        finally:
            setattr(obj, name, old)


@contextlib.contextmanager
def _patch_all(classes, name, new):
    with contextlib.ExitStack() as st:
        for c in classes:
            st.enter_context(_patch(c, name, new))
        yield


ENCS = ("Subset", "Real", "Integer", "Binary")


def _m(name):
    compat.import_pybrops()
    return importlib.import_module(PKG + name)


def mutants():
    ebv = _m("EstimatedBreedingValueSelectionProblem")
    gebv = _m("GenomicEstimatedBreedingValueSelectionProblem")
    gw = _m("GeneralizedWeightedGenomicEstimatedBreedingValueSelectionProblem")
    ocs = _m("OptimalContributionSelectionProblem")
    mgr = _m("MeanGenomicRelationshipSelectionProblem")
    meh = _m("MeanExpectedHeterozygositySelectionProblem")
    l1 = _m("L1NormGenomicSelectionProblem")
    l2 = _m("L2NormGenomicSelectionProblem")
    fam = _m("FamilyEstimatedBreedingValueSelectionProblem")
    uc = _m("UsefulnessCriterionSelectionProblem")
    ohv = _m("OptimalHaploidValueSelectionProblem")
    opv = _m("OptimalPopulationValueSelectionProblem")
    embv = _m("ExpectedMaximumBreedingValueSelectionProblem")
    rnd = _m("RandomSelectionProblem")
    pafd = _m("PopulationAlleleFrequencyDistanceSelectionProblem")
    mogs = _m("MultiObjectiveGenomicSelectionProblem")
    sp = _m("SelectionProblem")
    trans = _m("trans")
    out = []

    def add(name, obj, attr, new):
        out.append((name, lambda: _patch(obj, attr, new)))

    # ---- mechanism 1: latentfn per class --------------------------------------------------------------
    add("ebv_subset_drop_1_over_len", ebv.EstimatedBreedingValueSubsetSelectionProblem, "latentfn",
        lambda self, x, *a, **k: -self._ebv[x, :].sum(0))

    def gebv_bin(self, x, *a, **k):
        return -(1.0 * x).dot(self._gebv)               # contributions not normalised
    add("gebv_binary_not_normalised", gebv.GenomicEstimatedBreedingValueBinarySelectionProblem, "latentfn", gebv_bin)

    def gw_int(self, x, *a, **k):
        xsum = x.sum()
        contrib = (1.0 / xsum) * x
        return contrib.dot(self._gwgebv)                 # sign lost
    add("gwgebv_integer_sign", gw.GeneralizedWeightedGenomicEstimatedBreedingValueIntegerSelectionProblem, "latentfn", gw_int)

    def rnd_real(self, x, *a, **k):
        contrib = (1.0 / len(x)) * x                     # divides by the number of candidates, not by the total
        return -contrib.dot(self._rbv)
    add("random_real_divides_by_len", rnd.RandomRealSelectionProblem, "latentfn", rnd_real)

    def mgr_rows(self, x, *a, **k):
        Cx = (1.0 / len(x)) * self._C[x, :].sum(0)       # rows for columns
        return numpy.linalg.norm(Cx, ord=2, keepdims=True)
    add("mgr_subset_rows_for_columns", mgr.MeanGenomicRelationshipSubsetSelectionProblem, "latentfn", mgr_rows)

    def ocs_real(self, x, *a, **k):
        xsum = x.sum()
        xsum = xsum if abs(xsum) >= 1e-10 else 1.0
        contrib = (1.0 / xsum) * x
        mgc = numpy.linalg.norm(self.C.dot(contrib), ord=2, keepdims=True)
        gain = contrib.dot(self._ebv)                    # sign of gain
        return numpy.concatenate([mgc, gain])
    add("ocs_real_gain_sign", ocs.OptimalContributionRealSelectionProblem, "latentfn", ocs_real)

    def ocs_sub(self, x, *a, **k):
        ind = 1.0 / len(x)
        Cx = ind * self.C[:, x].sum(1)
        mgr_ = numpy.atleast_1d(Cx.dot(Cx))              # squared norm
        gain = -ind * self.ebv[x, :].sum(0)
        return numpy.concatenate([mgr_, gain])
    add("ocs_subset_squared_norm", ocs.OptimalContributionSubsetSelectionProblem, "latentfn", ocs_sub)

    def meh_int(self, x, *a, **k):
        contrib = (1.0 / x.sum()) * x
        return -(1.0 + numpy.linalg.norm(self._C.dot(contrib), ord=2, keepdims=True))
    add("meh_integer_plus", meh.MeanExpectedHeterozygosityIntegerSelectionProblem, "latentfn", meh_int)

    def l1_sub(self, x, *a, **k):
        return numpy.absolute(((1.0 / len(x)) * self._V[:, :, x].sum(2)).sum(1))   # |sum| for sum|.|
    add("l1_subset_abs_after_sum", l1.L1NormGenomicSubsetSelectionProblem, "latentfn", l1_sub)

    def l2_bin(self, x, *a, **k):
        contrib = (1.0 / x.sum()) * x
        return numpy.linalg.norm(self.C.dot(contrib), ord=1, axis=1)              # L1 for L2
    add("l2_binary_ord1", l2.L2NormGenomicBinarySelectionProblem, "latentfn", l2_bin)

    def fam_real(self, x, *a, **k):
        contrib = (1.0 / x.sum()) * x
        mebv = -contrib.dot(self._ebv)
        famcontrib = numpy.bincount(self._familyix, contrib)                      # not negated
        return numpy.concatenate([mebv, famcontrib])
    add("family_real_contrib_sign", fam.FamilyEstimatedBreedingValueRealSelectionProblem, "latentfn", fam_real)

    def fam_sub(self, x, *a, **k):
        ind = 1.0 / len(x)
        mebv = -ind * self._ebv[x, :].sum(0)
        familywt = numpy.zeros(len(self._familyix), dtype=float)
        familywt[x] = ind
        famcontrib = -numpy.bincount(self._familyix[::-1], familywt)              # family labels reversed
        return numpy.concatenate([mebv, famcontrib])
    add("family_subset_reversed_labels", fam.FamilyEstimatedBreedingValueSubsetSelectionProblem, "latentfn", fam_sub)

    def uc_int(self, x, *a, **k):
        return -(1.0 * x).dot(self._ucmat)
    add("uc_integer_not_normalised", uc.UsefulnessCriterionIntegerMateSelectionProblem, "latentfn", uc_int)

    def ohv_sub(self, x, *a, **k):
        return -(1.0 / len(x)) * self._ohvmat[numpy.sort(x)[:1], :].sum(0)        # first member only
    add("ohv_subset_first_member", ohv.OptimalHaploidValueSubsetSelectionProblem, "latentfn", ohv_sub)

    def embv_bin(self, x, *a, **k):
        contrib = (1.0 / max(x.sum(), 1)) * x
        return -contrib[::-1].dot(self._embv)                                     # rows reversed
    add("embv_binary_rows_reversed", embv.ExpectedMaximumBreedingValueBinarySelectionProblem, "latentfn", embv_bin)

    def opv_sub(self, x, *a, **k):
        return -self.ploidy * self._haplomat[:, x, :, :].max(0).mean(0).sum(0)    # mean over parents for max
    add("opv_mean_over_parents", opv.OptimalPopulationValueSubsetSelectionProblem, "latentfn", opv_sub)

    def pafd_sub(self, x, *a, **k):
        pfreq = self.geno[x, :, None].sum(0) / float(len(x))                      # ploidy dropped
        return (self.mkrwt * numpy.absolute(self.tfreq - pfreq)).sum(0)
    add("pafd_ploidy_dropped", pafd.PopulationAlleleFrequencyDistanceSubsetSelectionProblem, "latentfn", pafd_sub)

    orig_mogs = mogs.MultiObjectiveGenomicSubsetSelectionProblem.latentfn

    def mogs_sub(self, x, *a, **k):
        o = orig_mogs(self, x, *a, **k)
        h = len(o) // 2
        return numpy.concatenate([o[h:], o[:h]])                                   # PAU / PAFD halves swapped
    add("mogs_halves_swapped", mogs.MultiObjectiveGenomicSubsetSelectionProblem, "latentfn", mogs_sub)

    # ---- mechanism 2: evalfn ------------------------------------------------------------------------------
    def evalfn_wt(self, x, *a, **k):
        latent = self.latentfn(x, *a, **k)
        obj = self.obj_wt * self.obj_trans(x, latent, **self.obj_trans_kwargs)
        t = self.ineqcv_trans(x, latent, **self.ineqcv_trans_kwargs)
        w = self.obj_wt if len(self.obj_wt) == len(t) else self.ineqcv_wt         # obj_wt used for ineqcv
        ineqcv = w * t
        eqcv = self.eqcv_wt * self.eqcv_trans(x, latent, **self.eqcv_trans_kwargs)
        return obj, ineqcv, eqcv
    add("evalfn_obj_wt_for_ineqcv", sp.SelectionProblem, "evalfn", evalfn_wt)

    def evalfn_eq(self, x, *a, **k):
        latent = self.latentfn(x, *a, **k)
        obj = self.obj_wt * self.obj_trans(x, latent, **self.obj_trans_kwargs)
        ineqcv = self.ineqcv_wt * self.ineqcv_trans(x, latent, **self.ineqcv_trans_kwargs)
        eqcv = self.eqcv_trans(x, latent, **self.eqcv_trans_kwargs) * 1.0        # eqcv weights dropped
        return obj, ineqcv, eqcv
    add("evalfn_eqcv_weight_dropped", sp.SelectionProblem, "evalfn", evalfn_eq)

    def evalfn_lat(self, x, *a, **k):
        latent = self.latentfn(x, *a, **k)
        obj = self.obj_wt * self.obj_trans(x, -latent, **self.obj_trans_kwargs)   # transformation sees -latent
        ineqcv = self.ineqcv_wt * self.ineqcv_trans(x, latent, **self.ineqcv_trans_kwargs)
        eqcv = self.eqcv_wt * self.eqcv_trans(x, latent, **self.eqcv_trans_kwargs)
        return obj, ineqcv, eqcv
    add("evalfn_obj_trans_gets_other_latent", sp.SelectionProblem, "evalfn", evalfn_lat)

    def evalfn_kw(self, x, *a, **k):
        latent = self.latentfn(x, *a, **k)
        obj = self.obj_wt * self.obj_trans(x, latent, **self.obj_trans_kwargs)
        ineqcv = self.ineqcv_wt * self.ineqcv_trans(x, latent, **self.ineqcv_trans_kwargs)
        eqcv = self.eqcv_wt * self.eqcv_trans(x, latent, **{**self.ineqcv_trans_kwargs, **self.eqcv_trans_kwargs})
        return obj, ineqcv, eqcv                                                   # foreign keyword arguments leak in
    add("evalfn_eqcv_gets_ineqcv_kwargs", sp.SelectionProblem, "evalfn", evalfn_kw)

    def evaluate_batch(self, x, out, *a, **k):
        # the pymoo interface: constraint violations handed over with the objective weights' sign convention lost
        if x.ndim == 1:
            vals = self.evalfn(x, *a, **k)
            vals = (vals[0], -vals[1], vals[2])
            out.update({key: val for key, val in zip(["F", "G", "H"], vals) if len(val) > 0})
        else:
            vals = [self.evalfn(v, *a, **k) for v in x]
            obj = numpy.stack([e[0] for e in vals[::-1]])                          # rows in reverse order
            ineqcv = numpy.stack([e[1] for e in vals])
            eqcv = numpy.stack([e[2] for e in vals])
            out.update({key: val for key, val in zip(["F", "G", "H"], [obj, ineqcv, eqcv]) if val.shape[1] > 0})
    add("evaluate_interface_alters_values", sp.SelectionProblem, "_evaluate", evaluate_batch)

    add("trans_sum_is_mean", trans, "trans_sum", lambda d, l, **k: l.mean(0, keepdims=True))

    # ---- mechanism 3: kinship factor ----------------------------------------------------------------------
    def calc_C(gmat, cmatfcty):
        G = cmatfcty.from_gmat(gmat)
        G.apply_jitter()
        K = G.mat_asformat("coancestry")                                           # coancestry for kinship
        return numpy.linalg.cholesky(K).T
    add("ocs_factor_of_coancestry", ocs.OptimalContributionSelectionProblemMixin, "_calc_C", staticmethod(calc_C))

    def mgr_from_gmat(cls, gmat, cmatfcty, **kw):
        G = cmatfcty.from_gmat(gmat)
        G.apply_jitter()
        K = G.mat_asformat("kinship")
        C = numpy.triu(K)                                                          # no factorisation at all
        return cls(C=C, **kw)
    out.append(("mgr_from_gmat_no_cholesky",
                lambda: _patch_all([getattr(mgr, f"MeanGenomicRelationship{e}SelectionProblem") for e in ENCS],
                                   "from_gmat", classmethod(mgr_from_gmat))))

    # ---- mechanism 4: usefulness criterion -----------------------------------------------------------------
    def calc_uc(vmatfcty, ncross, nprogeny, nself, gmapfn, selection_intensity, pgmat, gmod, xmap):
        bvmat_obj = gmod.gebv(pgmat)
        vmat_obj = vmatfcty.from_gmod(gmod=gmod, pgmat=pgmat, ncross=ncross, nprogeny=nprogeny, nself=nself, gmapfn=gmapfn)
        epgc = numpy.array(vmat_obj.epgc)
        bvmat = bvmat_obj.unscale()
        vmat = vmat_obj.mat
        ucm = numpy.empty((len(xmap), bvmat_obj.ntrait), dtype=float)
        for i, cconfig in enumerate(xmap):
            pmean = epgc.dot(bvmat[cconfig, :])
            pvar = vmat[tuple(cconfig[::-1]) + (slice(None),)]                     # parents swapped in the lookup
            ucm[i, :] = pmean + selection_intensity * numpy.sqrt(pvar)
        return ucm
    add("uc_variance_lookup_swapped", uc.UsefulnessCriterionSelectionProblemMixin, "_calc_uc", staticmethod(calc_uc))

    def calc_uc2(vmatfcty, ncross, nprogeny, nself, gmapfn, selection_intensity, pgmat, gmod, xmap):
        bvmat_obj = gmod.gebv(pgmat)
        vmat_obj = vmatfcty.from_gmod(gmod=gmod, pgmat=pgmat, ncross=ncross, nprogeny=nprogeny, nself=nself, gmapfn=gmapfn)
        epgc = numpy.array(vmat_obj.epgc)
        bvmat = bvmat_obj.unscale()
        vmat = vmat_obj.mat
        ucm = numpy.empty((len(xmap), bvmat_obj.ntrait), dtype=float)
        for i, cconfig in enumerate(xmap):
            pmean = epgc.dot(bvmat[cconfig, :])
            pvar = vmat[tuple(cconfig) + (slice(None),)]
            ucm[i, :] = pmean + selection_intensity * pvar                         # variance for standard deviation
        return ucm
    add("uc_variance_not_rooted", uc.UsefulnessCriterionSelectionProblemMixin, "_calc_uc", staticmethod(calc_uc2))

    def calc_xmap(ntaxa, nparent, unique_parents):
        from pybrops.core.util.array import triudix, triuix
        return numpy.array(list(triuix(ntaxa, nparent) if unique_parents else triudix(ntaxa, nparent)))
    add("uc_xmap_unique_flag_inverted", uc.UsefulnessCriterionSelectionProblemMixin, "_calc_xmap", staticmethod(calc_xmap))

    # ---- mechanism 5: optimal haploid value ----------------------------------------------------------------
    def calc_ohvmat(ploidy, haplomat, xmap, mem):
        return ploidy * haplomat[:, xmap, :, :].max(0).max(1).sum(1) - haplomat[:, xmap, :, :].min((0, 2)).sum(1) * 0.5
    add("ohv_minus_half_minimum", ohv.OptimalHaploidValueSelectionProblemMixin, "_calc_ohvmat", staticmethod(calc_ohvmat))

    def calc_ohvmat2(ploidy, haplomat, xmap, mem):
        return haplomat[:, xmap, :, :].max((0, 2)).sum(1)                          # ploidy dropped
    add("ohv_ploidy_dropped", ohv.OptimalHaploidValueSelectionProblemMixin, "_calc_ohvmat", staticmethod(calc_ohvmat2))

    # ---- factories -----------------------------------------------------------------------------------------
    def calc_embv(nmating, nprogeny, nrep, xmap, pgmat, gpmod, mateprot):
        out_ = numpy.empty((xmap.shape[0], gpmod.ntrait), dtype=float)
        for i, xconfig in enumerate(xmap):
            avg = 0
            for i in range(nrep):                                                  # D5 re-introduced
                progeny = mateprot.mate(pgmat=pgmat, xconfig=xconfig[None, :], nmating=nmating, nprogeny=nprogeny, miscout=None)
                avg = avg + gpmod.gebv(progeny).tmax(True)
            out_[i, :] = avg / nrep
        return out_
    add("embv_loop_variable_shadowed", embv.ExpectedMaximumBreedingValueSelectionProblemMixin, "_calc_embv",
        staticmethod(calc_embv))

    def ebv_from_bvmat(cls, bvmat, unscale, **kw):
        return cls(ebv=bvmat.mat, **kw)                                            # unscale ignored
    out.append(("ebv_from_bvmat_ignores_unscale",
                lambda: _patch_all([getattr(ebv, f"EstimatedBreedingValue{e}SelectionProblem") for e in ENCS],
                                   "from_bvmat", classmethod(ebv_from_bvmat))))

    def fam_from_bvmat(cls, bvmat, **kw):
        return cls(ebv=bvmat.mat, familyid=numpy.sort(bvmat.taxa_grp), **kw)       # family labels detached from taxa
    out.append(("family_from_bvmat_sorted_groups",
                lambda: _patch_all([getattr(fam, f"FamilyEstimatedBreedingValue{e}SelectionProblem") for e in ENCS],
                                   "from_bvmat", classmethod(fam_from_bvmat))))

    def calc_V(mkrwt, tafreq, tfreq):
        ntaxa, nvrnt, ntrait = tafreq.shape[0], mkrwt.shape[0], mkrwt.shape[1]
        o = numpy.empty((ntrait, nvrnt, ntaxa), dtype="float64")
        for tr in range(ntrait):
            o[tr, :, :] = mkrwt[:, tr, None] * (tafreq.T[:, ::-1] - tfreq[:, tr, None])   # taxa reversed
        return o
    add("l1_calc_V_taxa_reversed", l1.L1NormGenomicSelectionProblemMixin, "_calc_V", staticmethod(calc_V))

    def gw_from_numpy(cls, Z_a, u_a, fafreq, alpha, **kw):
        tmp = fafreq.copy()
        tmp[tmp == 0.0] = 1.0
        return cls(gwgebv=Z_a.dot(u_a * numpy.power(tmp, alpha)), **kw)            # sign of the exponent
    out.append(("gwgebv_from_numpy_exponent_sign",
                lambda: _patch_all([getattr(gw, f"GeneralizedWeightedGenomicEstimatedBreedingValue{e}SelectionProblem")
                                    for e in ENCS], "from_numpy", classmethod(gw_from_numpy))))

    def mogs_from_gmat(cls, gmat, weight, target, gpmod, **kw):
        geno = gmat.mat_asformat("{0,1,2}")
        return cls(geno=geno[::-1], ploidy=gmat.ploidy, mkrwt=cls._calc_mkrwt(weight, gpmod.u_a),
                   tfreq=cls._calc_tfreq(target, gpmod.u_a), **kw)                  # taxon order reversed
    add("mogs_from_gmat_taxa_reversed", mogs.MultiObjectiveGenomicSubsetSelectionProblem, "from_gmat_gpmod",
        classmethod(mogs_from_gmat))

    def rnd_from_object(cls, ntaxa, ntrait, **kw):
        from pybrops.breed.prot.sel.prob import RandomSelectionProblem as R
        rbv = R.global_prng.multivariate_normal(numpy.repeat(0.0, ntrait), numpy.identity(ntrait), (ntaxa,))
        return cls(rbv=numpy.sort(rbv, axis=0), **kw)                              # draws re-ordered
    out.append(("random_from_object_sorted",
                lambda: _patch_all([getattr(rnd, f"Random{e}SelectionProblem") for e in ENCS],
                                   "from_object", classmethod(rnd_from_object))))
    # ---- the anchored EMBV matrix factory ---------------------------------------------------------------------
    em = importlib.import_module("pybrops.model.embvmat.DenseExpectedMaximumBreedingValueMatrix")
    orig_from_gmod = em.DenseExpectedMaximumBreedingValueMatrix.__dict__["from_gmod"].__func__

    def embvmat_from_gmod(cls, gmod, pgmat, nprogeny, nrep, **kw):
        o = orig_from_gmod(cls, gmod, pgmat, nprogeny, nrep, **kw)
        o.mat = o.mat[::-1].copy()                                                 # rows detached from the taxa
        return o
    add("embvmat_rows_reversed", em.DenseExpectedMaximumBreedingValueMatrix, "from_gmod", classmethod(embvmat_from_gmod))
    wm = importlib.import_module("pybrops.model.wgebvmat.DenseWeightedGenomicEstimatedBreedingValueMatrix")
    W = wm.DenseWeightedGenomicEstimatedBreedingValueMatrix

    def wgebvmat_from_algmod(cls, algmod, gmat, **kw):
        mat = gmat.mat_asformat("{0,1,2}") @ algmod.u_a                             # marker weights dropped
        return cls.from_numpy(mat=mat, taxa=gmat.taxa, taxa_grp=gmat.taxa_grp, trait=algmod.trait)
    add("wgebvmat_weights_dropped", W, "from_algmod", classmethod(wgebvmat_from_algmod))
    wg = _m("WeightedGenomicSelectionProblem")

    def wg_from_numpy(cls, Z_a, u_a, fafreq, **kw):
        return cls(wgebv=Z_a.dot(u_a * numpy.power(fafreq, 0.5)), **kw)             # sign of the exponent
    out.append(("wgebv_from_numpy_exponent_sign",
                lambda: _patch_all([getattr(wg, f"WeightedGenomic{e}SelectionProblem") for e in ENCS],
                                   "from_numpy", classmethod(wg_from_numpy))))
    # ---- reverts of the repaired defects D50-D54: each must be flagged again ------------------------------------
    pau = _m("PopulationAlleleUnavailabilitySelectionProblem")

    def tfreq_set(self, value):
        self._tfreq = value
        self._tminor = self._calc_tminor(self._tfreq)
        self._thet = self._calc_thet(self._tfreq)
        self._tmajor = self._calc_tminor(self._tfreq)                              # D50
    old_prop = pau.PopulationAlleleUnavailabilitySelectionProblemMixin.__dict__["tfreq"]
    add("revert_D50_tmajor_from_tminor", pau.PopulationAlleleUnavailabilitySelectionProblemMixin, "tfreq",
        property(old_prop.fget, tfreq_set))

    def wg_from_numpy_unguarded(cls, Z_a, u_a, fafreq, **kw):
        with numpy.errstate(all="ignore"):
            return cls(wgebv=Z_a.dot(u_a * numpy.power(fafreq, -0.5)), **kw)        # D51
    out.append(("revert_D51_unguarded_power",
                lambda: _patch_all([getattr(wg, f"WeightedGenomic{e}SelectionProblem") for e in ENCS],
                                   "from_numpy", classmethod(wg_from_numpy_unguarded))))

    def wg_from_gmat(cls, gmat, algpmod, **kw):
        return cls.from_numpy(Z_a=gmat.mat, u_a=algpmod.u_a, fafreq=algpmod.fafreq(gmat), **kw)   # D52
    out.append(("revert_D52_raw_mat",
                lambda: _patch_all([getattr(wg, f"WeightedGenomic{e}SelectionProblem") for e in ENCS],
                                   "from_gmat_algpmod", classmethod(wg_from_gmat))))

    def l2_from_gmat(cls, gmat, cmatfcty, mkrwt, afreq, **kw):
        ntrait = mkrwt.shape[1]
        C = numpy.empty((ntrait, gmat.ntaxa, gmat.ntaxa), dtype=float)
        for i in range(ntrait):
            G = cmatfcty.from_gmat(gmat, mkrwt=mkrwt, afreq=afreq)                  # D53
            G.apply_jitter()
            C[i, :, :] = numpy.linalg.cholesky(G.mat_asformat("kinship")).T
        return cls(C=C, **kw)
    out.append(("revert_D53_whole_matrices",
                lambda: _patch_all([getattr(l2, f"L2NormGenomic{e}SelectionProblem") for e in ENCS],
                                   "from_gmat", classmethod(l2_from_gmat))))

    def wgebvmat_from_algmod_d54(cls, algmod, gmat, **kw):
        ff = algmod.fafreq(gmat)
        mask = ff == 0.0                                                            # D54
        with numpy.errstate(all="ignore"):
            numer = numpy.arcsin(1.0) - numpy.arcsin(numpy.sqrt(ff))
            pq = ff * (1.0 - ff)
            pq[mask] = 1.0
            weight = numer * numpy.power(pq, -0.5)
            weight[mask] = 1.0
            mat = gmat.mat_asformat("{0,1,2}") @ (algmod.u_a * weight)
        return cls.from_numpy(mat=mat, taxa=gmat.taxa, taxa_grp=gmat.taxa_grp, trait=algmod.trait)
    add("revert_D54_mask_zero_only", W, "from_algmod", classmethod(wgebvmat_from_algmod_d54))
    # ---- the three seeded kinds (seeded/C05-a1..a3) as in-memory mutants ------------------------------------------
    def calc_uc_mean(vmatfcty, ncross, nprogeny, nself, gmapfn, selection_intensity, pgmat, gmod, xmap):
        bvmat_obj = gmod.gebv(pgmat)
        vmat_obj = vmatfcty.from_gmod(gmod=gmod, pgmat=pgmat, ncross=ncross, nprogeny=nprogeny, nself=nself, gmapfn=gmapfn)
        bvmat = bvmat_obj.unscale()
        vmat = vmat_obj.mat
        ucm = numpy.empty((len(xmap), bvmat_obj.ntrait), dtype=float)
        for i, cconfig in enumerate(xmap):
            pmean = bvmat[cconfig, :].mean(0)                                       # plain mean of the parents
            pvar = vmat[tuple(cconfig) + (slice(None),)]
            ucm[i, :] = pmean + selection_intensity * numpy.sqrt(pvar)
        return ucm
    add("uc_progeny_mean_plain_parent_mean", uc.UsefulnessCriterionSelectionProblemMixin, "_calc_uc",
        staticmethod(calc_uc_mean))

    def pau_phet_or(self, x, *a, **k):
        pfreq = self.geno[x, :, None].sum(0) / (self.ploidy * len(x))
        p_ltmajor = pfreq < 1.0
        p_gtminor = pfreq > 0.0
        p_het = p_ltmajor | p_gtminor                                              # always true
        unavail = ~((p_ltmajor & self.tminor) | (p_het & self.thet) | (p_gtminor & self.tmajor))
        return (self.mkrwt * unavail).sum(0)
    add("pau_segregating_mask_or", pau.PopulationAlleleUnavailabilitySubsetSelectionProblem, "latentfn", pau_phet_or)

    def evalfn_inplace(self, x, *a, **k):
        latent = self.latentfn(x, *a, **k)
        obj = self.obj_trans(x, latent, **self.obj_trans_kwargs)
        obj *= self.obj_wt                                                        # overwrites `latent` when obj aliases it
        ineqcv = self.ineqcv_trans(x, latent, **self.ineqcv_trans_kwargs)
        ineqcv *= self.ineqcv_wt
        eqcv = self.eqcv_trans(x, latent, **self.eqcv_trans_kwargs)
        eqcv *= self.eqcv_wt
        return obj, ineqcv, eqcv
    add("evalfn_weights_applied_in_place", sp.SelectionProblem, "evalfn", evalfn_inplace)

    gbm = _m("GenotypeBuilderSelectionProblem")

    def gb_latent(self, x, *a, **k):
        bestphase = self._haplomat[:, x, :, :].max(0)
        bestphase.sort(0)
        return -(self.ploidy / self.nbestfndr) * bestphase[0:self.nbestfndr, :, :].sum((0, 1))   # the worst founders
    add("gb_takes_worst_founders", gbm.GenotypeBuilderSubsetSelectionProblem, "latentfn", gb_latent)
    la = _m("RealLookAheadGeneralizedWeightedGenomicSelectionProblem")

    def la_latent(self, x, *a, **k):
        algmod, u_a = self.fndr_algmod, self.fndr_algmod.u_a
        ploidy = self.fndr_pgmat.ploidy
        gain = usl = 0.0
        for _ in range(self.nsimul):
            pgmat = self.fndr_pgmat.copy()
            for alpha in x:
                Z_a = pgmat.mat_asformat("{0,1,2}")
                fafreq = algmod.fafreq(pgmat)
                fafreq[fafreq <= 0] = 1
                wgebv = Z_a.dot(u_a * numpy.power(fafreq, -alpha)).sum(1)
                sel = wgebv.argsort()[:self.nparent]                                # the worst instead of the best
                pgmat = self.mtprot.mate(pgmat, sel, self.ncross, self.nprogeny, None)
            Z_a = pgmat.mat_asformat("{0,1,2}")
            gain += Z_a.dot(u_a).sum(1).mean()
            afreq = pgmat.afreq()[:, None]
            usl += (float(ploidy) * u_a * numpy.where(u_a > 0.0, afreq > 0.0, afreq >= 1.0)).sum()
        return numpy.array([-gain / self.nsimul, -usl / self.nsimul], dtype=float)
    add("lookahead_selects_worst", la.RealLookAheadGeneralizedWeightedGenomicSelectionProblem, "latentfn", la_latent)

    def la_latent2(self, x, *a, **k):
        o = la_orig(self, x, *a, **k)
        return numpy.array([o[0] * self.nsimul, o[1]])                             # gain not averaged over simulations
    la_orig = la.RealLookAheadGeneralizedWeightedGenomicSelectionProblem.__dict__["latentfn"]
    add("lookahead_gain_not_averaged", la.RealLookAheadGeneralizedWeightedGenomicSelectionProblem, "latentfn", la_latent2)

    # ---- round 3: the classes of inputs / histories the independent breaking changes exposed ------------------------
    # (a) sizes past internal constants
    def embvmat_shared_work(cls, gmod, pgmat, nprogeny, nrep, **kw):
        # the per-replicate work array allocated once, sized nrep.max(), and averaged whole (seeded C05-b1)
        from numbers import Integral
        if isinstance(nprogeny, Integral):
            nprogeny = numpy.repeat(nprogeny, pgmat.ntaxa)
        if isinstance(nrep, Integral):
            nrep = numpy.repeat(nrep, pgmat.ntaxa)
        geno = pgmat.mat
        embv = numpy.empty((pgmat.ntaxa, gmod.ntrait), dtype=float)
        mbv = numpy.zeros((nrep.max(), gmod.ntrait))
        for i in range(pgmat.ntaxa):
            for j in range(nrep[i]):
                mat = em.dense_dh(geno, numpy.repeat(i, nprogeny[i]), pgmat.vrnt_xoprob, em.global_prng)
                progeny = em.DensePhasedGenotypeMatrix(mat=mat, vrnt_chrgrp=pgmat.vrnt_chrgrp, vrnt_phypos=pgmat.vrnt_phypos,
                                                       vrnt_name=pgmat.vrnt_name, vrnt_genpos=pgmat.vrnt_genpos,
                                                       vrnt_xoprob=pgmat.vrnt_xoprob)
                mbv[j, :] = gmod.gebv(progeny).tmax(unscale=True)
            embv[i, :] = mbv.mean(axis=0)
        return cls.from_numpy(mat=embv, taxa=pgmat.taxa, taxa_grp=pgmat.taxa_grp, trait=gmod.trait)
    add("embvmat_work_array_shared_between_taxa", em.DenseExpectedMaximumBreedingValueMatrix, "from_gmod",
        classmethod(embvmat_shared_work))

    def calc_ohvmat_running(ploidy, haplomat, xmap, mem=1024):
        # running maximum kept in a work array that is never reset between memory chunks (seeded C05-b2)
        nconfig = xmap.shape[0]
        o = numpy.empty((nconfig, haplomat.shape[3]), dtype=haplomat.dtype)
        step = nconfig if mem is None else mem
        hmax = numpy.full((min(step, nconfig),) + haplomat.shape[2:], -numpy.inf, dtype=haplomat.dtype)
        for rst in range(0, nconfig, step):
            rsp = min(rst + step, nconfig)
            xconfig = xmap[rst:rsp, :]
            hk = hmax[:rsp - rst]
            for j in range(xconfig.shape[1]):
                numpy.maximum(hk, haplomat[:, xconfig[:, j], :, :].max(0), out=hk)
            o[rst:rsp, :] = ploidy * hk.sum(1)
        return o
    add("ohv_chunk_work_array_not_reset", ohv.OptimalHaploidValueSelectionProblemMixin, "_calc_ohvmat",
        staticmethod(calc_ohvmat_running))

    def calc_ohvmat_lastchunk(ploidy, haplomat, xmap, mem=1024):
        # the last (partial) chunk is dropped from the loop and filled from the previous one
        nconfig = xmap.shape[0]
        o = numpy.zeros((nconfig, haplomat.shape[3]), dtype=haplomat.dtype)
        step = nconfig if mem is None else mem
        for rst in range(0, nconfig - nconfig % step if nconfig > step else nconfig, step):
            rsp = min(rst + step, nconfig)
            o[rst:rsp, :] = ploidy * haplomat[:, xmap[rst:rsp, :], :, :].max((0, 2)).sum(1)
        return o
    add("ohv_last_partial_chunk_dropped", ohv.OptimalHaploidValueSelectionProblemMixin, "_calc_ohvmat",
        staticmethod(calc_ohvmat_lastchunk))

    def pafd_int8(self, x, *a, **k):
        sel = numpy.zeros(self.geno.shape[0], dtype=self.geno.dtype)           # int8 accumulator (seeded C05-c2)
        sel[x] = 1
        pfreq = sel.dot(self.geno)[:, None] / (self.ploidy * len(x))
        return (self.mkrwt * numpy.absolute(self.tfreq - pfreq)).sum(0)
    add("pafd_allele_count_in_int8", pafd.PopulationAlleleFrequencyDistanceSubsetSelectionProblem, "latentfn", pafd_int8)

    def pau_int8(self, x, *a, **k):
        cnt = self.geno[x, :].sum(0, dtype=self.geno.dtype)                      # int8 accumulator
        pfreq = cnt[:, None] / (self.ploidy * len(x))
        p_lt, p_gt = pfreq < 1.0, pfreq > 0.0
        un = ~((p_lt & self.tminor) | ((p_lt & p_gt) & self.thet) | (p_gt & self.tmajor))
        return (self.mkrwt * un).sum(0)
    add("pau_allele_count_in_int8", pau.PopulationAlleleUnavailabilitySubsetSelectionProblem, "latentfn", pau_int8)

    def ebv_int_sum_dtype(self, x, *a, **k):
        xsum = x.sum(dtype=x.dtype)                                              # total accumulated in the vector's dtype
        xsum = xsum if abs(xsum) >= 1e-10 else 1.0
        return -((1.0 / xsum) * x).dot(self._ebv)
    add("ebv_integer_total_in_vector_dtype", ebv.EstimatedBreedingValueIntegerSelectionProblem, "latentfn", ebv_int_sum_dtype)

    # (b) histories on one object / shared objects
    cache_C = {}

    def calc_C_cached(gmat, cmatfcty):
        import weakref
        hit = cache_C.get(id(gmat))                                              # never invalidated (seeded C05-c3)
        if hit is not None and hit[0]() is gmat and hit[1] is cmatfcty:
            return hit[2]
        G = cmatfcty.from_gmat(gmat)
        G.apply_jitter()
        o = numpy.linalg.cholesky(G.mat_asformat("kinship")).T
        cache_C.clear()
        cache_C[id(gmat)] = (weakref.ref(gmat), cmatfcty, o)
        return o
    add("ocs_kinship_factor_cached_by_identity", ocs.OptimalContributionSelectionProblemMixin, "_calc_C",
        staticmethod(calc_C_cached))

    orig_gebv_sub = gebv.GenomicEstimatedBreedingValueSubsetSelectionProblem.latentfn

    def gebv_memo(self, x, *a, **k):
        memo = self.__dict__.setdefault("_memo", {})                             # never invalidated when the data change
        key = x.tobytes()
        if key not in memo:
            memo[key] = orig_gebv_sub(self, x, *a, **k)
        return memo[key].copy()
    add("gebv_subset_latent_memoised", gebv.GenomicEstimatedBreedingValueSubsetSelectionProblem, "latentfn", gebv_memo)

    def l1_shared_buffer(self, x, *a, **k):
        buf = self.__dict__.setdefault("_buf", numpy.empty(self._V.shape[0]))    # one result buffer handed out every time
        contrib = (1.0 / x.sum()) * x
        buf[:] = numpy.absolute(self._V.dot(contrib)).sum(1)
        return buf
    add("l1_real_result_buffer_shared", l1.L1NormGenomicRealSelectionProblem, "latentfn", l1_shared_buffer)

    def opv_shared_buffer(self, x, *a, **k):
        buf = self.__dict__.setdefault("_buf", numpy.empty(self._haplomat.shape[3]))
        buf[:] = -self.ploidy * self._haplomat[:, x, :, :].max((0, 1)).sum(0)
        return buf
    add("opv_result_buffer_shared", opv.OptimalPopulationValueSubsetSelectionProblem, "latentfn", opv_shared_buffer)

    bv_cache = {}

    def ebv_from_bvmat_cached(cls, bvmat, unscale, **kw):
        key = (id(bvmat), bool(unscale))
        if key not in bv_cache or bv_cache[key][0] is not bvmat:
            bv_cache.clear()
            bv_cache[key] = (bvmat, (bvmat.unscale() if unscale else bvmat.mat).copy())
        return cls(ebv=bv_cache[key][1], **kw)                                   # stale after the matrix is edited in place
    out.append(("ebv_from_bvmat_cached_by_identity",
                lambda: _patch_all([getattr(ebv, f"EstimatedBreedingValue{e}SelectionProblem") for e in ENCS],
                                   "from_bvmat", classmethod(ebv_from_bvmat_cached))))

    from pybrops.opt.prob import Problem as PR
    old_wt = PR.Problem.__dict__["obj_wt"]

    def obj_wt_set(self, value):
        if self.__dict__.get("_obj_wt") is not None and isinstance(value, numpy.ndarray):
            return                                                               # re-assignment silently ignored
        old_wt.fset(self, value)
    add("problem_obj_wt_reassignment_ignored", PR.Problem, "obj_wt", property(old_wt.fget, obj_wt_set))

    old_iwt = PR.Problem.__dict__["ineqcv_wt"]

    def ineqcv_wt_set(self, value):
        from numbers import Real
        if isinstance(value, Real):
            value = numpy.repeat(1.0, self.nineqcv)                              # a scalar weight is dropped
        old_iwt.fset(self, value)
    add("problem_scalar_ineqcv_weight_dropped", PR.Problem, "ineqcv_wt", property(old_iwt.fget, ineqcv_wt_set))

    # (c) tolerance-style "fixes"
    def gebv_real_isclose(self, x, *a, **k):
        xsum = x.sum()
        xsum = 1.0 if numpy.isclose(xsum, 0.0) else xsum                          # absolute tolerance 1e-8 instead of 1e-10
        return -((1.0 / xsum) * x).dot(self._gebv)
    add("gebv_real_guard_isclose", gebv.GenomicEstimatedBreedingValueRealSelectionProblem, "latentfn", gebv_real_isclose)

    def pau_isclose(tfreq):
        return numpy.isclose(tfreq, 0.0)                                          # targets within 1e-8 of 0 treated as 0
    add("pau_tminor_isclose", pau.PopulationAlleleUnavailabilitySelectionProblemMixin, "_calc_tminor", staticmethod(pau_isclose))

    def wg_from_numpy_isclose(cls, Z_a, u_a, fafreq, **kw):
        tmp = fafreq.copy()
        tmp[numpy.isclose(tmp, 0.0)] = 1.0                                        # rare favourable alleles lose their weight
        return cls(wgebv=Z_a.dot(u_a * numpy.power(tmp, -0.5)), **kw)
    out.append(("wgebv_from_numpy_guard_isclose",
                lambda: _patch_all([getattr(wg, f"WeightedGenomic{e}SelectionProblem") for e in ENCS],
                                   "from_numpy", classmethod(wg_from_numpy_isclose))))

    def ebv_sub_centered(self, x, *a, **k):
        d = self._ebv.astype("float32")                                          # single precision: 25000 + 1/32 is lost
        return -(1.0 / len(x)) * d[x, :].sum(0).astype(float)
    add("ebv_subset_single_precision", ebv.EstimatedBreedingValueSubsetSelectionProblem, "latentfn", ebv_sub_centered)

    # (d) argument forms
    def mgr_memory_order(self, x, *a, **k):
        C = self._C.ravel(order="K").reshape(self._C.shape)                      # assumes C-contiguous storage
        return numpy.linalg.norm((1.0 / len(x)) * C[:, x].sum(1), ord=2, keepdims=True)
    add("mgr_subset_assumes_c_contiguous", mgr.MeanGenomicRelationshipSubsetSelectionProblem, "latentfn", mgr_memory_order)

    def pafd_ploidy2(self, x, *a, **k):
        pfreq = self.geno[x, :, None].sum(0) / (2.0 * len(x))                    # diploid assumed
        return (self.mkrwt * numpy.absolute(self.tfreq - pfreq)).sum(0)
    add("pafd_assumes_diploid", pafd.PopulationAlleleFrequencyDistanceSubsetSelectionProblem, "latentfn", pafd_ploidy2)

    def calc_ohvmat_two(ploidy, haplomat, xmap, mem=1024):
        x2 = xmap[:, :2]                                                          # only the first two parents of a cross
        return ploidy * haplomat[:, x2, :, :].max((0, 2)).sum(1)
    add("ohv_only_two_parents", ohv.OptimalHaploidValueSelectionProblemMixin, "_calc_ohvmat", staticmethod(calc_ohvmat_two))

    def calc_ohvmat_dip(ploidy, haplomat, xmap, mem=1024):
        return 2 * haplomat[:, xmap, :, :].max((0, 2)).sum(1)                     # diploid assumed
    add("ohv_assumes_diploid", ohv.OptimalHaploidValueSelectionProblemMixin, "_calc_ohvmat", staticmethod(calc_ohvmat_dip))

    orig_calc_uc = uc.UsefulnessCriterionSelectionProblemMixin.__dict__["_calc_uc"].__func__

    def calc_uc_args(vmatfcty, ncross, nprogeny, nself, gmapfn, selection_intensity, pgmat, gmod, xmap):
        return orig_calc_uc(vmatfcty, nprogeny, ncross, 0, gmapfn, selection_intensity, pgmat, gmod, xmap)   # design numbers mixed up
    add("uc_design_numbers_mixed_up", uc.UsefulnessCriterionSelectionProblemMixin, "_calc_uc", staticmethod(calc_uc_args))

    def pau_recip(self, x, *a, **k):
        pfreq = (1.0 / (self.ploidy * len(x))) * self.geno[x, :, None].sum(0)     # 49 * (1/49) != 1: a fixed locus looks segregating
        p_lt, p_gt = pfreq < 1.0, pfreq > 0.0
        un = ~((p_lt & self.tminor) | ((p_lt & p_gt) & self.thet) | (p_gt & self.tmajor))
        return (self.mkrwt * un).sum(0)
    add("pau_frequency_by_reciprocal", pau.PopulationAlleleUnavailabilitySubsetSelectionProblem, "latentfn", pau_recip)

    def pau_round(self, x, *a, **k):
        pfreq = numpy.round(self.geno[x, :, None].sum(0) / (self.ploidy * len(x)), 2)   # nearly fixed loci rounded to fixed
        p_lt, p_gt = pfreq < 1.0, pfreq > 0.0
        un = ~((p_lt & self.tminor) | ((p_lt & p_gt) & self.thet) | (p_gt & self.tmajor))
        return (self.mkrwt * un).sum(0)
    add("pau_frequency_rounded", pau.PopulationAlleleUnavailabilitySubsetSelectionProblem, "latentfn", pau_round)

    def l1_real_tol(self, x, *a, **k):
        contrib = x if numpy.isclose(x.sum(), 1.0, atol=1e-6) else (1.0 / x.sum()) * x   # "already normalised" to a tolerance
        return numpy.absolute(self._V.dot(contrib)).sum(1)
    add("l1_real_normalisation_skipped_near_one", l1.L1NormGenomicRealSelectionProblem, "latentfn", l1_real_tol)

    def fam_runlength(self, value):
        self._familyid = value                                                   # run-length index: right for grouped ids only
        self._family = numpy.unique(value)
        ix = numpy.concatenate([[0], numpy.cumsum(value[1:] != value[:-1])]) if len(value) else numpy.zeros(0, dtype=int)
        self._familyix = numpy.minimum(ix, len(self._family) - 1)
    fam_prop = fam.FamilyEstimatedBreedingValueRealSelectionProblem.__mro__[1].__dict__.get("familyid") or \
        fam.FamilyEstimatedBreedingValueSelectionProblemMixin.__dict__["familyid"]
    add("family_index_assumes_grouped_ids", fam.FamilyEstimatedBreedingValueSelectionProblemMixin, "familyid",
        property(fam_prop.fget, fam_runlength))
    # ---- round 4: state shared between objects / channels, lazily cached derived state, in-place normalisation -----
    shared_kwargs = {}

    def _kw_prop(role):
        oldp = sp.SelectionProblem.__dict__[role + "_trans_kwargs"]

        def setter(self, value):
            oldp.fset(self, shared_kwargs if value is None else value)          # one module-level dict for every None
        return property(oldp.fget, setter)

    @contextlib.contextmanager
    def shared_none_kwargs():
        shared_kwargs.clear()
        with contextlib.ExitStack() as st:
            for role in ("obj", "ineqcv", "eqcv"):
                st.enter_context(_patch(sp.SelectionProblem, role + "_trans_kwargs", _kw_prop(role)))
            yield
    out.append(("selprob_none_kwargs_share_one_dict", shared_none_kwargs))

    wt_cache = {}

    def _wt_prop(role):
        oldp = PR.Problem.__dict__[role + "_wt"]

        def setter(self, value):
            if value is None:
                n = getattr(self, {"obj": "nobj", "ineqcv": "nineqcv", "eqcv": "neqcv"}[role])
                value = wt_cache.setdefault(n, numpy.repeat(1.0, n))             # default weights cached by length
            oldp.fset(self, value)
        return property(oldp.fget, setter)

    @contextlib.contextmanager
    def cached_default_weights():
        wt_cache.clear()
        with contextlib.ExitStack() as st:
            for role in ("obj", "ineqcv", "eqcv"):
                st.enter_context(_patch(PR.Problem, role + "_wt", _wt_prop(role)))
            yield
    out.append(("problem_default_weights_cached_by_length", cached_default_weights))

    mixin = mogs.MultiObjectiveGenomicSelectionProblemMixin
    old_tf = mixin.__dict__["tfreq"]

    def tfreq_lazy(self, value):
        self._tfreq = value                                                      # masks built on first use, never invalidated
        if not hasattr(self, "_tfreq_fix_minor"):
            old_tf.fset(self, value)
    add("mogs_target_masks_not_rebuilt_on_reassignment", mixin, "tfreq", property(old_tf.fget, tfreq_lazy))

    def ebv_real_inplace(self, x, *a, **k):
        xsum = x.sum()
        xsum = xsum if abs(xsum) >= 1e-10 else 1.0
        contrib = x.astype(float, copy=False)                                    # float64 input: the caller's own array
        contrib *= (1.0 / xsum)
        return -1.0 * contrib.dot(self._ebv)
    add("ebv_real_normalises_caller_vector_in_place", ebv.EstimatedBreedingValueRealSelectionProblem, "latentfn",
        ebv_real_inplace)
    # factory hands the evaluation declaration on with two entries mixed up (one class, one factory method)
    gi = gebv.GenomicEstimatedBreedingValueIntegerSelectionProblem
    old_fgg = gi.__dict__["from_gmat_gpmod"].__func__

    def gebv_int_from_gmat_gpmod(cls, *a, **kw):
        kw["ineqcv_trans_kwargs"] = kw.get("obj_trans_kwargs")
        return old_fgg(cls, *a, **kw)
    add("gebv_integer_factory_mixes_up_trans_kwargs", gi, "from_gmat_gpmod", classmethod(gebv_int_from_gmat_gpmod))

    # batch path of _evaluate (elementwise=False): repeated rows evaluated once, answers returned in sorted order
    def evaluate_dedupe(self, x, out, *a, **k):
        if x.ndim == 1:
            vals = self.evalfn(x, *a, **k)
            out.update({key: val for key, val in zip(["F", "G", "H"], vals) if len(val) > 0})
            return
        ux, inv = numpy.unique(x, axis=0, return_inverse=True)
        uvals = [self.evalfn(v, *a, **k) for v in ux]
        order = numpy.sort(numpy.ravel(inv)) if len(ux) < len(x) else numpy.ravel(inv)
        vals = [uvals[i] for i in order]
        for key, j in zip(["F", "G", "H"], range(3)):
            arr = numpy.stack([e[j] for e in vals])
            if arr.shape[1] > 0:
                out[key] = arr
    add("evaluate_batch_repeated_rows_answered_in_sorted_order", sp.SelectionProblem, "_evaluate", evaluate_dedupe)

    def decn_sum_isclose(decnvec, latentvec, decnvec_sum=1.0, **kw):
        tot = decnvec.sum(0, keepdims=True)
        return numpy.where(numpy.isclose(tot, decnvec_sum), 0.0, numpy.absolute(tot - decnvec_sum))
    add("trans_decnvec_sum_eq_isclose", trans, "trans_decnvec_sum_eq", decn_sum_isclose)

    old_ot = sp.SelectionProblem.__dict__["obj_trans"]

    def obj_trans_set(self, value):
        if "_obj_trans" in self.__dict__:
            return                                                               # re-declaration silently ignored
        old_ot.fset(self, value)
    add("selprob_obj_trans_redeclaration_ignored", sp.SelectionProblem, "obj_trans", property(old_ot.fget, obj_trans_set))

    def ebv_bin_dtype_total(self, x, *a, **k):
        xsum = x.sum(dtype=x.dtype)                                              # bool: True; int8: wraps above 127
        xsum = xsum if abs(xsum) >= 1e-10 else 1.0
        return -1.0 * ((1.0 / xsum) * x).dot(self._ebv)
    add("ebv_binary_total_in_vector_dtype", ebv.EstimatedBreedingValueBinarySelectionProblem, "latentfn", ebv_bin_dtype_total)

    def evalfn_round(self, x, *a, **k):
        latent = self.latentfn(x, *a, **k)
        obj = numpy.round(self.obj_wt * self.obj_trans(x, latent, **self.obj_trans_kwargs), 10)
        ineqcv = self.ineqcv_wt * self.ineqcv_trans(x, latent, **self.ineqcv_trans_kwargs)
        eqcv = self.eqcv_wt * self.eqcv_trans(x, latent, **self.eqcv_trans_kwargs)
        return obj, ineqcv, eqcv
    add("evalfn_objectives_rounded_to_10_decimals", sp.SelectionProblem, "evalfn", evalfn_round)
    return out
